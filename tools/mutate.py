#!/usr/bin/env python3
"""Mutation campaign: small syntactic slips applied to sievelib, one at a time, in a scratch worktree.

  mutate.py list <file> [...]                 print the candidate sites of sievelib/<file>
  mutate.py run <out.jsonl> <n> <seed> <file> [...]
        sample n sites (PRNG seed) over the given files; for each: apply it in a scratch worktree of /repo HEAD, run the
        repository's test suite (a mutant the suite kills is of no interest: the brief asks for changes that PASS it), then
        the quick checks of the properties anchored in that file, cheapest first, stopping at the first that reports a
        violation.  One JSON line per mutant: site, operator, suite verdict, the check that caught it (or none).

Operators (each one node of the syntax tree, re-rendered in place; the rest of the file is byte-identical):
  cmp     == ↔ !=, < ↔ <=, > ↔ >=, in ↔ not in, is ↔ is not
  bool    and ↔ or
  not     `not x` → `x`
  const   integer n → n + 1 (and n - 1 for n > 0); True ↔ False
  arith   + ↔ -
  slice   a lower or upper slice bound dropped or moved by one
  stmt    an expression statement, `break`, `continue`, or an assignment to an attribute replaced by `pass`
  ret     `return True` ↔ `return False`; `return x` → `return None` for other x
Nothing of this is ever committed in /repo; the worktree is removed after each mutant.
"""
import ast, sys, os, json, random, subprocess, shutil, time

REPO = "/repo"
PY = "/venv/bin/python"
VERIF = os.path.dirname(os.path.dirname(os.path.abspath(__file__)))
CHECKS = {
    "parser.py": ["C02", "C03", "C13", "C07", "C18", "C20", "C04", "C01"],
    "commands.py": ["C02", "C03", "C13", "C07", "C20", "C18", "C04", "C01", "C06", "C19"],
    "tools.py": ["C19", "C06", "C11", "C02"],
    "factory.py": ["C12", "C19", "C11", "C06", "C13"],
    "managesieve.py": ["C09", "C05", "C15", "C14", "C17", "C10", "C16", "C08"],
    "digest_md5.py": ["C16"],
}
CMP = {ast.Eq: ast.NotEq, ast.NotEq: ast.Eq, ast.Lt: ast.LtE, ast.LtE: ast.Lt, ast.Gt: ast.GtE, ast.GtE: ast.Gt,
       ast.In: ast.NotIn, ast.NotIn: ast.In, ast.Is: ast.IsNot, ast.IsNot: ast.Is}


def seg(src_lines, node):
    """(start offset, end offset) of a node in the source text"""
    def off(l, c):
        return sum(len(x) for x in src_lines[:l - 1]) + len(src_lines[l - 1].encode("utf-8")[:c].decode("utf-8"))
    return off(node.lineno, node.col_offset), off(node.end_lineno, node.end_col_offset)


def sites(path):
    src = open(path, encoding="utf-8").read()
    lines = src.splitlines(keepends=True)
    tree = ast.parse(src)
    out = []
    docstrings = set()
    for n in ast.walk(tree):
        if isinstance(n, (ast.FunctionDef, ast.ClassDef, ast.Module, ast.AsyncFunctionDef)) and n.body and isinstance(n.body[0], ast.Expr) \
                and isinstance(getattr(n.body[0], "value", None), ast.Constant) and isinstance(n.body[0].value.value, str):
            docstrings.add(id(n.body[0]))

    def add(node, op, new_src, note):
        a, b = seg(lines, node)
        if src[a:b] != new_src:
            out.append({"line": node.lineno, "op": op, "old": src[a:b], "new": new_src, "a": a, "b": b, "note": note})

    import copy
    for n in ast.walk(tree):
        if isinstance(n, ast.Compare):
            for i, o in enumerate(n.ops):
                if type(o) in CMP:
                    m = copy.deepcopy(n)
                    m.ops[i] = CMP[type(o)]()
                    add(n, "cmp", ast.unparse(m), type(o).__name__)
        elif isinstance(n, ast.BoolOp):
            m = copy.deepcopy(n)
            m.op = ast.Or() if isinstance(n.op, ast.And) else ast.And()
            add(n, "bool", ast.unparse(m), type(n.op).__name__)
        elif isinstance(n, ast.UnaryOp) and isinstance(n.op, ast.Not):
            add(n, "not", ast.unparse(n.operand), "not dropped")
        elif isinstance(n, ast.Constant):
            if isinstance(n.value, bool):
                add(n, "const", repr(not n.value), "bool")
            elif isinstance(n.value, int):
                add(n, "const", repr(n.value + 1), "int+1")
                if n.value > 0:
                    add(n, "const", repr(n.value - 1), "int-1")
        elif isinstance(n, ast.BinOp) and isinstance(n.op, (ast.Add, ast.Sub)) and not isinstance(n.left, ast.Constant) :
            m = copy.deepcopy(n)
            m.op = ast.Sub() if isinstance(n.op, ast.Add) else ast.Add()
            if not (isinstance(n.left, ast.Constant) and isinstance(n.left.value, (str, bytes))):
                add(n, "arith", ast.unparse(m), type(n.op).__name__)
        elif isinstance(n, ast.Subscript) and isinstance(n.slice, ast.Slice):
            s = n.slice
            for which in ("lower", "upper"):
                v = getattr(s, which)
                if v is not None:
                    m = copy.deepcopy(n)
                    setattr(m.slice, which, None)
                    add(n, "slice", ast.unparse(m), which + " dropped")
                    if isinstance(v, ast.Constant) and isinstance(v.value, int):
                        m = copy.deepcopy(n)
                        setattr(m.slice, which, ast.Constant(v.value + 1))
                        add(n, "slice", ast.unparse(m), which + "+1")
        elif isinstance(n, ast.Return) and n.value is not None:
            if isinstance(n.value, ast.Constant) and isinstance(n.value.value, bool):
                add(n, "ret", "return " + repr(not n.value.value), "bool flipped")
            elif not (isinstance(n.value, ast.Constant) and n.value.value is None):
                add(n, "ret", "return None", "value dropped")
        elif isinstance(n, (ast.Break, ast.Continue)):
            add(n, "stmt", "pass", type(n).__name__)
        elif isinstance(n, ast.Expr) and id(n) not in docstrings and isinstance(n.value, ast.Call):
            add(n, "stmt", "pass", "call dropped")
        elif isinstance(n, (ast.Assign, ast.AugAssign)):
            tg = n.targets[0] if isinstance(n, ast.Assign) else n.target
            if isinstance(tg, (ast.Attribute, ast.Subscript)) or isinstance(n, ast.AugAssign):
                add(n, "stmt", "pass", "assignment dropped")
    # one mutation per distinct (a, b, new)
    seen, uniq = set(), []
    for s_ in out:
        k = (s_["a"], s_["b"], s_["new"])
        if k not in seen:
            seen.add(k)
            uniq.append(s_)
    return src, uniq


def sh(cmd, **k):
    return subprocess.run(cmd, shell=isinstance(cmd, str), capture_output=True, text=True, **k)


def run_one(fname, site, wt):
    path = os.path.join(wt, "sievelib", fname)
    src = open(path, encoding="utf-8").read()
    assert src[site["a"]:site["b"]] == site["old"], "site does not match"
    open(path, "w", encoding="utf-8").write(src[:site["a"]] + site["new"] + src[site["b"]:])
    rec = {"file": fname, "line": site["line"], "op": site["op"], "note": site["note"], "old": site["old"][:160], "new": site["new"][:160]}
    try:
        c = sh([PY, "-c", "import ast,sys;ast.parse(open(sys.argv[1]).read())", path])
        if c.returncode != 0:
            rec["suite"] = "does-not-compile"
            return rec
        t = sh("cd %s && timeout 300 %s -m pytest -q -x -p no:cacheprovider 2>&1 | tail -1" % (wt, PY))
        rec["suite"] = "passes" if "123 passed" in t.stdout else "kills"
        if rec["suite"] != "passes":
            return rec
        rec["diff"] = sh(["git", "-C", wt, "diff"]).stdout
        rec["caught_by"] = None
        rec["ran"] = []
        for pid in CHECKS[fname]:
            t0 = time.time()
            r = sh("cd %s && SIEVELIB_REPO=%s timeout 1500 ./check %s 2>&1 | grep -v KNOWN-FINDING | tail -2" % (VERIF, wt, pid))
            tail = r.stdout.strip().replace("\n", " | ")
            rec["ran"].append([pid, round(time.time() - t0, 1), tail[:200]])
            if "VIOLATION" in tail:
                rec["caught_by"] = pid
                rec["with_input"] = "no-failing-input-found" not in tail
                break
            if " OK tier=" not in tail:
                rec["caught_by"] = pid + " (check did not complete: %s)" % tail[-120:]
                break
        return rec
    finally:
        sh(["git", "-C", wt, "checkout", "--", "."])


def main():
    if sys.argv[1] == "list":
        for f in sys.argv[2:]:
            _, ss = sites(os.path.join(REPO, "sievelib", f))
            print(f, len(ss))
            for s_ in ss:
                print("  %4d %-6s %-16s %s  →  %s" % (s_["line"], s_["op"], s_["note"], s_["old"][:60].replace("\n", "⏎"), s_["new"][:60].replace("\n", "⏎")))
        return
    out, n, seed, files = sys.argv[2], int(sys.argv[3]), int(sys.argv[4]), sys.argv[5:]
    r = random.Random(seed)
    wt = "/tmp/mutant-wt-%d" % os.getpid()
    sh(["git", "-C", REPO, "worktree", "add", "-q", "--detach", "-f", wt, "HEAD"])
    allsites = []
    for f in files:
        _, ss = sites(os.path.join(wt, "sievelib", f))      # the committed source (the working tree of /repo may be in use)
        allsites += [(f, s_) for s_ in ss]
    done = set()
    if os.path.exists(out):
        for l in open(out):
            d = json.loads(l)
            done.add((d["file"], d["line"], d["op"], d["new"]))
    pick = r.sample(allsites, min(n, len(allsites)))
    try:
        for f, s_ in pick:
            if (f, s_["line"], s_["op"], s_["new"][:160]) in done:
                continue
            rec = run_one(f, s_, wt)
            with open(out, "a") as fh:
                fh.write(json.dumps(rec) + "\n")
            print(rec["file"], rec["line"], rec["op"], rec["suite"], rec.get("caught_by"), flush=True)
    finally:
        sh(["git", "-C", REPO, "worktree", "remove", "--force", wt])
        subprocess.run(["git", "-C", VERIF, "checkout", "--", "evidence", "lean/SieveModel/Generated"], capture_output=True)


if __name__ == "__main__":
    main()
