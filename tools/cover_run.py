"""one-off study: which lines of sievelib are executed by a check?  usage: cover_run.py Cxx outdir
Every process (pool workers are forked) writes its own set at exit."""
import sys, os, atexit, threading
REPO = os.environ.get("SIEVELIB_REPO", "/repo")
OUT = sys.argv[2]
PREFIX = os.path.join(REPO, "sievelib") + os.sep
seen = set()


def tracer(frame, event, arg):
    fn = frame.f_code.co_filename
    if not fn.startswith(PREFIX):
        return None
    if event == "call":
        seen.add((fn, frame.f_lineno))
        return local
    return None


def local(frame, event, arg):
    if event == "line":
        seen.add((frame.f_code.co_filename, frame.f_lineno))
    return local


def dump():
    try:
        with open(os.path.join(OUT, "%s.%d.cov" % (sys.argv[1], os.getpid())), "w") as f:
            for fn, ln in sorted(seen):
                f.write("%s:%d\n" % (os.path.basename(fn), ln))
    except Exception:
        pass


atexit.register(dump)
import multiprocessing.util
multiprocessing.util.Finalize(None, dump, exitpriority=0)
sys.settrace(tracer)
threading.settrace(tracer)
sys.path.insert(0, os.path.join(os.path.dirname(os.path.abspath(__file__)), "..", "harness"))
import framework
import corr_parse
_orig_worker = corr_parse._py_worker


def _cov_worker(chunk):
    r = _orig_worker(chunk)
    dump()
    return r


corr_parse._py_worker = _cov_worker
rc = framework.main([sys.argv[1]])
sys.settrace(None)
dump()
sys.exit(rc)
