#!/bin/bash
# tools/seedall.sh  — first a clean run of every check, then every seeded change against the check of its property
cd "$(dirname "$0")/.."
echo "== clean"
./tools/sweep.sh quick 0
echo "== seeded"
for d in seeded/*/; do
  id=$(basename $d); c=${id%%-*}
  # SEED_FILTER (a bash regular expression on the seed's name, e.g. 'R1[56]$') restricts the run to some seeds
  if [ -n "$SEED_FILTER" ] && ! [[ "$id" =~ $SEED_FILTER ]]; then continue; fi
  timeout 3000 python3 tools/seed.py run $id $c 2>&1 | tail -1 | cut -c1-260
done
