#!/usr/bin/env python3
"""Regenerates MANIFEST.json from the registry below (kept valid at all times)."""
import json, os
V = os.path.dirname(os.path.dirname(os.path.abspath(__file__)))
NOTE = ("Trusted: Lean 4.33 kernel; axioms propext/Classical.choice/Quot.sound only (audited each run); the translator for regenerated data; "
        "the correspondence suites (differential testing) for the hand-written model; the Spec/ definitions. ")
CLAIMED = {
 "C01": ("The supported language is specified independently as a recursive-descent recogniser over the command table (Spec.WF, Lean; shares only the table data with the parser model) with verdicts valid / invalid / outside-the-claim; the check classifies every input of the parse suite with it and requires the real parser to accept the valid and reject the invalid ones, and the verdict to be stable under re-rendering (case, whitespace, CR/LF/CRLF, comments). Kernel-checked: the lexer rule list of the code is the modelled one (regenerated each run). The equivalence theorem between recogniser and machine (parse_complete / parse_sound) is not proved yet: the agreement is established by exhaustive short token sequences + generated scripts + all single edits, so the level is proof for the listed obligations and exploration for the equivalence.",
         "independent Lean recogniser (Spec.WF) vs parser on exhaustive token sequences + generated scripts/edits; model/code correspondence; regenerated table obligations", "§9 C01"),
 "C03": ("Theorems, generic in the definition: an argument accepted into slot k is stored under k with exactly the written value, every other argument and every tag parameter is untouched, nothing is recorded nowhere unless the definition is exhausted; dict assignment keeps order and only appends. Machine-level faithfulness (result unparses to the token stream) is an open statement; on the real code every accepted input is compared with the tree of an independent RFC 5228 §8.2 generic-grammar parser with its own tokenizer.",
         "Lean 4 proof (argument interpreter records faithfully) + independent generic-grammar oracle + correspondence", "§9 C03"),
 "C04": ("Lean model of Command.tosieve tied to the code by the ser correspondence on every accepted input; lemmas: quoted list items and quoted/bracketed values are printed verbatim, multi-line text gets exactly one LF. The full round-trip theorem needs parse_complete and T-LEX(b) and is open; on the real code every accepted input is printed, re-parsed, compared (arguments by name) and re-printed (fixed point).",
         "Lean 4 serializer model + lemmas, ser correspondence, round-trip oracle on all accepted inputs", "§9 C04"),
 "C07": ("Kernel-checked on every run against the table regenerated from /repo: every (command, extension) and (command, tag, extension) pair of the frozen RFC extension map is present in the live table with that extension. Theorems for every table/state/token: a command instance is created only if its extension is loaded; an optional argument is recorded only if its slot's extension is loaded; an extension_values tag only if that extension is loaded; the loaded list only grows and only through require's completion callback. The trace-level statement is open; on the real code every accepted input is walked with the frozen map, and every (valid script, needed extension) removal pair must be rejected naming that extension at its first use, also through a parser that has just parsed the complete script.",
         "Lean 4 proof (local gating, monotone loaded set) + regenerated table obligation (decide) + frozen-map walk + removal pairs", "§9 C07"),
 "C20": ("Theorems: after register, the registered identifier (any letter case) resolves to the definition and every other identifier resolves as before; arguments of an arbitrary definition are recorded under the names it gives (instantiation of the generic interpreter theorems). Check: generated definitions of the documented shape are registered with add_commands in-process and shipped to the driver; every enumerated use and single-edit variant is compared with the model and with the independent recogniser on the extended table; accepted uses must be recorded under the defined names and survive print/parse; unknown-before / re-registration / other-names-unknown are exercised.",
         "Lean 4 proof (registry lemmas, generic interpreter) + custom-table correspondence + recogniser oracle", "§9 C20"),
 "C02": ("Theorems (all inputs): the lexer terminates, every rule consumes ≥1 byte, ≤|text| tokens; a hang can only be a doubly re-delivered token and reassign_arguments succeeds at most once per command; reported line within 1..1+#LF. Crash-freedom of the token machine is an open statement (kept in Props/C02.lean), decided on the real code by the oracle over exhaustive token sequences, generated scripts, edits and byte mutations; model tied to the code by the parse/lex correspondence.",
         "Lean 4 proof (lexer progress/fuel, rewind-once) + model/code correspondence + verdict oracle", "§9 C02"),
 "C13": ("Theorem: the model's parse is independent of the previous parser state; kernel-checked footprint obligations regenerated from /repo each run (every attribute mutated on the parse path is reset, lexer attributes initialised per scan, the only rebound global is reset, no factory call consults the global extension list). History suite replays script sequences through one reused Parser (+ interleaved fresh Parsers and FiltersSet scenarios) against the history-free model and a pristine interpreter.",
         "Lean 4 proof + regenerated footprint obligations (decide) + history correspondence", "§9 C13"),
 "C18": ("Theorems (all inputs, all tables): reported (line, column) = editor position of the byte offset; every rejection raised in the token loop is located at the start of the token being processed with that token's length; a stop on a prefix of the token stream is final whatever follows. 'Never later than the first invalid token' (immediacy) is an open statement; on the real code the oracle checks location, tail-independence and prefix viability on every rejected input of the parse suite.",
         "Lean 4 proof (position arithmetic, prefix determinism of the token fold) + correspondence + location oracle", "§9 C18"),
}
props = [json.loads(l) for l in open(os.path.join(V, "properties.jsonl"))]
m = {"version": 1,
     "setup_cmd": "cd lean && lake build SieveModel driver && cd .. && ./check --build-all",
     "hooks": {"guard": "SIEVELIB_VERIF", "enable": "none needed: no instrumentation was added to /repo; the harness drives the real code in-process (fake socket, wrapped Lexer.scan)",
               "baseline_off_cmd": "cd /repo && /venv/bin/python -m pytest -ra -q -p no:cacheprovider --timeout=900 --continue-on-collection-errors",
               "source_commits": [], "add_only": True},
     "engines": [{"name": "lean-model", "path": "lean/", "serves_properties": sorted(CLAIMED), "kind_free_text": "Lean 4 model + theorems (lake project SieveModel), compiled driver for the line protocol"},
                 {"name": "harness", "path": "harness/", "serves_properties": sorted(CLAIMED), "kind_free_text": "translator, correspondence suites, oracles, failing-input search"}],
     "checks": [], "not_applicable": [],
     "notes": "Single entry point ./check Cxx --tier quick|thorough [--replay file]. Repairs of genuine defects are unguarded 'fix:' commits in /repo (see known_findings.json, DESIGN.md §10)."}
for p in props:
    pid = p["id"]
    if pid in CLAIMED:
        text, tech, ref = CLAIMED[pid]
        m["checks"].append({"property_id": pid, "quick_cmd": "./check %s --tier quick" % pid, "thorough_cmd": "./check %s --tier thorough" % pid,
                            "evidence_file": "evidence/%s.json" % pid, "replay_cmd_template": "./check %s --replay {path}" % pid, "engine": "lean-model",
                            "level_claimed": {"category": "proof", "text": text, "design_ref": "DESIGN.md " + ref},
                            "level_note": NOTE, "technique": tech})
    else:
        m["not_applicable"].append({"property_id": pid, "reason": "not claimed yet: model/theorems/check for this property are still being built (see DESIGN.md status table)"})
json.dump(m, open(os.path.join(V, "MANIFEST.json"), "w"), indent=1, ensure_ascii=False)
print("claimed:", sorted(CLAIMED))
