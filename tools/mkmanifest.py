#!/usr/bin/env python3
"""Regenerates MANIFEST.json from the registry below (kept valid at all times)."""
import json, os
V = os.path.dirname(os.path.dirname(os.path.abspath(__file__)))
NOTE = ("Trusted: Lean 4.33 kernel; axioms propext/Classical.choice/Quot.sound only (audited each run); the translator for regenerated data; "
        "the correspondence suites (differential testing) for the hand-written model; the Spec/ definitions. ")
CLAIMED = {
 "C02": ("Theorems (all inputs): the lexer terminates, every rule consumes ≥1 byte, ≤|text| tokens; a hang can only be a doubly re-delivered token and reassign_arguments succeeds at most once per command; reported line within 1..1+#LF. Crash-freedom of the token machine is an open statement (kept in Props/C02.lean), decided on the real code by the oracle over exhaustive token sequences, generated scripts, edits and byte mutations; model tied to the code by the parse/lex correspondence.",
         "Lean 4 proof (lexer progress/fuel, rewind-once) + model/code correspondence + verdict oracle", "§9 C02"),
 "C13": ("Theorem: the model's parse is independent of the previous parser state; kernel-checked footprint obligations regenerated from /repo each run (every attribute mutated on the parse path is reset, lexer attributes initialised per scan, the only rebound global is reset, no factory call consults the global extension list). History suite replays script sequences through one reused Parser (+ interleaved fresh Parsers and FiltersSet scenarios) against the history-free model and a pristine interpreter.",
         "Lean 4 proof + regenerated footprint obligations (decide) + history correspondence", "§9 C13"),
 "C18": ("Theorems (all inputs, all tables): reported (line, column) = editor position of the byte offset; every rejection raised in the token loop is located at the start of the token being processed with that token's length; a stop on a prefix of the token stream is final whatever follows. 'Never later than the first invalid token' (immediacy) is an open statement; on the real code the oracle checks location, tail-independence and prefix viability on every rejected input of the parse suite.",
         "Lean 4 proof (position arithmetic, prefix determinism of the token fold) + correspondence + location oracle", "§9 C18"),
}
props = [json.loads(l) for l in open(os.path.join(V, "properties.jsonl"))]
m = {"version": 1,
     "setup_cmd": "cd lean && lake build SieveModel driver && cd .. && ./check --build-all",
     "hooks": {"guard": "SIEVELIB_VERIF", "enable": "none needed: no instrumentation was added to /repo; the harness drives the real code in-process (fake socket, wrapped Lexer.scan)",
               "baseline_off_cmd": "cd /repo && /venv/bin/python -m pytest -ra -q -p no:cacheprovider --timeout=900 --continue-on-collection-errors",
               "source_commits": [], "add_only": True},
     "engines": [{"name": "lean-model", "path": "lean/", "serves_properties": sorted(CLAIMED), "kind_free_text": "Lean 4 model + theorems (lake project SieveModel), compiled driver for the line protocol"},
                 {"name": "harness", "path": "harness/", "serves_properties": sorted(CLAIMED), "kind_free_text": "translator, correspondence suites, oracles, failing-input search"}],
     "checks": [], "not_applicable": [],
     "notes": "Single entry point ./check Cxx --tier quick|thorough [--replay file]. Repairs of genuine defects are unguarded 'fix:' commits in /repo (see known_findings.json, DESIGN.md §10)."}
for p in props:
    pid = p["id"]
    if pid in CLAIMED:
        text, tech, ref = CLAIMED[pid]
        m["checks"].append({"property_id": pid, "quick_cmd": "./check %s --tier quick" % pid, "thorough_cmd": "./check %s --tier thorough" % pid,
                            "evidence_file": "evidence/%s.json" % pid, "replay_cmd_template": "./check %s --replay {path}" % pid, "engine": "lean-model",
                            "level_claimed": {"category": "proof", "text": text, "design_ref": "DESIGN.md " + ref},
                            "level_note": NOTE, "technique": tech})
    else:
        m["not_applicable"].append({"property_id": pid, "reason": "not claimed yet: model/theorems/check for this property are still being built (see DESIGN.md status table)"})
json.dump(m, open(os.path.join(V, "MANIFEST.json"), "w"), indent=1, ensure_ascii=False)
print("claimed:", sorted(CLAIMED))
