#!/usr/bin/env python3
"""Seeded-change tooling.
  seed.py import <srcdir> <id>     verify a candidate (tests pass with patch, demo FAILs with it, PASSes without) in a scratch
                                   worktree and copy it to /verif/seeded/<id>/
  seed.py run <id> <Cxx> [...]     apply /verif/seeded/<id>/patch.diff to /repo, run ./check Cxx for each, undo
"""
import sys, os, subprocess, json, shutil, tempfile
VERIF = os.path.dirname(os.path.dirname(os.path.abspath(__file__)))
REPO = "/repo"
PY = "/venv/bin/python"


def sh(cmd, **k):
    return subprocess.run(cmd, shell=isinstance(cmd, str), capture_output=True, text=True, **k)


def verify(src):
    wt = tempfile.mkdtemp(prefix="seedverify-", dir="/tmp")
    os.rmdir(wt)
    r = sh(["git", "-C", REPO, "worktree", "add", "-q", "--detach", wt, "HEAD"])
    assert r.returncode == 0, r.stderr
    try:
        patch = os.path.join(src, "patch.diff")
        demo = os.path.join(src, "demo.py")
        env = dict(os.environ, PYTHONPATH=wt)
        d0 = sh([PY, "-W", "ignore", demo, wt], env=env, timeout=600)
        a = sh(["git", "-C", wt, "apply", patch])
        if a.returncode != 0:
            a = sh(["git", "-C", wt, "apply", "--3way", patch])
        if a.returncode != 0:
            return {"ok": False, "why": "patch does not apply: " + a.stderr[-300:]}
        t = sh("cd %s && %s -m pytest -q -p no:cacheprovider 2>&1 | tail -1" % (wt, PY))
        d1 = sh([PY, "-W", "ignore", demo, wt], env=env, timeout=600)
        diff = sh(["git", "-C", wt, "diff"]).stdout
        res = {"tests": t.stdout.strip(), "demo_without": d0.returncode, "demo_with": d1.returncode,
               "demo_with_tail": (d1.stdout + d1.stderr)[-400:], "diff": diff}
        res["ok"] = ("123 passed" in t.stdout) and d0.returncode == 0 and d1.returncode == 1
        return res
    finally:
        sh(["git", "-C", REPO, "worktree", "remove", "--force", wt])


def cmd_import(src, sid):
    res = verify(src)
    print(json.dumps({k: v for k, v in res.items() if k != "diff"}, indent=1))
    if not res["ok"]:
        return 1
    dst = os.path.join(VERIF, "seeded", sid)
    os.makedirs(dst, exist_ok=True)
    with open(os.path.join(dst, "patch.diff"), "w") as f:
        f.write(res["diff"])  # re-diffed against current HEAD
    shutil.copy(os.path.join(src, "demo.py"), os.path.join(dst, "demo.py"))
    meta = {}
    try:
        meta = json.load(open(os.path.join(src, "meta.json")))
    except Exception:
        pass
    meta["verified"] = {"tests": res["tests"], "demo_exit_without_patch": res["demo_without"], "demo_exit_with_patch": res["demo_with"],
                        "ran": ["git apply patch.diff (scratch worktree of /repo HEAD)", "pytest -q (123 passed)", "demo.py <worktree>"]}
    json.dump(meta, open(os.path.join(dst, "meta.json"), "w"), indent=1)
    print("imported", sid)
    return 0


def cmd_run(sid, pids, tier="quick"):
    patch = os.path.join(VERIF, "seeded", sid, "patch.diff")
    st = sh(["git", "-C", REPO, "status", "--porcelain"]).stdout.strip()
    assert st == "", "repo not clean: " + st
    a = sh(["git", "-C", REPO, "apply", patch])
    assert a.returncode == 0, a.stderr
    out = {}
    try:
        for pid in pids:
            r = sh([os.path.join(VERIF, "check"), pid, "--tier", tier], timeout=3600)
            lines = [l for l in r.stdout.splitlines() if l.startswith("VIOLATION") or l.startswith("KNOWN") or " OK " in l or "FAILED" in l or "FAILURE" in l]
            out[pid] = {"rc": r.returncode, "lines": lines[-4:]}
            print(sid, pid, "rc=%d" % r.returncode, " | ".join(lines[-3:]))
    finally:
        sh(["git", "-C", REPO, "checkout", "--", "."])
    return out


if __name__ == "__main__":
    if sys.argv[1] == "import":
        sys.exit(cmd_import(sys.argv[2], sys.argv[3]))
    if sys.argv[1] == "run":
        cmd_run(sys.argv[2], sys.argv[3:])
