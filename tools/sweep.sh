#!/bin/bash
# tools/sweep.sh <tier> <seed>...   runs every check with each seed; prints the lines that are not plain OK
cd "$(dirname "$0")/.."
tier=$1; shift
for sd in "$@"; do
  for i in 01 02 03 04 05 06 07 08 09 10 11 12 13 14 15 16 17 18 19 20; do
    out=$(VERIF_SEED=$sd timeout 3000 ./check C$i --tier $tier 2>&1 | grep -v KNOWN-FINDING | tail -2)
    case "$out" in
      *" OK tier="*) if echo "$out" | grep -q VIOLATION; then echo "seed=$sd C$i: $out"; fi ;;
      *) echo "seed=$sd C$i: $out" ;;
    esac
  done
  echo "seed $sd done"
done
