#!/usr/bin/env python3
"""summarise a replay file: group violations by message prefix"""
import json, sys, collections
d = json.load(open(sys.argv[1]))
n = int(sys.argv[2]) if len(sys.argv) > 2 else 12
al = d.get("all", [])
print("kind:", d.get("kind"), "count(all):", len(al), "broken:", [b.get("kind") for b in d.get("broken", [])])
for v in al[:n]:
    print("-", v.get("what", "")[:170])
    print("     ", repr(v.get("input", ""))[:230])
