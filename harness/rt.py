import sys, io
sys.path.insert(0, "/repo")
from sievelib.parser import Parser
for s in sys.argv[1:]:
    b = s.encode("utf-8").decode("unicode_escape").encode("latin-1")
    p = Parser()
    if not p.parse(b): print(repr(b), "REJECT", p.error); continue
    t = io.StringIO()
    for c in p.result: c.tosieve(target=t)
    out = t.getvalue()
    p2 = Parser(); ok = p2.parse(out)
    t2 = io.StringIO()
    if ok:
        for c in p2.result: c.tosieve(target=t2)
    print(repr(b), "->", repr(out), ok, p2.error if not ok else "", t2.getvalue()==out)
