"""`parse` correspondence suite: Lean Machine.parse vs sievelib.parser.Parser.parse (DESIGN §7.2).

Produces *records* (input, meta, impl answer, model answer) that the property plugins run their
oracles on.  Three streams: exhaustive token sequences (pruned by liveness, dead prefixes sampled),
grammar-directed valid scripts with all single-token edits, byte-level mutations.
"""
import itertools, sys, os, multiprocessing as mp
from common import *
import gen_scripts

NPROC = int(os.environ.get("VERIF_NPROC", "16"))

PREAMBLE = (b'require ["fileinto","reject","envelope","body","vacation","vacation-seconds","date","relational",'
            b'"regex","copy","mailbox","imap4flags","variables"];\n')

VOCAB = [
    b";", b",", b"{", b"}", b"(", b")", b"[", b"]",
    b'"a"', b'"%b"', b'"\xff"', b"10", b"1K", b"text:\n%x\n.\n",
    b":is", b":contains", b":comparator", b'"i;octet"', b":count", b'"gt"', b":regex", b":copy", b":create",
    b":flags", b":over", b":localpart", b":raw", b":content", b":zone", b":originalzone", b":subject", b":days", b":seconds", b":mime", b":foo",
    b"if", b"elsif", b"else", b"require", b"stop", b"keep", b"fileinto", b"redirect", b"reject", b"addflag",
    b"vacation", b"set", b"true", b"not", b"anyof", b"header", b"address", b"exists", b"size", b"body",
    b"hasflag", b"date", b"currentdate", b"foo", b"control", b"IF", b":IS",
]

CORPUS = [
    b'require "imap4flags"; if hasflag {', b"require;", b"control;", b"action;", b"if test {}", b"unknown;", b"command;",
    b'keep "\xff";', b'if header "\xc3\xa9\xc3\xa9\xc3\xa9\xc3\xa9\xc3\xa9\xc3\xa9\xc3\xa9\xc3\xa9\xc3\xa9\xc3\xa9\xc3\xa9\xc3\xa9\xc3\xa9\xc3\xa9\xc3\xa9" "a" "b" {keep;}',
    b"stop", b"stop {}", b"stop true;", b'stop ["a"];', b"if anyof(true);", b"keep;\nelse {\n\n\n}", b'if header "a" {}', b'if header "a";',
    b"if true {} else true {}", b'require "imap4flags"; addflag "MyFlags" "Big";', b'require "imap4flags"; if anyof(hasflag "a", true) {keep;}',
    b'require "relational"; if header :COUNT "gt" "a" "3" {}', b'require "body"; if body :content ["text"] "a" {}',
    b'require "reject"; reject text:\r\nhello $1\r\n.\r\n;', b'if header ["\\"a\\""] "d" {keep;}', b"if anyof(true) , true {}",
    b'require "imap4flags"; keep :flags "x";', b'require "imap4flags"; if hasflag "a" :comparator { keep; }',
    b'require ["relational","imap4flags"]; if hasflag "a" :count { keep; }', b"/** doc **/ keep; /* b */ stop;",
    b'require "fileinto"; fileinto "INBOX" :copy;', b"keep :nosuchtag;", b'if true { keep; } else', b'require "fileinto"; fileinto "INBOX"',
    b'"100%"', b'stop "50% discount";', b'discard text:\n20% off\n.\n;', b'keep "%s" "%(x)s" {',
    b'require "regex"; if header :REGEX "a" "b" {keep;}', b'if header :REGEX "a" "b" {keep;}', b'vacation :SECONDS 5 "x";',
]


# inputs at size boundaries: very long tokens of every kind, deep nesting, many arguments
CORPUS += [
    b"if size :over " + b"9" * 5000 + b" { stop; }", b'require "vacation"; vacation :days ' + b"1" * 4400 + b' "x";', b"if size :over " + b"7" * 25 + b"K { stop; }",
    b'keep "' + b"a" * 70000 + b'";', b'if header "' + b"\xc3\xa9" * 3000 + b'" "b" { keep; }', b"x" * 5000 + b";", b"keep :" + b"t" * 5000 + b";",
    b"if " + b"not " * 60 + b"true { keep; }", b"if true { " * 40 + b"keep; " + b"} " * 40, b"if anyof (" + b"true, " * 300 + b"true) { keep; }",
    b'if header [' + b'"a", ' * 500 + b'"z"] "b" { keep; }', b"# " + b"c" * 70000 + b"\nkeep;", b"/* " + b"*" * 5000 + b" */ keep;",
    b'require "reject"; reject text:\n' + b"line\n" * 3000 + b".\n;", b"keep;" * 2000,
]
# scripts that END inside a command nested far deeper than an interpreter's recursion limit (the verdict names the command
# still open; finding out which one must not need one stack frame per level)
CORPUS += [b"if " + b"not " * 1500 + b"header", b"if true {\n" * 1500, b"if anyof(" * 1200 + b"true", b"if " + b"not " * 3000,
           b"if true { " * 1100 + b"keep"]
# tokens that never close, filled with what makes a pattern retry: escapes in a string whose quote is lost, dots and line
# ends in a text block without its final dot, stars in a comment without its end — the verdict must still come at once
CORPUS += [
    b'keep "' + b"\\.abc" * 14, b'keep "' + b"\\.abc" * 40 + b";\nstop;\n", b'keep "' + b'a\\"b' * 20 + b"\\\n\";",
    b'require ["regex"];\nif header :regex "received" "from ' + b"mx\\\\.example\\\\(" * 10 + b" {\n keep;\n}\n",
    b'keep "' + b"\\" * 41, b'keep "' + b"\\\\" * 30 + b"\\\n",
    b'require "reject"; reject text:\n' + b".x\n.\r x\n..\n" * 200, b"reject text:" + b"\n." * 400 + b"x",
    b"/*" + b"* /" * 2000, b"/*" + b"*" * 3000, b"keep; /*" + b"/*" * 1500,
    b"#" + b"\r" * 3000, b":" * 3000, b"9" * 3000 + b"KK;", b'"' * 3001,
]


def render(tokens):
    return b" ".join(tokens)


def _py_worker(chunk):
    import pyref
    return [pyref.parse_answer(t, want_yields=True)[:2] for t in chunk]


def _lean_worker(chunk):
    return run_driver(["parse " + hx(t) for t in chunk])


_pool = None


def pool():
    global _pool
    if _pool is None:
        _pool = mp.get_context("fork").Pool(NPROC)
        import atexit
        atexit.register(_shutdown)
    return _pool


def _shutdown():
    global _pool
    if _pool is not None:
        try:
            _pool.close()
            _pool.join()
        except Exception:  # noqa
            pass
        _pool = None


def chunks(xs, n):
    k = max(1, (len(xs) + n - 1) // n)
    return [xs[i:i + k] for i in range(0, len(xs), k)]


def eval_both(inputs):
    """returns (impl_answers, impl_yields, model_answers)"""
    if not inputs:
        return [], [], []
    cs = chunks(inputs, NPROC * 4)
    p = pool()
    ra = p.map_async(_py_worker, cs)
    rb = p.map_async(_lean_worker, cs)
    a = [x for c in ra.get() for x in c]
    b = [x for c in rb.get() for x in c]
    return [x[0] for x in a], [x[1] for x in a], b


def is_live(ans):
    return ans.startswith("accept") or " endExpected" in ans or " endUnfinished" in ans


class Records:
    """everything a run evaluated: parallel lists"""

    def __init__(self):
        self.text, self.meta, self.impl, self.yields, self.model = [], [], [], [], []
        self.classes = {}
        self.stream_counts = {}

    def add(self, texts, metas, impl, yields, model):
        self.text += texts
        self.meta += metas
        self.impl += impl
        self.yields += yields
        self.model += model
        for a, m in zip(impl, metas):
            cls = a.split(" ")[0] if not a.startswith("reject") else "reject:" + (a.split(" ") + ["?"] * 5)[4]
            self.classes[cls] = self.classes.get(cls, 0) + 1
            self.stream_counts[m["stream"]] = self.stream_counts.get(m["stream"], 0) + 1

    def diffs(self):
        out = []
        for t, a, b in zip(self.text, self.impl, self.model):
            if a != b:
                out.append({"suite": "parse", "input_hex": t.hex(), "input": t.decode("latin-1"), "impl": a[:500], "model": b[:500]})
        return out

    def nontrivial(self):
        seen = set()
        n = 0
        for t, a in zip(self.text, self.impl):
            if t in seen:
                continue
            seen.add(t)
            if (a.startswith("accept") and a.count("(") >= 2) or (a.startswith("reject") and len(t.split()) >= 4):
                n += 1
        return n

    def __len__(self):
        return len(self.text)


def stream_exhaustive(rec, depth, preamble=b"", tag="exh", sample_dead=1500):
    r = rng("parse-exh" + tag)
    live = [()]
    for d in range(1, depth + 1):
        cands = [p + (v,) for p in live for v in VOCAB]
        texts = [preamble + render(c) for c in cands]
        impl, ys, model = eval_both(texts)
        rec.add(texts, [{"stream": tag, "tokens": len(c)} for c in cands], impl, ys, model)
        newlive, dead = [], []
        for c, a in zip(cands, impl):
            (newlive if is_live(a) else dead).append(c)
        if dead:
            ext = [r.choice(dead) + (r.choice(VOCAB), r.choice(VOCAB)) for _ in range(min(sample_dead, len(dead)))]
            texts = [preamble + render(c) for c in ext]
            impl, ys, model = eval_both(texts)
            rec.add(texts, [{"stream": tag + "-dead", "tokens": len(c)} for c in ext], impl, ys, model)
        live = newlive
    return len(live)


def stream_generated(rec, table, nscripts, edits_per=6, tag="gen"):
    r = rng("parse-gen")
    g = gen_scripts.Gen(table, r)
    texts, metas = [], []
    for i in range(nscripts):
        toks, need, nreq = g.script(depth=2)
        style = "rand" if i % 2 else "space"
        texts.append(gen_scripts.render(toks, r, style))
        metas.append({"stream": tag, "valid": True, "need": sorted(need), "ntok": len(toks), "tokens": [t.hex() for t in toks], "nreq": nreq})
        if i < nscripts // 2:
            for kind, pos, mt in gen_scripts.single_edits(toks, VOCAB, r, limit=edits_per):
                texts.append(gen_scripts.render(mt))
                metas.append({"stream": tag + "-edit", "edit": kind, "pos": pos})
            for kind, pos, mt in gen_scripts.structural_edits(toks, r, limit=2 * edits_per):
                texts.append(gen_scripts.render(mt))
                metas.append({"stream": tag + "-edit", "edit": kind, "pos": pos})
    impl, ys, model = eval_both(texts)
    rec.add(texts, metas, impl, ys, model)


def stream_bytes(rec, table, nbase, per, tag="bytes"):
    r = rng("parse-bytes")
    g = gen_scripts.Gen(table, r)
    texts, metas = [], []
    witnesses = []
    try:
        for f in json.load(open(os.path.join(VERIF, "known_findings.json")))["findings"]:
            w = (f.get("witness") or {}).get("script")
            if w:
                witnesses.append(w.encode("utf-8"))
    except Exception:  # noqa
        pass
    for t in CORPUS + witnesses:
        texts.append(t)
        metas.append({"stream": "corpus"})
    for i in range(nbase):
        toks, need, nreq = g.script(depth=2)
        base = gen_scripts.render(toks, r, "rand")
        for m in gen_scripts.byte_mutations(base, r, per):
            texts.append(m)
            metas.append({"stream": tag})
    impl, ys, model = eval_both(texts)
    rec.add(texts, metas, impl, ys, model)


def run_streams(tier, table, want=("exh", "gen", "bytes")):
    rec = Records()
    depth = int(os.environ.get("PARSE_DEPTH", "0")) or (5 if tier == "quick" else 6)
    info = {"depth": depth, "vocab": len(VOCAB)}
    if "exh" in want:
        info["live"] = [stream_exhaustive(rec, depth, b"", "exh"), stream_exhaustive(rec, depth, PREAMBLE, "exh-pre")]
    if "gen" in want:
        stream_generated(rec, table, 300 if tier == "quick" else 3000)
    if "bytes" in want:
        stream_bytes(rec, table, 150 if tier == "quick" else 2000, 40)
    return rec, info


if __name__ == "__main__":
    gj = json.load(open(os.path.join(VERIF, ".cache", "generated.json")))
    t0 = time.time()
    rec, info = run_streams(sys.argv[1] if len(sys.argv) > 1 else "quick", gj["table"])
    d = rec.diffs()
    print(json.dumps({"n": len(rec), "ndiffs": len(d), "diffs": d[:12], "classes": rec.classes, "streams": rec.stream_counts,
                      "nontrivial": rec.nontrivial(), "info": info, "wall": time.time() - t0}, indent=1)[:9000])
