"""`parse` correspondence suite: Lean Machine.parse vs sievelib.parser.Parser.parse (DESIGN §7.2)."""
import itertools, sys, os, multiprocessing as mp
from common import *

NPROC = int(os.environ.get("VERIF_NPROC", "16"))

PREAMBLE = (b'require ["fileinto","reject","envelope","body","vacation","vacation-seconds","date","relational",'
            b'"regex","copy","mailbox","imap4flags","variables"];\n')

VOCAB = [
    b";", b",", b"{", b"}", b"(", b")", b"[", b"]",
    b'"a"', b'"b"', b"10", b"1K", b"text:\nx\n.\n",
    b":is", b":contains", b":comparator", b'"i;octet"', b":count", b'"gt"', b":regex", b":copy", b":create",
    b":flags", b":over", b":localpart", b":raw", b":content", b":zone", b":originalzone", b":subject", b":days", b":seconds", b":mime", b":foo",
    b"if", b"elsif", b"else", b"require", b"stop", b"keep", b"fileinto", b"redirect", b"reject", b"addflag",
    b"vacation", b"set", b"true", b"not", b"anyof", b"header", b"address", b"exists", b"size", b"body",
    b"hasflag", b"date", b"currentdate", b"foo", b"control", b"IF", b":IS",
]


def render(tokens):
    return b" ".join(tokens)


def _py_worker(chunk):
    import pyref
    return [pyref.parse_answer(t) for t in chunk]


def _lean_worker(chunk):
    return run_driver(["parse " + hx(t) for t in chunk])


_pool = None


def pool():
    global _pool
    if _pool is None:
        _pool = mp.get_context("fork").Pool(NPROC)
    return _pool


def chunks(xs, n):
    k = max(1, (len(xs) + n - 1) // n)
    return [xs[i:i + k] for i in range(0, len(xs), k)]


def eval_both(inputs):
    """returns (impl_answers, model_answers)"""
    if not inputs:
        return [], []
    cs = chunks(inputs, NPROC * 4)
    p = pool()
    ra = p.map_async(_py_worker, cs)
    rb = p.map_async(_lean_worker, cs)
    a = [x for c in ra.get() for x in c]
    b = [x for c in rb.get() for x in c]
    return a, b


def is_live(ans):
    """prefix may still be extended to something accepted"""
    return ans.startswith("accept") or " endExpected" in ans or " endUnfinished" in ans


class Stats:
    def __init__(self):
        self.evaluations = 0
        self.nontrivial = 0
        self.classes = {}
        self.diffs = []
        self.samples = []

    def add(self, inputs, impl, model):
        for t, a, b in zip(inputs, impl, model):
            self.evaluations += 1
            cls = a.split(" ")[0] if not a.startswith("reject") else "reject:" + a.split(" ")[4]
            self.classes[cls] = self.classes.get(cls, 0) + 1
            if a.startswith("accept") and a.count("(") >= 2 or (a.startswith("reject") and t.count(b" ") >= 3):
                self.nontrivial += 1
            if a != b:
                self.diffs.append({"input": t.hex(), "text": t.decode("latin-1"), "impl": a[:600], "model": b[:600]})
        if inputs and len(self.samples) < 6:
            self.samples.append(inputs[len(inputs) // 2].decode("latin-1"))


def exhaustive(depth, stats, preamble=b"", sample_dead=2000):
    r = rng("parse-exh")
    live = [()]
    for d in range(1, depth + 1):
        cands = [p + (v,) for p in live for v in VOCAB]
        texts = [preamble + render(c) for c in cands]
        impl, model = eval_both(texts)
        stats.add(texts, impl, model)
        newlive, dead = [], []
        for c, a in zip(cands, impl):
            (newlive if is_live(a) else dead).append(c)
        # extensions of dead prefixes: sampled (prefix determinism is checked, not assumed)
        if dead:
            ext = [r.choice(dead) + (r.choice(VOCAB), r.choice(VOCAB)) for _ in range(min(sample_dead, len(dead)))]
            texts = [preamble + render(c) for c in ext]
            impl, model = eval_both(texts)
            stats.add(texts, impl, model)
        live = newlive
    return len(live)


def run(tier="quick"):
    st = Stats()
    depth = int(os.environ.get("PARSE_DEPTH", "0")) or (5 if tier == "quick" else 7)
    nlive = exhaustive(depth, st)
    nlive2 = exhaustive(depth, st, PREAMBLE)
    return {"suite": "parse", "evaluations": st.evaluations, "distinct_nontrivial": st.nontrivial, "classes": st.classes,
            "ndiffs": len(st.diffs), "diffs": st.diffs[:25], "samples": st.samples, "live_prefixes_at_depth": [nlive, nlive2],
            "vocab": len(VOCAB), "depth": depth}


if __name__ == "__main__":
    import time
    t0 = time.time()
    res = run(sys.argv[1] if len(sys.argv) > 1 else "quick")
    res["wall_s"] = time.time() - t0
    print(json.dumps(res, indent=1)[:6000])
