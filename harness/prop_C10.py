"""C10 — no script command before authentication; no credentials before TLS."""
import itertools
from prop_common import *
import msref, refserver, corr_client

RULE = ("call histories over the public API against the reference server: before connect, after a failed connect / failed authentication, "
        "after success, re-connect after success (with and without STARTTLS on either connection, after logout / a command / a dropped connection); connect(starttls=True) × server behaviour at each handshake step (OK / NO / BYE / "
        "silence), handshake failure, STARTTLS not announced, differing pre-/post-TLS SASL lists (other mechanism, empty, no SASL line at all, look-alike names), plaintext injected behind the STARTTLS "
        "reply; the write log (channel-tagged) is checked by the oracle; each step is replayed on the Lean model; statically (kernel-"
        "checked on the regenerated method table): every Client method sending a script verb carries @authentication_required; "
        "non-trivial = history with ≥ 2 calls")

SCRIPT_OPS = [("havespace", ("n", 1)), ("listscripts", ()), ("getscript", ("n",)), ("putscript", ("n", "keep;")), ("checkscript", ("keep;",)),
              ("deletescript", ("n",)), ("renamescript", ("a", "b")), ("setactive", ("n",))]


def verbs_written(writes):
    out = []
    for tls, b in writes:
        v = b.split(b" ", 1)[0].split(b"\r\n", 1)[0].upper().decode("latin-1")
        out.append((tls, v, b))
    return out


def check_writes(writes, starttls_requested, auth_ok_known):
    """the ordering oracle on one connection's write log"""
    probs = []
    authed = False
    for tls, verb, b in verbs_written(writes):
        if verb in refserver.RefServer.SCRIPT_VERBS and not authed:
            probs.append("%s written before any successful AUTHENTICATE on this connection" % verb)
        if verb == "AUTHENTICATE":
            if starttls_requested and not tls:
                probs.append("AUTHENTICATE written on the plain channel although STARTTLS was requested")
            authed = auth_ok_known
    return probs


def run(ctx):
    r = rng("c10")
    viol, lines, expect = [], [], []
    evals = nontriv = 0
    samples = []

    def record(reqs, outs):
        lines.extend(reqs)
        expect.extend(outs)

    # 1. guarded calls in an unauthenticated state
    def unauth_state(kind):
        s = msref.Session()
        reqs, outs = ["c op=new"], ["ok"]
        srv = None
        if kind == "failed-auth":
            srv = refserver.RefServer(r, users={b"user": b"other"})
        elif kind == "failed-connect-bye":
            srv = refserver.RefServer(r, greeting_status=b"BYE")
        elif kind == "no-mech":
            srv = refserver.RefServer(r, sasl=b"GSSAPI")
        elif kind == "success-then-failed-reconnect":
            srv = refserver.RefServer(r)
            g = srv.greeting()
            outs.append(s.connect(b"", [], "user", "pw", server=srv))
            reqs.append(msref.req_connect(g, [], "user", "pw", later=list(s.wire.segments)))
            srv = refserver.RefServer(r, users={b"user": b"changed"})
        if srv is not None:
            g = srv.greeting()
            outs.append(s.connect(b"", [], "user", "pw", server=srv))
            reqs.append(msref.req_connect(g, [], "user", "pw", later=list(s.wire.segments)))
        return s, srv, reqs, outs

    for kind in ("never-connected", "failed-auth", "failed-connect-bye", "no-mech", "success-then-failed-reconnect"):
        for op, args in SCRIPT_OPS:
            s, srv, reqs, outs = unauth_state(kind)
            nw = len(s.wire.writes)
            nseg = len(s.wire.segments)
            out = s.op(op, *args)
            reqs.append(msref.req_op(op, *args, later=list(s.wire.segments[nseg:])))
            outs.append(out)
            record(reqs, outs)
            evals += 1
            nontriv += 1 if len(outs) > 2 else 0
            if "res=error" not in out or len(s.wire.writes) != nw:
                viol.append({"history": kind, "op": op, "what": "%s in state %r: expected Error and no write, got %s, %d new write(s) %r" % (
                    op, kind, out[:60], len(s.wire.writes) - nw, [w[1][:40] for w in s.wire.writes[nw:]])})
            if srv is not None and any("before authentication" in l for l in srv.log):
                viol.append({"history": kind, "op": op, "what": "server saw a script command before authentication: %r" % srv.log})

    # 2. STARTTLS sequencing
    variants = []
    for fault in (None, "NO", "BYE", "SILENT"):
        for tlsok in (True, False):
            for cap in (True, False):
                for post in (None, b"LOGIN", b"", b"GSSAPI", False, b"PLAIN-CLIENTTOKEN GSSAPI", b"XLOGIN-TOKEN X-PLAIN-SUBMIT", b"OAUTHBEARER"):
                    variants.append((fault, tlsok, cap, post, None))
    # a mechanism named by the caller is subject to the same rule: it must be announced on the channel the credentials go over
    for post in (None, b"LOGIN", b"", b"GSSAPI", False, b"OAUTHBEARER", b"PLAIN LOGIN"):
        for mech in ("PLAIN", "LOGIN", "OAUTHBEARER"):
            variants.append((None, True, True, post, mech))
    for fault, tlsok, cap, post, mech in variants:
        srv = refserver.RefServer(r, starttls=cap, sasl=b"PLAIN", post_tls_sasl=post, faults=({"STARTTLS": fault} if fault else {}))
        s = msref.Session()
        g = srv.greeting()
        out = s.connect(b"", [], "user", "pw", starttls=True, mech=mech, server=srv, tlsok=tlsok)
        record(["c op=new", msref.req_connect(g, [], "user", "pw", starttls=True, mech=mech, tlsok=tlsok, later=list(s.wire.segments))], ["ok", out])
        evals += 1
        nontriv += 1
        probs = check_writes(s.wire.writes, True, srv.authed)
        announced = (b"PLAIN" if post is None else (post or b"")).decode().split()
        usable = [m for m in ("PLAIN", "LOGIN", "OAUTHBEARER") if m in announced] if mech is None else [m for m in (mech,) if m in announced]
        should_succeed = fault is None and tlsok and cap and bool(usable)
        if should_succeed and "res=b1" not in out:
            probs.append("connect should succeed: %s" % out[:80])
        if not should_succeed and "res=b1" in out:
            probs.append("connect succeeded although STARTTLS was %s" % ("refused/failed" if cap else "not announced"))
        if not (fault is None and tlsok and cap) and any(v == "AUTHENTICATE" for _, v, _ in verbs_written(s.wire.writes)):
            probs.append("credentials sent although the TLS handshake did not complete")
        if any("unannounced mechanism" in l for l in srv.log):
            probs.append("AUTHENTICATE with a mechanism the server did not announce after the handshake: %r" % srv.log)
        if should_succeed and post == b"LOGIN" and mech is None and getattr(srv, "auth_attempt", (None,))[0] != "LOGIN":
            probs.append("mechanism not taken from the post-TLS capabilities (server announced LOGIN after TLS): %r" % (getattr(srv, "auth_attempt", None),))
        for p in probs:
            viol.append({"history": "starttls fault=%s tlsok=%s cap=%s post=%r authmech=%r" % (fault, tlsok, cap, post, mech), "what": p})
        if len(samples) < 2:
            samples.append({"history": "connect(starttls=True) fault=%s tlsok=%s" % (fault, tlsok), "writes": [(t, b[:30].decode("latin-1")) for t, b in s.wire.writes]})

    # 2a-oauth. OAUTHBEARER refused the RFC 7628 way (an error challenge, then NO once the client has answered it, or has given up):
    #        whatever the client makes of the challenge, the exchange did not end with OK: not authenticated, no script command
    for mech in (None, "OAUTHBEARER"):
        for tls in (False, True):
            srv = refserver.RefServer(r, starttls=True, sasl=b"OAUTHBEARER", post_tls_sasl=b"OAUTHBEARER", users={b"user": b"the-right-token"})
            srv.oauth_challenge = True
            s = msref.Session()
            out = s.connect(b"", [], "user", "a-wrong-token", starttls=tls, mech=mech, server=srv)
            evals += 1
            nontriv += 1
            probs = []
            if "res=b1" in out or "auth=b1" in out:
                probs.append("the token was refused (error challenge, then NO) but connect returned %s, authenticated flag %s" % (out.split(" ")[0], "auth=b1" in out))
            nw = len(s.wire.writes)
            out2 = s.op("listscripts")
            if any(v in refserver.RefServer.SCRIPT_VERBS for _, v, _ in verbs_written(s.wire.writes[nw:])):
                probs.append("a script command was written after the refused OAUTHBEARER exchange: %r" % [b[:30] for t, b in s.wire.writes[nw:]])
            for p_ in probs:
                viol.append({"history": "connect(authmech=%r, starttls=%s), OAUTHBEARER token refused with an error challenge" % (mech, tls), "what": p_})

    # 2a''. `starttls` given as something true that is not `True` (1, "yes", a non-empty list — the parameter is documented as a
    #       boolean, and callers pass what their configuration parser gives them): a secured connection was asked for
    for val in (1, "yes", 2, [0], 1.0):
        srv = refserver.RefServer(r, starttls=True, sasl=b"PLAIN", post_tls_sasl=b"PLAIN")
        s = msref.Session()
        g = srv.greeting()
        out = s.connect(b"", [], "user", "pw", starttls=val, server=srv)
        record(["c op=new", msref.req_connect(g, [], "user", "pw", starttls=True, later=list(s.wire.segments))], ["ok", out])
        evals += 1
        nontriv += 1
        probs = check_writes(s.wire.writes, True, srv.authed)
        if "res=b1" not in out:
            probs.append("connect(starttls=%r) should succeed: %s" % (val, out[:80]))
        for p_ in probs:
            viol.append({"history": "connect(starttls=%r) against a server offering STARTTLS" % (val,), "what": p_,
                         "writes": [("tls" if t else "plain", b[:40].decode("latin-1")) for t, b in s.wire.writes]})

    # 2a'. the handshake succeeds but the server does not follow it with a usable capability listing (NO, a listing that ends in
    #      NO, BYE): nothing announced on the secured channel — nothing may be taken over from before the handshake, so no
    #      AUTHENTICATE at all
    for reply in (b'NO "capabilities unavailable"\r\n', b"NO\r\n", b'+NO "try later"\r\n', b'BYE "closing"\r\n', b"NO (TRYLATER) {5}\r\nlater\r\n"):
        for mech in (None, "PLAIN", "LOGIN"):
            srv = refserver.RefServer(r, starttls=True, sasl=b"PLAIN LOGIN")
            srv.post_tls_reply = reply
            s = msref.Session()
            g = srv.greeting()
            out = s.connect(b"", [], "user", "pw", starttls=True, mech=mech, server=srv)
            record(["c op=new", msref.req_connect(g, [], "user", "pw", starttls=True, mech=mech, later=list(s.wire.segments))], ["ok", out])
            evals += 1
            nontriv += 1
            probs = check_writes(s.wire.writes, True, srv.authed)
            if any(v == "AUTHENTICATE" for _, v, _ in verbs_written(s.wire.writes)):
                probs.append("credentials sent although the server announced no mechanism after the handshake (its listing was answered %r)" % reply[:30])
            if "res=b1" in out or "auth=b1" in out:
                probs.append("connect succeeded / client marked authenticated although no mechanism was announced after the handshake")
            for p_ in probs:
                viol.append({"history": "starttls, post-handshake listing answered %r, authmech=%r" % (reply, mech), "what": p_,
                             "writes": [("tls" if t else "plain", b[:40].decode("latin-1")) for t, b in s.wire.writes]})

    # 2b. the same Client object used for a second connection: nothing of the first one (TLS state, capabilities, authentication)
    #     may carry over — the second connection has its own STARTTLS → handshake → AUTHENTICATE sequence
    for between in ("nothing", "logout", "op", "failed-op", "stale-bytes"):
        for first_tls in (True, False):
            for second_tls in (True, False):
                s = msref.Session()
                reqs, outs = ["c op=new"], ["ok"]
                srv1 = refserver.RefServer(r, starttls=True, sasl=b"PLAIN", post_tls_sasl=b"PLAIN LOGIN")
                g = srv1.greeting()
                outs.append(s.connect(b"", [], "user", "pw", starttls=first_tls, server=srv1))
                reqs.append(msref.req_connect(g, [], "user", "pw", starttls=first_tls, later=list(s.wire.segments)))
                if between == "stale-bytes":
                    # the first connection ends with bytes received but not consumed (the start of a reply that never completed,
                    # an unsolicited line): they belong to that connection and must not be read on the next one
                    s.wire.server = None
                    stale = b'OK\r\n"IMPLEMENTATION" "old"\r\n"SASL" "GSSAPI"\r\nOK\r\n"half a li'
                    o = s.op("listscripts", stream=stale, sched=[])
                    reqs.append(msref.req_op("listscripts", stream=stale, sched=[]))
                    outs.append(o)
                elif between != "nothing":
                    nseg = len(s.wire.segments)
                    if between == "failed-op":
                        srv1.faults = {"LISTSCRIPTS": "BYE"}
                    o = s.op("logout") if between == "logout" else s.op("listscripts")
                    reqs.append(msref.req_op("logout" if between == "logout" else "listscripts", later=list(s.wire.segments[nseg:])))
                    outs.append(o)
                # the second server announces LESS than the first (no VERSION): what the first one announced is void
                srv2 = refserver.RefServer(r, starttls=True, sasl=b"PLAIN", post_tls_sasl=b"LOGIN", version=False, scripts={b"a": b"keep;\r\n"})
                g = srv2.greeting()
                out = s.connect(b"", [], "user", "pw", starttls=second_tls, server=srv2)
                reqs.append(msref.req_connect(g, [], "user", "pw", starttls=second_tls, later=list(s.wire.segments)))
                outs.append(out)
                nseg = len(s.wire.segments)
                out_r = s.op("renamescript", "a", "b")
                reqs.append(msref.req_op("renamescript", "a", "b", later=list(s.wire.segments[nseg:])))
                outs.append(out_r)
                if srv2.log or b"b" not in srv2.scripts or b"a" in srv2.scripts:
                    viol.append({"history": "connect → %s → connect to a server WITHOUT the VERSION capability → renamescript" % between,
                                 "what": "the rename on the second connection did not go the way that server supports (capabilities of the first connection "
                                         "still in use?): server log %r, scripts %r, result %s" % (srv2.log, sorted(srv2.scripts), out_r[:40])})
                record(reqs, outs)
                evals += 1
                nontriv += 1
                hist = "connect(starttls=%s) → %s → connect(starttls=%s) on one Client" % (first_tls, between, second_tls)
                for p_ in check_writes(s.wire.writes, second_tls, srv2.authed):
                    viol.append({"history": hist, "what": "second connection: " + p_})
                vs = [v for _, v, _ in verbs_written(s.wire.writes)]
                if second_tls and ("STARTTLS" not in vs or "AUTHENTICATE" not in vs or vs.index("STARTTLS") > vs.index("AUTHENTICATE")):
                    viol.append({"history": hist, "what": "second connection did not negotiate TLS before authenticating: verbs %r" % vs})
                if "res=b1" not in out:
                    viol.append({"history": hist, "what": "second connect should succeed: %s" % out[:80]})
                if second_tls and getattr(srv2, "auth_attempt", (None,))[0] != "LOGIN":
                    viol.append({"history": hist, "what": "second connection: mechanism not taken from its own post-TLS capabilities: %r" % (getattr(srv2, "auth_attempt", None),)})

    # 2b'. … and when the SECOND connection's credentials are refused, the object is an unauthenticated client again, however
    #      the first connection ended (quietly, with a logout, with a command that raised, with a refused command): every script
    #      command raises Error and writes nothing
    for between in ("nothing", "logout", "op", "raising-op", "refused-op", "local-refusal"):
        for tls in (False, True):
            s = msref.Session()
            srv1 = refserver.RefServer(r, starttls=True, sasl=b"PLAIN", post_tls_sasl=b"PLAIN", version=(between != "local-refusal"))
            o1 = s.connect(b"", [], "user", "pw", starttls=tls, server=srv1)
            if between == "logout":
                s.op("logout")
            elif between == "op":
                s.op("listscripts")
            elif between == "raising-op":
                srv1.faults = {"LISTSCRIPTS": "BYE"}
                s.op("listscripts")
            elif between == "refused-op":
                s.op("deletescript", "no-such-script")
            elif between == "local-refusal":
                s.op("checkscript", "keep;")        # a server without VERSION: refused by the client itself
            srv2 = refserver.RefServer(r, starttls=True, sasl=b"PLAIN", post_tls_sasl=b"PLAIN", users={b"user": b"changed"})
            o2 = s.connect(b"", [], "user", "pw", starttls=tls, server=srv2)
            nw = len(s.wire.writes)
            evals += 1
            nontriv += 1
            hist = "connect (accepted) → %s → connect again, credentials refused (starttls=%s) → script commands" % (between, tls)
            if "res=b1" in o2 or "auth=b1" in o2:
                viol.append({"history": hist, "what": "the second connect reports success / an authenticated client although the credentials were refused: %s" % o2[:80]})
            for op, args in SCRIPT_OPS:
                o = s.op(op, *args)
                if "res=error" not in o or len(s.wire.writes) != nw:
                    viol.append({"history": hist, "op": op, "what": "%s on the refused connection: expected Error and no write, got %s, %d new write(s) %r" % (
                        op, o.split(" ")[0], len(s.wire.writes) - nw, [b[:30] for _, b in s.wire.writes[nw:]])})
                    break
            if any("before authentication" in l for l in srv2.log):
                viol.append({"history": hist, "what": "server saw a script command before authentication: %r" % srv2.log})

    # 2c. a reply that is merely slow (one read times out, the data arrives afterwards): whatever the client makes of the
    #     time-out, a late reply must never be taken for the answer to a later command — in particular not for the answer to
    #     AUTHENTICATE.  Judged on the real code against the reference server (the Lean client model has no clock).
    for starttls in (True, False):
        for late in ((0,), (1,), (2,), (0, 1), (1, 2)):
            for pw_ok in (True, False):
                for post in (None, b"LOGIN"):
                    srv = refserver.RefServer(r, starttls=True, sasl=b"PLAIN", post_tls_sasl=post, users={b"user": b"pw" if pw_ok else b"other"})
                    s = msref.Session()
                    out = s.connect(b"", [], "user", "pw", starttls=starttls, server=srv, late=late)
                    hist = "connect(starttls=%s), server segments %r slow, password %s, post-TLS SASL %r" % (starttls, late, "right" if pw_ok else "wrong", post)
                    outs = [out]
                    for op, args in SCRIPT_OPS + [("capability", ())] + SCRIPT_OPS[:2]:
                        outs.append(s.op(op, *args))
                    evals += 1
                    nontriv += 1
                    probs = check_writes(s.wire.writes, starttls, srv.authed)
                    if any("auth=b1" in o for o in outs) and not srv.authed:
                        probs.append("Client.authenticated is set although the server never accepted the credentials")
                    if "res=b1" in out and not srv.authed:
                        probs.append("connect returned True although the server never accepted the credentials")
                    if any("before authentication" in l for l in srv.log):
                        probs.append("server saw a script command before authentication: %r" % srv.log)
                    for p_ in probs:
                        viol.append({"history": hist, "what": p_})

    # 3. plaintext injected behind the STARTTLS reply must not be taken as post-TLS capabilities
    G = b'"IMPLEMENTATION" "x"\r\n"SASL" "PLAIN"\r\n"STARTTLS"\r\nOK\r\n'
    inj = b'OK "Begin TLS"\r\n"SASL" "LOGIN"\r\nOK "injected"\r\n'
    post = b'"SASL" "PLAIN"\r\nOK "TLS done"\r\n' + b'OK "Logged in."\r\n'
    s = msref.Session()

    class Inj:  # minimal scripted server: greeting, then the STARTTLS reply with trailing plaintext, then the real post-TLS block
        def __init__(self):
            self.n = 0

        def greeting(self):
            return G

        def receive(self, b):
            self.n += 1
            return inj if self.n == 1 else b""

        def tls_started(self):
            return post
    srv = Inj()
    out = s.connect(b"", [], "user", "pw", starttls=True, server=srv)
    record(["c op=new", msref.req_connect(G, [], "user", "pw", starttls=True, later=list(s.wire.segments))], ["ok", out])
    evals += 1
    auths = [b for t, b in s.wire.writes if b.startswith(b"AUTHENTICATE")]
    if auths and b'"LOGIN"' in auths[0]:
        viol.append({"history": "plaintext injection behind STARTTLS OK", "what": "mechanism chosen from capabilities received BEFORE the handshake: %r" % auths[0][:40]})
    for p_ in check_writes(s.wire.writes, True, False):
        viol.append({"history": "the OK to STARTTLS arrives together with further clear-text bytes", "what": p_,
                     "writes": [("tls" if t else "plain", b[:40].decode("latin-1")) for t, b in s.wire.writes]})
    # the same with other kinds of trailing clear text, and a server that would even accept the credentials
    for trailing in (b'OK "injected"\r\n', b"\r\n", b'"SASL" "PLAIN"\r\nOK\r\n', b"x"):
        class Inj2(Inj):
            def receive(self, b):
                self.n += 1
                return (b'OK "Begin TLS"\r\n' + trailing) if self.n == 1 else b'OK "Logged in."\r\n'
        s2 = msref.Session()
        srv2_ = Inj2()
        out2_ = s2.connect(b"", [], "user", "pw", starttls=True, server=srv2_)
        evals += 1
        for p_ in check_writes(s2.wire.writes, True, False):
            viol.append({"history": "the OK to STARTTLS arrives together with the clear-text bytes %r" % trailing, "what": p_,
                         "writes": [("tls" if t else "plain", b[:40].decode("latin-1")) for t, b in s2.wire.writes]})

    # 3b. a server that turns the client away in its greeting — BYE, bare, with a text, or with a response code naming another
    #     server (RFC 5804 section 1.3, REFERRAL) — and that would answer normally if the client came back (on its own or by
    #     following the referral): whatever the client then does, the requested STARTTLS → handshake → AUTHENTICATE order holds
    class TurnsAway(refserver.RefServer):
        first = None

        def greeting(self):
            if self.first is not None:
                g, self.first = self.first, None
                return g
            return refserver.RefServer.greeting(self)
    BYES = [b'BYE\r\n', b'BYE "try later"\r\n', b'BYE (REFERRAL "sieve://other.example.org") "go there"\r\n',
            b'BYE (REFERRAL "sieve://other.example.org:4190")\r\n', b'BYE (REFERRAL "sieve://user@10.0.0.2:2000") {5}\r\nmoved\r\n',
            b'bye (referral "SIEVE://other.example.org")\r\n', b'BYE (REFERRAL "sieve://[::1]:4190") "v6"\r\n',
            b'"IMPLEMENTATION" "x"\r\n"SASL" "PLAIN"\r\n"STARTTLS"\r\nBYE (REFERRAL "sieve://other.example.org") "after the capabilities"\r\n']
    for bye in BYES:
        for want_tls in (True, False):
            for mech in (None, "PLAIN"):
                srv = TurnsAway(r, starttls=True, sasl=b"PLAIN", post_tls_sasl=b"PLAIN")
                srv.first = bye
                s = msref.Session()
                out = s.connect(b"", [], "user", "pw", starttls=want_tls, mech=mech, server=srv)
                record(["c op=new", msref.req_connect(bye, [], "user", "pw", starttls=want_tls, mech=mech, later=list(s.wire.segments))], ["ok", out])
                evals += 1
                nontriv += 1
                probs = check_writes(s.wire.writes, want_tls, srv.authed)
                if "res=b1" in out and not srv.authed:
                    probs.append("connect returned True but no AUTHENTICATE exchange ended with OK")
                if "auth=b1" in out and not srv.authed:
                    probs.append("the client is marked authenticated but no AUTHENTICATE exchange ended with OK")
                for p_ in probs:
                    viol.append({"history": "greeting %r, then a normal server; connect(starttls=%s, authmech=%r)" % (bye.decode("latin-1"), want_tls, mech),
                                 "what": p_, "writes": [("tls" if t else "plain", b[:40].decode("latin-1")) for t, b in s.wire.writes]})

    # 3c. the final OK of the greeting (or of the listing after the handshake) carries its text as a LITERAL — `{n}` or the
    #     non-synchronizing `{n+}` — and the text itself looks like a status line; the server then REFUSES the credentials.
    #     Whatever the client makes of the literal, a left-over "OK ..." line must never be taken for the answer to AUTHENTICATE
    class LitGreeting(refserver.RefServer):
        lit_text, lit_form, where = b"", b"{%d}", "greeting"

        def _ok(self):
            return b"OK " + (self.lit_form % len(self.lit_text)) + b"\r\n" + self.lit_text + b"\r\n"

        def greeting(self):
            return self.caps() + (self._ok() if self.where == "greeting" else b'OK "ready"\r\n')

        def tls_started(self):
            self.tls = True
            return self.caps() + (self._ok() if self.where == "tls" else b'OK "TLS negotiation successful."\r\n')
    for text in (b"OK, TLS is optional here", b'OK "Logged in."', b"OK", b"ok (SASL \"x\") done", b"NO then\r\nOK now", b"BYE"):
        for form in (b"{%d}", b"{%d+}"):
            for where in ("greeting", "tls"):
                for pw_ok in (False, True):
                    srv = LitGreeting(r, starttls=True, sasl=b"PLAIN", post_tls_sasl=b"PLAIN", users={b"user": b"pw" if pw_ok else b"other"})
                    srv.lit_text, srv.lit_form, srv.where = text, form, where
                    s = msref.Session()
                    want_tls = where == "tls"
                    out = s.connect(b"", [], "user", "pw", starttls=want_tls, server=srv)
                    evals += 1
                    nontriv += 1
                    o2 = s.op("listscripts") if "res=b1" in out else ""
                    probs = check_writes(s.wire.writes, want_tls, srv.authed)
                    if ("res=b1" in out or "auth=b1" in out) and not srv.authed:
                        probs.append("connect returned True / the client is marked authenticated, but the server answered AUTHENTICATE with NO")
                    for p_ in probs:
                        viol.append({"history": "%s ends with OK %s + %r, credentials %s; connect(starttls=%s) then listscripts" % (
                            where, (form % len(text)).decode(), text, "right" if pw_ok else "wrong", want_tls), "what": p_,
                            "writes": [("tls" if t else "plain", b[:40].decode("latin-1")) for t, b in s.wire.writes]})

    # 4. random sessions: the ordering oracle on every write log
    for i in range(60 if ctx.tier == "quick" else 600):
        steps, srv, s = corr_client.run_session(r, r.randint(1, 8), {"version": r.random() < 0.5}, allow_faults=True)
        record([st.req for st in steps], [st.impl for st in steps])
        evals += len(steps)
        nontriv += 1
        for p in check_writes(s.wire.writes, False, srv.authed):
            viol.append({"history": "session %d" % i, "what": p})
        if any("before authentication" in l for l in srv.log):
            viol.append({"history": "session %d" % i, "what": "server log: %r" % srv.log})
    model = run_driver(lines, live_table=False)
    diffs = [{"suite": "client", "request": l[:300], "impl": e[:300], "model": m[:300]} for l, e, m in zip(lines, expect, model) if e != m]
    fresh, known = split_known("C10", viol, lambda f, v: False)
    return {"evaluations": evals, "distinct_nontrivial": nontriv, "rule": RULE, "samples": samples,
            "suites": {"client": {"model_requests": len(lines)}}, "diffs": diffs, "violations": fresh, "known": known}


def replay(ctx, payload):
    print(json.dumps(payload.get("violation"), indent=1)[:2000])
    return 1
