"""C03 — accepted scripts are represented faithfully."""
from prop_common import *
import pyref, corr_parse, oracle_generic
from sievelib.parser import Parser
from sievelib import commands

RULE = ("every ACCEPTED input of the parse suite (exhaustive token sequences, generated scripts with every command / tag subset and order / "
        "list, string and multi-line forms / nesting, single-token edits, byte mutations): the result tree projected to (name, arguments in "
        "order, tests, block) must equal the tree built from the source by an independent RFC 5228 §8.2 generic-grammar parser with its "
        "own tokenizer — also through a Parser object that has just rejected a damaged version of the same script; inputs using one optional tag slot twice are skipped; non-trivial = accepted with ≥ 2 nodes")


def slot_of(table, cmd, tag):
    d = table.get(cmd)
    if not d:
        return None
    for a in d["args"]:
        vals = (a["values"] or []) + [k for k, _ in a["extValues"]]
        if not a["required"] and tag.lower() in vals:
            return a["name"]
    return None


def repeats_slot(tree, table):
    def args_rep(name, args):
        seen = set()
        for k, v in args:
            if k == "tag":
                s = slot_of(table, name.decode(), v.decode())
                if s is not None:
                    if s in seen:
                        return True
                    seen.add(s)
            elif k == "test":
                if args_rep(v[0], v[1]):
                    return True
            elif k == "tests":
                if any(args_rep(x[0], x[1]) for x in v):
                    return True
        return False
    for name, args, block in tree:
        if args_rep(name, args):
            return True
        if block and repeats_slot(block, table):
            return True
    return False


def check(text, table, parser=None):
    p = parser or Parser()
    if p.parse(text) is not True:
        return None
    got = oracle_generic.project_result(p.result, commands)
    try:
        want = oracle_generic.parse(text)
    except oracle_generic.GenericError as e:
        return "accepted although the generic grammar does not derive it (%s)" % e
    if repeats_slot(want, table):
        return None
    return oracle_generic.first_difference(want, got)


def first_diff(a, b):
    if a is None or b is None:
        return None
    try:
        return oracle_generic.first_difference(a, b)
    except Exception:  # noqa
        return "trees differ"


def leaves(x):
    """every byte-string leaf of a projected tree, with multiplicity"""
    if isinstance(x, (bytes, bytearray)):
        return [bytes(x)]
    if isinstance(x, str):
        return [x.encode("utf-8")]
    if isinstance(x, dict):
        return [l for k in sorted(x, key=repr) for l in leaves(x[k])]
    if isinstance(x, (list, tuple)):
        return [l for y in x for l in leaves(y)]
    return []


def matcher(f, v):
    m = f.get("match", {})
    if m.get("kind") == "tag-after-optional-positional":
        t = bytes.fromhex(v["input_hex"])
        if not tag_after_optional_positional(t, m["commands"]):
            return False
        # KF-C03-1 is a matter of ORDER (the re-assigned value is recorded after the tag): everything written is still in the result.
        # A value that is missing or changed is another defect, whatever the shape of the script
        try:
            p = Parser()
            if p.parse(t) is not True:
                return True
            return sorted(leaves(oracle_generic.parse(t))) == sorted(leaves(oracle_generic.project_result(p.result, commands)))
        except Exception:  # noqa
            return True
    return False


def run(ctx):
    rec, info = parser_records(ctx)
    table = {d["name"]: d for d in table_of(ctx)}
    viol = []
    nacc = 0
    for t, a in zip(rec.text, rec.impl):
        if not a.startswith("accept"):
            continue
        nacc += 1
        bad = check(t, table)
        if bad:
            viol.append({"input_hex": t.hex(), "input": t.decode("latin-1"), "what": "result tree differs from the script as written: " + bad})
    # directed: commands with an optional positional argument in front of a required one (the imap4flags variable name), a tag that
    # takes a parameter written BETWEEN the two, alone and under not / anyof (accepted — see KF-C01-2 — so it must be represented)
    REQ = b'require ["imap4flags", "relational"]; '
    for hf in (b'hasflag "MyVar" :comparator "i;octet" "\\\\Seen"', b'hasflag "MyVar" :count "ge" "2"', b'hasflag ["V1","V2"] :is ["a","b"]',
               b'hasflag "MyVar" :comparator "i;ascii-casemap" :contains ["x", "y"]', b'hasflag :is "OnlyOne"', b'hasflag "V" "F"'):
        for shape in (b"if %s { keep; }", b"if not %s { keep; }", b"if anyof (true, %s) { stop; }", b"if allof (%s, %s) { discard; }"):
            t = REQ + (shape % ((hf,) * shape.count(b"%s")))
            bad = check(t, table)
            nacc += 1
            if bad:
                viol.append({"input_hex": t.hex(), "input": t.decode("latin-1"), "what": "result tree differs from the script as written: " + bad})
    # the same oracle through a Parser object that has just REJECTED a damaged version of the script (an author fixing a
    # script and parsing again): cut inside lists, test lists, blocks and strings, or one token removed
    r = rng("c03-reuse")
    gen_ok = [t for t, m, a in zip(rec.text, rec.meta, rec.impl) if m.get("valid") and a.startswith("accept")]
    nreuse = 0
    for t in r.sample(gen_ok, min(len(gen_ok), 150 if ctx.tier == "quick" else 1500)):
        toks = [v for _, v in oracle_generic.tokenize(t)]
        cuts = set(r.sample(range(1, len(toks)), min(4, max(0, len(toks) - 1)))) if len(toks) > 1 else set()
        cuts |= {i + 1 for i, x in enumerate(toks) if x in (b"[", b"(", b",")}
        for k in sorted(cuts)[:12]:
            for damaged in (b" ".join(toks[:k]), b" ".join(toks[:k] + [b";"]), b" ".join(toks[:k] + toks[k + 1:])):
                p = Parser()
                if p.parse(damaged) is True:
                    continue
                nreuse += 1
                bad = check(t, table, parser=p)
                if bad:
                    viol.append({"input_hex": t.hex(), "input": t.decode("latin-1"), "history_hex": [damaged.hex()],
                                 "what": "after a rejected parse of %r on the same Parser, the result tree differs from the script as written: %s" % (damaged.decode("latin-1")[-50:], bad)})
    # a script with NOTHING in it (empty, white space, comments only) through a Parser object that has parsed something else
    # before — accepted, or refused after a finished command: its tree is empty, nothing of the earlier script is in it
    for first in r.sample(gen_ok, min(len(gen_ok), 40)) + [b"keep; stop;", b'keep; stop "x";', b"if true { keep; } foo;"]:
        for blank in (b"", b"   ", b"\r\n\t \n", b"# nothing here\n", b"/* nothing */ "):
            p = Parser()
            p.parse(first)
            nreuse += 1
            try:
                ok = p.parse(blank)
                n_after = len(p.result) if ok is True else None
            except Exception as e:  # noqa
                ok, n_after = "raised " + type(e).__name__, None
            if ok is not True or n_after != 0:
                viol.append({"input_hex": blank.hex(), "input": blank.decode("latin-1"), "history_hex": [first.hex()],
                             "what": "a script with nothing in it, parsed by a Parser that had parsed %r before, gives %r with %r top-level command(s); a fresh Parser gives True with none"
                             % (first.decode("latin-1")[:60], ok, n_after)})
    # the same scripts given as files: parse_file must build the tree parse builds from the file's bytes (CR, CRLF and all)
    import tempfile
    nfile = 0
    with_cr = [t for t, a in zip(rec.text, rec.impl) if a.startswith("accept") and b"\r" in t]
    sample = r.sample(with_cr, min(len(with_cr), 120)) + r.sample(gen_ok, min(len(gen_ok), 60)) + [
        b'keep "a\r\nb";', b'require "reject"; reject text:\r\nline one\r\nline two\r\n.\r\n;', b'keep "cr\ronly";', b'if header "a" ["x\r\n", "y"] { stop; }\r\n']
    path = os.path.join(WORK, "c03_%d.sieve" % os.getpid())
    for t in sample:
        with open(path, "wb") as fh:
            fh.write(t)
        p1, p2 = Parser(), Parser()
        ok1 = p1.parse(t)
        try:
            ok2 = p2.parse_file(path)
        except Exception as e:  # noqa
            ok2 = "raised %s" % type(e).__name__
        nfile += 1
        t1 = oracle_generic.project_result(p1.result, commands) if ok1 is True else None
        t2 = oracle_generic.project_result(p2.result, commands) if ok2 is True else None
        if ok1 != ok2 or t1 != t2:
            viol.append({"input_hex": t.hex(), "input": t.decode("latin-1"), "what": "parse_file of a file holding these bytes differs from parse of the bytes: %r vs %r" % (
                (ok2, first_diff(t1, t2)), ok1)})
    try:
        os.unlink(path)
    except OSError:
        pass
    # a second Parser at work while the first is in the middle of a script (a registered command whose completion hook parses
    # another script, as an include-like extension would): the outer tree must still be the outer script
    nested = 0

    class IncludeverifCommand(commands.ActionCommand):
        args_definition = [{"name": "script", "type": ["string"], "required": True}]
        helper = b""

        def complete_cb(self):
            Parser().parse(IncludeverifCommand.helper)
    commands.add_commands(IncludeverifCommand)
    outers = [b'includeverif "h";\ndiscard;\nkeep;\n', b'if true { includeverif "h"; stop; }\nkeep;', b'includeverif "h"; includeverif "h"; redirect "a@b.c";']
    for outer in outers:
        IncludeverifCommand.helper = b""
        p0 = Parser()
        ok0 = p0.parse(outer)
        base = oracle_generic.project_result(p0.result, commands) if ok0 else None
        for n in list(range(0, 70, 3)) + [200, 5000]:
            IncludeverifCommand.helper = (b"keep; " * (n // 6 + 1))[:n] if n % 2 == 0 else b'if header "a" "' + b"x" * n + b'" { keep; }'
            pn = Parser()
            okn = pn.parse(outer)
            nested += 1
            got = oracle_generic.project_result(pn.result, commands) if okn else None
            if okn != ok0 or got != base:
                viol.append({"input_hex": outer.hex(), "input": outer.decode("latin-1"), "nested_hex": IncludeverifCommand.helper.hex()[:200],
                             "what": "another Parser parsing a %d-byte script in the middle of this one changed the result: %r vs %r" % (
                                 len(IncludeverifCommand.helper), (okn, got), (ok0, base))})
                break
    IncludeverifCommand.helper = b""
    import aliasing
    held_src = r.sample(gen_ok, min(len(gen_ok), 60 if ctx.tier == "quick" else 600))
    others = [b'require "fileinto"; fileinto ["a"];', b'keep; stop "x";', b'require "imap4flags"; addflag ["\\\\Seen", "x"]; keep;', b"if true { foo", b'redirect "a@b.c";']
    for v in aliasing.held_results(held_src, others):
        if v["kind"] != "printed text":
            viol.append(v)
    fresh, known = split_known("C03", viol, matcher)
    res = std_result(rec, info, fresh, known, RULE, {"accepted_checked": nacc, "reused_parser_checked": nreuse, "nested_parse_checked": nested, "parse_file_checked": nfile})
    res["evaluations"] += nreuse
    res["distinct_nontrivial"] = sum(1 for a in set(rec.impl) if a.startswith("accept") and a.count("(") >= 2)
    return res


def replay(ctx, payload):
    table = {d["name"]: d for d in (framework.generated().get("table", []))}

    def oracle(t, impl, y, m):
        return check(t, table)
    return replay_parse(ctx, payload, oracle)


def still_fails(ctx, t):
    table = {d["name"]: d for d in table_of(ctx)}
    bad = check(t, table)
    if not bad:
        return False
    v = {"input_hex": t.hex(), "what": bad}
    return not any(matcher(f, v) for f in findings_for("C03") if f.get("status") == "known")
