"""C15 — the client's view of the server stays correct over whole sessions."""
from prop_common import *
import msref, refserver, corr_client

RULE = ("operation sequences (≤ 12 quick / ≤ 40 thorough) against the executable reference server, which chooses reply encodings (quoted / "
        "literal text), response codes, state-permitted NO outcomes (quota, nonexistent, active, already exists) and injected faults; recv "
        "segmentation is random per step; after every step the client's result is compared with the server's actual state and status, the "
        "read buffer must be empty and the server's protocol log clean; every step is replayed on the Lean model; non-trivial = step ≥ 2")


def norm(body):
    lines = body.splitlines()
    while lines and lines[-1] == b"":
        lines.pop()
    return lines


def field(out, k):
    for f in out.split(" "):
        if f.startswith(k + "="):
            return f[len(k) + 1:]
    return None


def dec(h):
    return b"" if h in (None, "e") else bytes.fromhex(h)


def judge(st):
    """one step against server truth; returns list of problems"""
    probs = []
    out = st.impl
    res = field(out, "res")
    if res in ("error", "hang") or res.startswith("crash"):
        if st.faults and any(v in ("BYE", "SILENT") for v in st.faults.values()):
            return probs
        if "res=crash NotImplementedError" in out and st.name == "checkscript":  # documented refusal without VERSION capability
            return probs
        probs.append("operation raised (%s) although the server answered normally" % out[:60])
        return probs
    status = st.last[0] if st.last else None
    after, before = st.server, st.before
    a = [x.encode("utf-8") if isinstance(x, str) else x for x in st.args]
    if st.name == "listscripts":
        if status == b"OK":
            names = list(after["scripts"])
            want = "ls:%s:%s" % ("-" if after["active"] is None else msref.hexor(after["active"]), ",".join(msref.hexor(n) for n in names if n != after["active"]))
            if res != want:
                probs.append("listing differs from the server's state: client %s, server %s" % (res, want))
    elif st.name == "getscript":
        if a[0] in after["scripts"] and status == b"OK":
            got = dec(res[2:]) if res.startswith("s:") else None
            if got is None or norm(got) != norm(after["scripts"][a[0]]):
                probs.append("script content differs: client %r, server %r" % (got, after["scripts"][a[0]]))
        elif status == b"NO" and res != "none":
            probs.append("server said NO, client returned %s" % res)
    elif st.name in ("putscript", "deletescript", "setactive", "havespace", "renamescript", "checkscript"):
        native = st.name != "renamescript" or before.get("version", True)
        if native:
            if status == b"OK" and res != "b1":
                probs.append("server said OK, client returned %s" % res)
            if status == b"NO" and res != "b0":
                probs.append("server said NO, client returned %s" % res)
        if not native and not st.faults:
            feasible = (a[0] in before["scripts"] and a[1] not in before["scripts"] and b"SYNTAXERROR" not in before["scripts"].get(a[0], b"")
                        and a[1] != b"" and not any(c < 0x20 for c in a[1]))
            if feasible and res != "b1":
                probs.append("emulated rename of an existing script onto a free name returned %s" % res)
            if not feasible and res == "b1":
                probs.append("emulated rename returned True although it is not possible in this state")
            if res == "b1" and (a[0] in after["scripts"] or a[1] not in after["scripts"] or (after["active"] == a[1]) != (before["active"] == a[0])):
                probs.append("emulated rename returned True but the server's state does not reflect it: %r active=%r" % (list(after["scripts"]), after["active"]))
            if res != "b1" and feasible and a[0] in after["scripts"] and a[1] in after["scripts"]:
                probs.append("emulated rename failed and left both names on the server")
        if st.name == "putscript" and res == "b1" and after["scripts"].get(a[0]) != a[1]:
            probs.append("putscript returned True but the server does not hold that content")
        if st.name == "deletescript" and res == "b1" and a[0] in after["scripts"]:
            probs.append("deletescript returned True but the script still exists")
        if st.name == "setactive" and res == "b1" and after["active"] != (a[0] or None):
            probs.append("setactive returned True but the server's active script is %r" % after["active"])
    # a refused call reports the code and text of ITS OWN reply (the answer to that call's command, not to an earlier one)
    if status == b"NO" and res in ("b0", "none") and not st.faults and st.last and len(st.last) == 3 and \
            (st.name != "renamescript" or before.get("version", True)):
        want_code = (st.last[1] or b"").split()[0] if (st.last[1] or b"") else b""
        want_text = st.last[2] or b""
        if dec(field(out, "errcode")) != want_code or dec(field(out, "errmsg")) != want_text:
            probs.append("the refusal carries code %r text %r, the client reports errcode %r errmsg %r" % (
                want_code, want_text[:40], dec(field(out, "errcode")), dec(field(out, "errmsg"))[:40]))
    if field(out, "left") not in (None, "e"):
        probs.append("bytes left unread after the operation: %s" % field(out, "left")[:60])
    new_log = after["log"][len(before["log"]):]
    if new_log:
        probs.append("server protocol log: %r" % new_log)
    return probs


def run(ctx):
    r = rng("c15")
    nsess = 150 if ctx.tier == "quick" else 1500
    maxops = 12 if ctx.tier == "quick" else 40
    viol, sessions = [], []
    evals = nontriv = 0
    samples = []
    for i in range(nsess):
        version = r.random() < 0.6
        # every other server sends the names in its listing as literals (a server is free to; Dovecot does for non-ASCII ones)
        steps, srv, s = corr_client.run_session(r, r.randint(2, maxops), {"version": version, "literal_names": "safe" if i % 2 else False},
                                                allow_faults=(i % 3 == 0))
        sessions.append(steps)
        for k, st in enumerate(steps[2:], start=2):
            st.before["version"] = version
            evals += 1
            nontriv += 1 if k >= 3 else 0
            for p in judge(st):
                viol.append({"session": i, "step": k, "op": st.name, "args": repr(st.args)[:160], "what": p, "result": st.impl[:160],
                             "history": ["%s%r" % (x.name, x.args) for x in steps[2:k]][:12]})
        if i < 2:
            samples.append(["%s%r -> %s" % (x.name, x.args, x.impl[:40]) for x in steps[1:6]])
    # directed sessions: rename of the ACTIVE script on a server without RENAMESCRIPT, then look at what the server holds
    import msref as _m, refserver as _rs
    for old, new, body in [("a", "b", b"keep;\r\n"), ("wörk", "new name", b"# x\r\nstop;\r\n"), ("a", "a2", b"")]:
        for make_active in (True, False):
            srv = _rs.RefServer(r, scripts={}, version=False)
            ses = _m.Session()
            ses.connect(b"", [], "user", "pw", server=srv)
            ses.op("putscript", old, body.decode())
            if make_active:
                ses.op("setactive", old)
            out = ses.op("renamescript", old, new)
            lst = ses.op("listscripts")
            evals += 2
            nontriv += 1
            o, n = old.encode("utf-8"), new.encode("utf-8")
            if "res=b1" not in out:
                viol.append({"op": "renamescript", "what": "emulated rename of an existing %s script onto a free name returned %s" % ("active" if make_active else "inactive", out[:60])})
            if o in srv.scripts or n not in srv.scripts or (srv.active == n) != make_active:
                viol.append({"op": "renamescript", "what": "after the emulated rename (active=%s) the server holds %r, active %r" % (make_active, sorted(srv.scripts), srv.active)})
            want = "ls:%s:%s" % (_m.hexor(n) if make_active else "-", "" if make_active else _m.hexor(n))
            if ("res=" + want) not in lst:
                viol.append({"op": "listscripts", "what": "listing after the rename differs from the server's state: %s, want %s" % (lst[:80], want)})
    # directed sessions: a call the CLIENT ITSELF refuses, nothing sent (CHECKSCRIPT on a server without VERSION, a script text
    # that cannot be encoded, a call with the wrong number of arguments) — the session goes on as before: the next calls are
    # answered by the server and the view stays correct
    for refusal in ("checkscript-no-version", "lone-surrogate", "bad-arguments"):
        for follow in ("listscripts", "getscript", "putscript"):
            srv = _rs.RefServer(r, scripts={b"a": b"keep;\r\n", b"b": b"stop;\r\n"}, active=b"a", version=(refusal != "checkscript-no-version"))
            ses = _m.Session()
            ses.connect(b"", [], "user", "pw", server=srv)
            nw = len(ses.wire.writes)
            if refusal == "checkscript-no-version":
                o0 = ses.op("checkscript", "keep;")
            elif refusal == "lone-surrogate":
                o0 = ses.op("putscript", "c", "keep; # \udc80")
            else:
                o0 = ses.call(lambda: ses.client.putscript("only-a-name"))
            wrote = len(ses.wire.writes) - nw
            evals += 2
            nontriv += 1
            if follow == "listscripts":
                o1 = ses.op("listscripts")
                ok = ("res=ls:%s:%s" % (_m.hexor(b"a"), _m.hexor(b"b"))) in o1
            elif follow == "getscript":
                o1 = ses.op("getscript", "b")
                ok = o1.split(" ")[0] in ("res=s:" + b"stop;\r\n".hex(), "res=s:" + b"stop;\n".hex(), "res=s:" + b"stop;".hex())
            else:
                o1 = ses.op("putscript", "d", "discard;")
                ok = "res=b1" in o1 and b"d" in srv.scripts
            if wrote == 0 and not ok:
                viol.append({"op": follow, "what": "after a call the client refused by itself (%s: %s, nothing sent), %s gives %s — the server would have answered normally" % (
                    refusal, o0.split(" ")[0], follow, o1[:80]), "history": [refusal]})
            if srv.log:
                viol.append({"op": follow, "what": "server protocol log %r" % srv.log, "history": [refusal]})
    # directed sessions: names the client must send as literals (a line break or NUL inside) that also hold multi-byte characters —
    # store, fetch, activate and delete under such a name, then a command that must still find the connection in step
    for nm in ("été\nhiver", "r\r\nésumé", "nul\0é€", "\n€", "plain\nascii"):
        srv = _rs.RefServer(r, scripts={b"keepme": b"stop;\r\n"}, version=True)
        ses = _m.Session()
        ses.connect(b"", [], "user", "pw", server=srv)
        body = "# été\r\nkeep;\r\n"
        o1 = ses.op("putscript", nm, body)
        o2 = ses.op("getscript", nm)
        o3 = ses.op("setactive", nm)
        o4 = ses.op("havespace", nm, 10)
        o5 = ses.op("setactive", "")
        o6 = ses.op("deletescript", nm)
        o7 = ses.op("getscript", "keepme")
        evals += 7
        nontriv += 1
        key = nm.encode("utf-8")
        probs = []
        # RFC 5804 forbids control characters in script names: a conforming server answers NO (the reference server does) — what is
        # judged is that each call got ITS OWN answer: the server saw seven well-formed commands carrying exactly that name, and the
        # connection is still in step afterwards
        seen = [(v, [a for t, a in args if t == "str"][:1]) for v, args, _, _ in srv.commands if v in ("PUTSCRIPT", "GETSCRIPT", "SETACTIVE", "HAVESPACE", "DELETESCRIPT")]
        want = [("PUTSCRIPT", [key]), ("GETSCRIPT", [key]), ("SETACTIVE", [key]), ("HAVESPACE", [key]), ("SETACTIVE", [b""]), ("DELETESCRIPT", [key]), ("GETSCRIPT", [b"keepme"])]
        if seen != want:
            probs.append("the server received %r, the caller asked for %r" % (seen[:8], want))
        if "res=s:" not in o7:
            probs.append("a later command is out of step: getscript('keepme') returned %s" % o7[:60])
        if srv.log:
            probs.append("server protocol log: %r" % (srv.log,))
        for p_ in probs:
            viol.append({"op": "session on the name %r" % nm, "what": p_})

    # directed sessions: the emulated rename on a server that is at its script-count quota (the copy is refused: nothing may change,
    # the call returns False) and one slot below it (the rename goes through and carries the active mark over)
    for make_active in (True, False):
        for room in (0, 1):
            srv = _rs.RefServer(r, scripts={b"old": b"keep;\r\n", b"other": b"stop;\r\n"}, active=(b"old" if make_active else b"other"), version=False)
            srv.max_scripts = 2 + room
            ses = _m.Session()
            ses.connect(b"", [], "user", "pw", server=srv)
            out = ses.op("renamescript", "old", "new")
            evals += 1
            nontriv += 1
            held, act = sorted(srv.scripts), srv.active
            if room == 0:
                if "res=b0" not in out or held != [b"old", b"other"] or act != (b"old" if make_active else b"other"):
                    viol.append({"op": "renamescript", "what": "server at its script-count quota (PUTSCRIPT refused with QUOTA/MAXSCRIPTS), %s script: call returned %s, "
                                 "server now holds %r, active %r — expected False and nothing changed" % ("active" if make_active else "inactive", out.split(" ")[0], held, act)})
            else:
                if "res=b1" not in out or held != [b"new", b"other"] or act != (b"new" if make_active else b"other"):
                    viol.append({"op": "renamescript", "what": "one free slot, %s script: call returned %s, server now holds %r, active %r" % (
                        "active" if make_active else "inactive", out.split(" ")[0], held, act)})

    # directed sessions: a server that lists names as literals; what the client reports must be what the server holds, and
    # every reported name must be usable as it stands
    for names in [["lists\\dev", "a"], ['q"uote', "back\\slash", "x"], ["c:\\dir\\f", "été", "sp ace"], ["tail\\", "{5}", "OK"],
                  ["not active", "was Active", "x ACTIVE", "main"], ["ACTIVE", "active ", "z"], ['"draft', 'it"s', "z"], ['"', 'a"', "y"]]:
        for version in (True, False):
            srv = _rs.RefServer(r, scripts={}, version=version, literal_names="safe")
            ses = _m.Session()
            ses.connect(b"", [], "user", "pw", server=srv)
            for nm in names:
                ses.op("putscript", nm, "keep;\r\n")
            ses.op("setactive", names[-1])
            lst = ses.op("listscripts")
            evals += 1 + len(names)
            nontriv += 1
            want = "res=ls:%s:%s" % (_m.hexor(names[-1]), ",".join(_m.hexor(x) for x in names[:-1]))
            if lst.split(" ")[0] != want:
                viol.append({"op": "listscripts", "what": "names listed as literals: client reports %s, server holds %s" % (lst.split(" ")[0][:120], want[:120])})
            for nm in names:
                g = ses.op("getscript", nm)
                if not g.startswith("res=s:" + _m.hexor("keep;")):
                    viol.append({"op": "getscript", "what": "getscript(%r) after a literal listing: %s" % (nm, g[:60])})
            if srv.log:
                viol.append({"op": "listscripts", "what": "server protocol log: %r" % srv.log})
    # two Client objects alive in one process, connected to servers that differ: each must keep ITS server's view
    import msref, refserver
    for rep in range(20 if ctx.tier == "quick" else 200):
        confs = [dict(version=True, sasl=b"PLAIN LOGIN", starttls=True), dict(version=False, sasl=b"PLAIN", starttls=False)]
        r.shuffle(confs)
        pair = []
        for conf in confs:
            srv = refserver.RefServer(r, scripts={b"s": b"keep;\r\n"}, **conf)
            ses = msref.Session()
            ses.connect(b"", [], "user", "pw", server=srv)
            pair.append((ses, srv, conf))
        order = [0, 1, 0, 1]
        r.shuffle(order)
        for idx in order:
            ses, srv, conf = pair[idx]
            evals += 1
            nontriv += 1
            c = ses.client
            got = (c.has_tls_support(), sorted(c.get_sasl_mechanisms() or []), c.get_implementation(), c.get_sieve_capabilities(), c.get_sieve_capabilities())
            want = (conf["starttls"], sorted(conf["sasl"].decode().split()), "refserver", ["fileinto", "vacation"], ["fileinto", "vacation"])
            if got != want:
                viol.append({"op": "capabilities", "what": "with two clients alive, a client reports (%r) what is not its own server's announcement (%r)" % (got, want)})
            nw = len(ses.wire.writes)
            ses.op("renamescript", "s", "t")
            verbs = [b.split(b" ", 1)[0].split(b"\r\n", 1)[0].upper() for _, b in ses.wire.writes[nw:]]
            if conf["version"] and verbs[:1] != [b"RENAMESCRIPT"]:
                viol.append({"op": "renamescript", "what": "server announces VERSION but the client did not use RENAMESCRIPT (verbs %r) — another client's capabilities?" % verbs})
            if not conf["version"] and verbs[:1] != [b"LISTSCRIPTS"]:
                viol.append({"op": "renamescript", "what": "server does not announce VERSION but the client did not emulate the rename (verbs %r)" % verbs})
            ses.op("renamescript", "t", "s")
    diffs = corr_client.compare(sessions)
    seen, uv = set(), []
    for v in viol:
        k = (v["op"], v["what"][:50])
        if k not in seen:
            seen.add(k)
            uv.append(v)
    fresh, known = split_known("C15", uv, lambda f, v: False)
    return {"evaluations": evals, "distinct_nontrivial": nontriv, "rule": RULE, "samples": samples,
            "suites": {"client": {"sessions": nsess, "steps": sum(len(s) for s in sessions)}}, "diffs": diffs, "violations": fresh, "known": known}


def replay(ctx, payload):
    print(json.dumps(payload.get("violation"), indent=1)[:2000])
    return 1
