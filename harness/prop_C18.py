"""C18 — parse errors point at the offending place."""
from prop_common import *
import pyref, corr_parse
from sievelib.parser import Parser, Lexer

RULE = ("every rejected input of the parse suite (exhaustive token sequences, generated scripts × single edits with comments, CRLF and "
        "multi-byte text before the error, byte mutations); for a sample of them: truncation right after the offending token and "
        "replacement of everything after it; non-trivial = rejected after ≥ 4 tokens")
TOKEN_CLASSES = ("lexical", "unknownCommand", "extNotLoaded", "firstCommandTest", "expectedTest", "badArgument", "badValue", "unexpectedToken",
                 "expected", "mustFollow", "unexpectedAfter", "closingBracket", "decodeError")


def offset_of(text, line, col):
    """byte offset of 1-based (line, col): line starts after the (line-1)-th LF"""
    pos = 0
    for _ in range(line - 1):
        k = text.find(b"\n", pos)
        if k < 0:
            return None
        pos = k + 1
    return pos + col - 1


def tokens_of(text):
    L = Lexer(Parser.lrules)
    out = []
    try:
        for k, v in pyref._orig_scan(L, text):
            out.append((L.pos, len(v), k))
    except Exception:  # noqa
        out.append((L.pos, None, "LEXERR"))
    return out


def check_location(text, impl):
    """reported position must be the start of a token (or the lexical error point) and the length that token's length"""
    parts = impl.split(" ")
    line, col, ln, cls = int(parts[1]), int(parts[2]), int(parts[3]), parts[4]
    if cls not in TOKEN_CLASSES:
        return None, None
    p = offset_of(text, line, col)
    if p is None or p > len(text):
        return "reported position (%d,%d) is outside the text" % (line, col), None
    toks = tokens_of(text)
    starts = {s: (l, k) for s, l, k in toks}
    if p not in starts:
        return "reported position (%d,%d)=offset %d is not the start of a token" % (line, col, p), None
    l, k = starts[p]
    if cls != "lexical" and l is not None and ln != l:
        return "reported length %d but the token at (%d,%d) is %d bytes long" % (ln, line, col, l), None
    if cls == "lexical" and k != "LEXERR":
        return "lexical error reported at (%d,%d) where a valid token starts" % (line, col), None
    return None, p


_DIFFS = []
SEARCH_TAILS = (b"", b"\n\nkeep;\n", b' , "zz" ] ;\n', b"\n ) } foo \"x\" ;", b' "y"\n\n]\n;', b" true { stop; }\n")


def search(ctx, broken):
    """tie broken: on the inputs where code and model disagree, cut the text right behind the token the MODEL rejects (the first
    token after which the parser, as modelled, sees no valid continuation) and vary what follows it; the place the real parser
    reports must not move with the tail"""
    cands = [bytes.fromhex(d["input_hex"]) for d in _DIFFS if isinstance(d, dict) and "input_hex" in d]
    for b in broken:
        d = b.get("detail")
        if isinstance(d, dict) and "input_hex" in d:
            cands.append(bytes.fromhex(d["input_hex"]))
    cands = list(dict.fromkeys(cands))[:600]
    if not cands:
        return []
    _, _, model = corr_parse.eval_both(cands)
    texts, owner = [], []
    for t, m in zip(cands, model):
        parts = m.split(" ")
        if parts[0] != "reject" or len(parts) < 5 or parts[4] in ("lexical", "endExpected", "endUnfinished"):
            continue
        q = offset_of(t, int(parts[1]), int(parts[2]))
        if q is None:
            continue
        e = q + int(parts[3])
        for tail in SEARCH_TAILS:
            texts.append(t[:e] + tail)
            owner.append((t, e, parts[1], parts[2]))
    impl, _, _ = corr_parse.eval_both(texts)
    out, by = [], {}
    for x, o, got in zip(texts, owner, impl):
        by.setdefault(o, []).append((x, " ".join(got.split(" ")[:5])))
    for (t, e, line, col), lst in by.items():
        places = set(g for _, g in lst)
        if len(places) > 1:
            a, b = lst[0], next(z for z in lst if z[1] != lst[0][1])
            out.append({"input_hex": b[0].hex(), "input": b[0].decode("latin-1"), "other_input_hex": a[0].hex(),
                        "what": "the reported place depends on what follows the token at line %s column %s (no valid script continues that prefix): "
                                "%r is answered %s, %r is answered %s" % (line, col, a[0][e:][:30], a[1], b[0][e:][:30], b[1])})
    out.sort(key=lambda v: len(v["input_hex"]))
    return out


def run(ctx):
    rec, info = parser_records(ctx)
    viol = []
    cand = []
    for t, a, m in zip(rec.text, rec.impl, rec.meta):
        if not a.startswith("reject "):
            continue
        bad, p = check_location(t, a)
        if bad:
            viol.append({"input_hex": t.hex(), "input": t.decode("latin-1"), "what": bad, "impl": a})
        elif p is not None:
            cand.append((t, a, p))
    # what follows the offending token must not matter; what precedes it must still be viable
    r = rng("c18")
    r.shuffle(cand)
    cand = cand[: (4000 if ctx.tier == "quick" else 40000)]
    # (valid script, offending token) pairs made on purpose: ONE capability taken out of the `require` of a valid generated script
    # (the first command or tag that needs it becomes the token that is wrong in itself), an unknown command appended at the end
    import gen_scripts
    made, mdiff = [], []
    for t, m in zip(rec.text, rec.meta):
        if m.get("stream") != "gen" or not m.get("need") or len(made) >= (600 if ctx.tier == "quick" else 6000):
            continue
        toks = [bytes.fromhex(h_) for h_ in m["tokens"]]
        for ext in m["need"]:
            q_ = b'"' + ext.encode() + b'"'
            out, i, dropped = [], 0, False
            while i < len(toks):
                if toks[i].lower() == b"require" and b";" in toks[i:]:
                    end = i + toks[i:].index(b";")
                    body = [x for x in toks[i + 1:end] if x not in (b"[", b"]", b",")]
                    if q_ in body:
                        dropped = True
                        body = [x for x in body if x != q_]
                    if body:
                        lst = [b"["]
                        for k_, x in enumerate(body):
                            lst += ([b","] if k_ else []) + [x]
                        out += [b"require"] + lst + [b"]", b";"]
                    i = end + 1
                    continue
                out.append(toks[i])
                i += 1
            if dropped:
                made.append(gen_scripts.render(out, r, "space") + b"\nnosuchcommand;\n")
    if made:
        mi, _, mm = corr_parse.eval_both(made)
        for x, a, mod in zip(made, mi, mm):
            if a != mod:
                mdiff.append({"suite": "parse", "input_hex": x.hex(), "input": x.decode("latin-1"), "impl": a[:300], "model": mod[:300]})
            if a.startswith("reject "):
                bad, p = check_location(x, a)
                if bad:
                    viol.append({"input_hex": x.hex(), "input": x.decode("latin-1"), "what": bad, "impl": a})
                elif p is not None:
                    cand.append((x, a, p))
            else:
                viol.append({"input_hex": x.hex(), "input": x.decode("latin-1"), "what": "a script that ends in an unknown command is not rejected: " + a[:80]})
    texts, expect = [], []
    for t, a, p in cand:
        parts = a.split(" ")
        ln = int(parts[3])
        toks = dict((s, l) for s, l, k in tokens_of(t))
        tl = toks.get(p) or 0
        end = p + (tl if parts[4] != "lexical" else 0)
        if parts[4] == "lexical":
            continue_from = t[p:].split()[0] if t[p:].split() else t[p:]
            end = p + len(continue_from)
        tails = (b"", b"\n\nkeep;\n") if parts[4] == "lexical" else (b"", b"\n ) } foo \"x\" ;", b"\n\nkeep;\n")
        for tail in tails:  # (an unterminated string / comment is lexical *because of* what follows: no quote or */ in its tails)
            texts.append(t[:end] + tail)
            expect.append((a, t, "tail"))
        texts.append(t[:p])
        expect.append((a, t, "before"))
    impl, ys, model = corr_parse.eval_both(texts)
    # … and viable in the SUPPORTED language: the parser model on the frozen command table of the specification must not have
    # rejected the text before the reported token either (a token "wrong in itself" — say a tag whose extension is not loaded —
    # that the code lets pass is otherwise reported late, at whatever comes after it)
    befores = [(x, t) for x, (a, t, kind) in zip(texts, expect) if kind == "before"]
    spec = run_driver(["parse-spec " + hx(x) for x, _ in befores])
    for (x, t), sv in zip(befores, spec):
        if not (sv.startswith("accept") or " endExpected" in sv or " endUnfinished" in sv):
            viol.append({"input_hex": t.hex(), "input": t.decode("latin-1"), "what": "the text before the reported token is already invalid in the supported "
                         "language (%s): the rejection is reported later than the first token that is wrong in itself" % sv[:100], "before_hex": x.hex()})
    ndiff = []
    for x, (a, t, kind), got, mod in zip(texts, expect, impl, model):
        if got != mod:
            ndiff.append({"suite": "parse", "input_hex": x.hex(), "input": x.decode("latin-1"), "impl": got[:300], "model": mod[:300]})
        if kind == "tail":
            if got.split(" ")[:5] != a.split(" ")[:5]:
                viol.append({"input_hex": x.hex(), "input": x.decode("latin-1"), "what": "rejection moved when the text after the offending token changed: %s  vs  %s" % (a[:100], got[:100]), "original_hex": t.hex()})
        else:
            if not (got.startswith("accept") or " endExpected" in got or " endUnfinished" in got):
                viol.append({"input_hex": x.hex(), "input": x.decode("latin-1"), "what": "text before the reported token is already rejected (%s): reported position is later than the first invalid token" % got[:100], "original_hex": t.hex()})
    # the reported place must not depend on what the same Parser object rejected before: rejected scripts with different line
    # layouts through ONE Parser, each answer compared with that of a fresh Parser
    import pyref
    from sievelib.parser import Parser
    multi = [(t, a) for t, a, p in cand if t.count(b"\n") >= 1][:150] + [(t, a) for t, a, p in cand if t.count(b"\n") == 0][:150]
    nre = 0
    for k in range(0, len(multi) - 2, 3):
        po = Parser()
        for t, a in multi[k:k + 3]:
            got = pyref.parse_answer(t, parser=po)
            nre += 1
            if got != a:
                viol.append({"input_hex": t.hex(), "input": t.decode("latin-1"), "history_hex": [x.hex() for x, _ in multi[k:k + 3]],
                             "what": "rejection reported differently by a Parser that had rejected other scripts before: %s, fresh parser: %s" % (got[:100], a[:100])})
    _DIFFS[:] = rec.diffs() + ndiff + mdiff
    import aliasing
    viol += aliasing.nested_positions()
    fresh, known = split_known("C18", viol, lambda f, v: False)
    res = std_result(rec, info, fresh, known, RULE, {"tail-variation": {"evaluations": len(texts), "candidates": len(cand)}, "reused-parser": {"evaluations": nre}}, diffs=rec.diffs() + ndiff + mdiff)
    res["evaluations"] += len(texts)
    return res


def replay(ctx, payload):
    v = payload.get("violation") or {}
    if "other_input_hex" in v:
        a, b = bytes.fromhex(v["other_input_hex"]), bytes.fromhex(v["input_hex"])
        ra, rb = pyref.parse_answer(a), pyref.parse_answer(b)
        print("common prefix then two tails:\n ", a, "->", ra[:120], "\n ", b, "->", rb[:120])
        moved = ra.split(" ")[:5] != rb.split(" ")[:5]
        print("oracle  :", "the reported place moved with the tail" if moved else "property holds on this pair")
        return 1 if moved else 0

    def oracle(t, impl, y, m):
        if impl.startswith("reject "):
            return check_location(t, impl)[0]
        return None
    return replay_parse(ctx, payload, oracle)
