"""C18 — parse errors point at the offending place."""
from prop_common import *
import pyref, corr_parse
from sievelib.parser import Parser, Lexer

RULE = ("every rejected input of the parse suite (exhaustive token sequences, generated scripts × single edits with comments, CRLF and "
        "multi-byte text before the error, byte mutations); for a sample of them: truncation right after the offending token and "
        "replacement of everything after it; non-trivial = rejected after ≥ 4 tokens")
TOKEN_CLASSES = ("lexical", "unknownCommand", "extNotLoaded", "firstCommandTest", "expectedTest", "badArgument", "badValue", "unexpectedToken",
                 "expected", "mustFollow", "unexpectedAfter", "closingBracket", "decodeError")


def offset_of(text, line, col):
    """byte offset of 1-based (line, col): line starts after the (line-1)-th LF"""
    pos = 0
    for _ in range(line - 1):
        k = text.find(b"\n", pos)
        if k < 0:
            return None
        pos = k + 1
    return pos + col - 1


def tokens_of(text):
    L = Lexer(Parser.lrules)
    out = []
    try:
        for k, v in pyref._orig_scan(L, text):
            out.append((L.pos, len(v), k))
    except Exception:  # noqa
        out.append((L.pos, None, "LEXERR"))
    return out


def check_location(text, impl):
    """reported position must be the start of a token (or the lexical error point) and the length that token's length"""
    parts = impl.split(" ")
    line, col, ln, cls = int(parts[1]), int(parts[2]), int(parts[3]), parts[4]
    if cls not in TOKEN_CLASSES:
        return None, None
    p = offset_of(text, line, col)
    if p is None or p > len(text):
        return "reported position (%d,%d) is outside the text" % (line, col), None
    toks = tokens_of(text)
    starts = {s: (l, k) for s, l, k in toks}
    if p not in starts:
        return "reported position (%d,%d)=offset %d is not the start of a token" % (line, col, p), None
    l, k = starts[p]
    if cls != "lexical" and l is not None and ln != l:
        return "reported length %d but the token at (%d,%d) is %d bytes long" % (ln, line, col, l), None
    if cls == "lexical" and k != "LEXERR":
        return "lexical error reported at (%d,%d) where a valid token starts" % (line, col), None
    return None, p


def run(ctx):
    rec, info = parser_records(ctx)
    viol = []
    cand = []
    for t, a, m in zip(rec.text, rec.impl, rec.meta):
        if not a.startswith("reject "):
            continue
        bad, p = check_location(t, a)
        if bad:
            viol.append({"input_hex": t.hex(), "input": t.decode("latin-1"), "what": bad, "impl": a})
        elif p is not None:
            cand.append((t, a, p))
    # what follows the offending token must not matter; what precedes it must still be viable
    r = rng("c18")
    r.shuffle(cand)
    cand = cand[: (4000 if ctx.tier == "quick" else 40000)]
    texts, expect = [], []
    for t, a, p in cand:
        parts = a.split(" ")
        ln = int(parts[3])
        toks = dict((s, l) for s, l, k in tokens_of(t))
        tl = toks.get(p) or 0
        end = p + (tl if parts[4] != "lexical" else 0)
        if parts[4] == "lexical":
            continue_from = t[p:].split()[0] if t[p:].split() else t[p:]
            end = p + len(continue_from)
        tails = (b"", b"\n\nkeep;\n") if parts[4] == "lexical" else (b"", b"\n ) } foo \"x\" ;", b"\n\nkeep;\n")
        for tail in tails:  # (an unterminated string / comment is lexical *because of* what follows: no quote or */ in its tails)
            texts.append(t[:end] + tail)
            expect.append((a, t, "tail"))
        texts.append(t[:p])
        expect.append((a, t, "before"))
    impl, ys, model = corr_parse.eval_both(texts)
    ndiff = []
    for x, (a, t, kind), got, mod in zip(texts, expect, impl, model):
        if got != mod:
            ndiff.append({"suite": "parse", "input_hex": x.hex(), "input": x.decode("latin-1"), "impl": got[:300], "model": mod[:300]})
        if kind == "tail":
            if got.split(" ")[:5] != a.split(" ")[:5]:
                viol.append({"input_hex": x.hex(), "input": x.decode("latin-1"), "what": "rejection moved when the text after the offending token changed: %s  vs  %s" % (a[:100], got[:100]), "original_hex": t.hex()})
        else:
            if not (got.startswith("accept") or " endExpected" in got or " endUnfinished" in got):
                viol.append({"input_hex": x.hex(), "input": x.decode("latin-1"), "what": "text before the reported token is already rejected (%s): reported position is later than the first invalid token" % got[:100], "original_hex": t.hex()})
    # the reported place must not depend on what the same Parser object rejected before: rejected scripts with different line
    # layouts through ONE Parser, each answer compared with that of a fresh Parser
    import pyref
    from sievelib.parser import Parser
    multi = [(t, a) for t, a, p in cand if t.count(b"\n") >= 1][:150] + [(t, a) for t, a, p in cand if t.count(b"\n") == 0][:150]
    nre = 0
    for k in range(0, len(multi) - 2, 3):
        po = Parser()
        for t, a in multi[k:k + 3]:
            got = pyref.parse_answer(t, parser=po)
            nre += 1
            if got != a:
                viol.append({"input_hex": t.hex(), "input": t.decode("latin-1"), "history_hex": [x.hex() for x, _ in multi[k:k + 3]],
                             "what": "rejection reported differently by a Parser that had rejected other scripts before: %s, fresh parser: %s" % (got[:100], a[:100])})
    fresh, known = split_known("C18", viol, lambda f, v: False)
    res = std_result(rec, info, fresh, known, RULE, {"tail-variation": {"evaluations": len(texts), "candidates": len(cand)}, "reused-parser": {"evaluations": nre}}, diffs=rec.diffs() + ndiff)
    res["evaluations"] += len(texts)
    return res


def replay(ctx, payload):
    def oracle(t, impl, y, m):
        if impl.startswith("reject "):
            return check_location(t, impl)[0]
        return None
    return replay_parse(ctx, payload, oracle)
