"""Footprint / call-site extraction (syntactic, via ast) for C13: Generated/Footprint.lean."""
import ast, os


def attr_chain(node):
    """'self.lexer.pos' style dotted name of an Attribute/Name chain, or None"""
    parts = []
    while isinstance(node, ast.Attribute):
        parts.append(node.attr)
        node = node.value
    if isinstance(node, ast.Name):
        parts.append(node.id)
        return ".".join(reversed(parts))
    return None


MUTATORS = {"append", "extend", "insert", "pop", "remove", "clear", "update", "setdefault", "sort", "reverse", "popitem"}


def stores_in(fn):
    """dotted names stored / mutated in a function body"""
    out = []
    for n in ast.walk(fn):
        targets = []
        if isinstance(n, ast.Assign):
            targets = n.targets
        elif isinstance(n, (ast.AugAssign, ast.AnnAssign)):
            targets = [n.target]
        elif isinstance(n, ast.Delete):
            targets = n.targets
        elif isinstance(n, ast.Call) and isinstance(n.func, ast.Attribute) and n.func.attr in MUTATORS:
            c = attr_chain(n.func.value)
            if c:
                out.append(c)
        for t in targets:
            for tt in (t.elts if isinstance(t, (ast.Tuple, ast.List)) else [t]):
                if isinstance(tt, ast.Subscript):
                    tt = tt.value
                c = attr_chain(tt)
                if c:
                    out.append(c)
    return out


def class_def(tree, name):
    for n in tree.body:
        if isinstance(n, ast.ClassDef) and n.name == name:
            return n
    return None


def methods(cls):
    return {n.name: n for n in cls.body if isinstance(n, (ast.FunctionDef, ast.AsyncFunctionDef))}


def self_attrs(names, prefix="self."):
    return sorted(set(n[len(prefix):].split(".")[0] for n in names if n.startswith(prefix)))


def extract(repo, table):
    ptree = ast.parse(open(os.path.join(repo, "sievelib", "parser.py")).read())
    ctree = ast.parse(open(os.path.join(repo, "sievelib", "commands.py")).read())
    ftree = ast.parse(open(os.path.join(repo, "sievelib", "factory.py")).read())
    P = methods(class_def(ptree, "Parser"))
    Lx = methods(class_def(ptree, "Lexer"))
    reset = P.get("_Parser__reset_parser") or P.get("__reset_parser")
    reset_stores = stores_in(reset) if reset else []
    parser_reset_writes = self_attrs(reset_stores)
    parser_reset_globals = sorted(set(n for n in reset_stores if not n.startswith("self.") and "." in n))
    mutated, lexer_mut_from_parser = set(), set()
    for name, fn in P.items():
        if name in ("__init__", "__reset_parser", "_Parser__reset_parser"):
            continue
        for n in stores_in(fn):
            if n.startswith("self.lexer."):
                lexer_mut_from_parser.add(n[len("self.lexer."):].split(".")[0])
            elif n.startswith("self."):
                mutated.add(n[5:].split(".")[0])
    lexer_mut = set(lexer_mut_from_parser)
    for name, fn in Lx.items():
        if name == "__init__":
            continue
        lexer_mut |= set(self_attrs(stores_in(fn)))
    scan = Lx.get("scan")
    scan_init = []
    if scan:
        for st in scan.body:
            if isinstance(st, (ast.While, ast.For)):
                break
            if isinstance(st, ast.Assign):
                scan_init += self_attrs([attr_chain(t) or "" for t in st.targets])
    # class-level / module-level objects rebound or mutated from inside functions (parse path: parser.py + commands.py)
    rebound = set()
    for tree in (ptree, ctree):
        module_names = set()
        for n in tree.body:
            if isinstance(n, ast.Assign):
                for t in n.targets:
                    if isinstance(t, ast.Name):
                        module_names.add(t.id)
        for fn in [n for n in ast.walk(tree) if isinstance(n, (ast.FunctionDef, ast.AsyncFunctionDef))]:
            if fn.name in ("__reset_parser", "add_commands"):
                continue
            for n in stores_in(fn):
                head = n.split(".")[0]
                if head in ("self", "cls"):
                    continue
                if "." in n and (head[:1].isupper()):
                    rebound.add(n)
                elif head in module_names:
                    rebound.add(n)
            for g in [x for x in ast.walk(fn) if isinstance(x, ast.Global)]:
                rebound |= set(g.names)
    # factory call sites that consult the global extension list
    ext_cmds = {d["name"] for d in table if d["extension"]}
    sensitive = {d["name"] for d in table if any(a["extension"] or a["extValues"] for a in d["args"])}
    checked = []
    F = class_def(ftree, "FiltersSet")
    for fname, fn in methods(F).items():
        var_cmd = []
        for n in ast.walk(fn):
            if isinstance(n, ast.Assign) and isinstance(n.value, ast.Call) and attr_chain(n.value.func) in ("commands.get_command_instance", "get_command_instance"):
                a0 = n.value.args[0] if n.value.args else None
                for t in n.targets:
                    if isinstance(t, ast.Name):
                        var_cmd.append((n.lineno, t.id, a0.value if isinstance(a0, ast.Constant) and isinstance(a0.value, str) else None))
        for n in ast.walk(fn):
            if not isinstance(n, ast.Call):
                continue
            fnname = attr_chain(n.func) or ""
            if fnname.endswith("get_command_instance"):
                a0 = n.args[0] if n.args else None
                chk = n.args[2] if len(n.args) > 2 else next((k.value for k in n.keywords if k.arg == "checkexists"), None)
                off = isinstance(chk, ast.Constant) and chk.value is False
                if isinstance(a0, ast.Constant) and isinstance(a0.value, str):
                    if a0.value.lower() in ext_cmds and not off:
                        checked.append("%s:%d get_command_instance(%r)" % (fname, n.lineno, a0.value))
            elif fnname.endswith(".check_next_arg") and n.args and isinstance(n.args[0], ast.Constant) and n.args[0].value == "tag":
                recv = fnname.rsplit(".", 1)[0]
                chk = n.args[3] if len(n.args) > 3 else next((k.value for k in n.keywords if k.arg == "check_extension"), None)
                off = isinstance(chk, ast.Constant) and chk.value is False
                prior = [x for x in var_cmd if x[1] == recv and x[0] < n.lineno]
                cmdname = max(prior)[2] if prior else None
                if not off and (cmdname is None or cmdname in sensitive):
                    checked.append("%s:%d %s.check_next_arg('tag')" % (fname, n.lineno, recv))
    return {"parserMutated": sorted(mutated), "parserResetWrites": parser_reset_writes, "parserResetGlobals": parser_reset_globals,
            "lexerMutated": sorted(lexer_mut), "lexerScanInit": sorted(set(scan_init)), "globalsRebound": sorted(rebound),
            "factoryCheckedCalls": sorted(checked)}


def render(fp, lean_list, lean_str):
    out = ["/-! GENERATED by harness/translate.py (translate_fp.py) from parser.py / commands.py / factory.py — do not edit. -/", "namespace Generated", ""]
    for k in ("parserMutated", "parserResetWrites", "parserResetGlobals", "lexerMutated", "lexerScanInit", "globalsRebound", "factoryCheckedCalls"):
        out.append("def %s : List String := %s" % (k, lean_list(fp[k], lean_str)))
    out += ["", "end Generated"]
    return "\n".join(out) + "\n"
