"""Generator of FiltersSet definitions from the documented condition / action kinds.

A definition is generated as a *template* whose user values are holes; `fill` instantiates it either
with hostile values or with inert placeholders, so that oracles can compare token skeletons.
"""
from common import *

PIECES = ['"', "\\", ",", "[", "]", "{", "}", ";", "#", "\r\n", "\n", "é", "€", " ", "a", "b1", "/*", "*/", ":is", "text:", "\\\"", "(", ")", "e\u0301", "\u212b"]
SAFE_PIECES = ["a", "b1", " ", "é", "€", "x@y.z", "-", "_", ".", "[", "]", "{", "}", ";", "#", "(", ")", ":is", "e\u0301", "\u212b"]


class Hole:
    def __init__(self, i):
        self.i = i

    def __repr__(self):
        return "H%d" % self.i


class Template:
    def __init__(self):
        self.n = 0

    def hole(self):
        h = Hole(self.n)
        self.n += 1
        return h

    def holes(self, r, lo=1, hi=3):
        return [self.hole() for _ in range(r.randint(lo, hi))]


def gen_condition(t, r, kinds=None):
    kind = r.choice(kinds or ["header", "header", "header-list", "nothdr", "exists", "notexists", "size", "size-int", "envelope", "address", "body", "currentdate", "currentdate-value", "true", "false"])
    mt = r.choice([":is", ":contains", ":matches", ":is", ":contains", ":matches", ":regex"])     # :regex brings an extension of its own
    if kind == "header":
        return (t.hole(), mt, t.hole())
    if kind == "header-list":
        return (t.holes(r), mt, t.holes(r))
    if kind == "nothdr":
        return (t.hole(), ":not" + mt[1:], t.hole())
    if kind == "exists":
        return ("exists",) + tuple(t.holes(r))
    if kind == "notexists":
        return ("notexists",) + tuple(t.holes(r))
    if kind == "size":
        return ("size", r.choice([":over", ":under"]), r.choice(["100", "10K", "2M", "0", "1G", "3g"]))
    if kind == "size-int":
        # the limit given as a Python int, small and very large (whatever the factory makes of it must be a Sieve number)
        return ("size", r.choice([":over", ":under"]), r.choice([0, 1, 1023, 1024, 2048, 10 ** 6, 2 ** 31, 2 ** 32, 2 ** 40, 3 * 2 ** 40, 2 ** 50, 2 ** 63, 2 ** 64]))
    if kind == "envelope":
        return ("envelope", r.choice([mt, ":not" + mt[1:]]), t.holes(r), t.holes(r))
    if kind == "address":
        return ("address", r.choice([mt, ":not" + mt[1:]]), t.holes(r), t.holes(r))
    if kind == "body":
        return ("body", r.choice([":raw", ":text"]), r.choice([mt, ":not" + mt[1:]])) + tuple(t.holes(r))
    if kind == "currentdate":
        return ("currentdate", ":zone", "+0100", r.choice([mt, ":not" + mt[1:]]), "date") + tuple(t.holes(r, 1, 2))
    if kind == "currentdate-value":
        return ("currentdate", ":zone", "+0100", ":value", r.choice(["ge", "lt", "eq"]), "date") + tuple(t.holes(r, 1, 2))
    return (kind,)


def gen_action(t, r):
    kind = r.choice(["fileinto", "fileinto-copy", "fileinto-create", "fileinto-flags", "fileinto-copy-create", "fileinto-copy-flags", "redirect", "redirect-copy", "reject", "keep", "discard", "stop",
                     "setflag", "addflag", "removeflag", "addflag-list", "vacation", "vacation-tags"])
    if kind == "fileinto":
        return ("fileinto", t.hole())
    if kind == "fileinto-copy":
        return ("fileinto", ":copy", t.hole())
    if kind == "fileinto-create":
        return ("fileinto", ":create", t.hole())
    if kind == "fileinto-flags":
        return ("fileinto", ":flags", t.hole(), t.hole())
    if kind == "fileinto-copy-create":        # one command using two extensions
        return ("fileinto", ":copy", ":create", t.hole())
    if kind == "fileinto-copy-flags":
        return ("fileinto", ":copy", ":flags", t.hole(), t.hole())
    if kind == "redirect":
        return ("redirect", t.hole())
    if kind == "redirect-copy":
        return ("redirect", ":copy", t.hole())
    if kind == "reject":
        return ("reject", t.hole())
    if kind in ("keep", "discard", "stop"):
        return (kind,)
    if kind in ("setflag", "addflag", "removeflag"):
        return (kind, t.hole())
    if kind == "addflag-list":
        return ("addflag", t.holes(r, 1, 3))
    if kind == "vacation":
        return ("vacation", t.hole())
    tags = []
    if r.random() < 0.6:
        tags += [":subject", t.hole()]
    if r.random() < 0.5:
        tags += [":days", r.choice([0, 1, 7, 365, r.randint(1, 30), 1024, 2 ** 40])]      # 0 is falsy in Python: boundary
    elif r.random() < 0.3:
        tags += [":seconds", r.choice([0, 1, 86400, r.randint(1, 3000), 2048, 2 ** 31, 2 ** 40, 3 * 2 ** 40])]
    if r.random() < 0.4:
        tags += [":from", t.hole()]
    if r.random() < 0.4:
        tags += [":addresses", t.holes(r, 1, 2)]
    if r.random() < 0.3:
        tags += [":handle", t.hole()]
    if r.random() < 0.3:
        tags += [":mime"]
    return ("vacation",) + tuple(tags) + (t.hole(),)


def vary_case(r, act):
    """tags are case-insensitive in Sieve: an action tag may come in any letter case"""
    if r.random() < 0.15:
        f = r.choice([str.upper, str.capitalize, lambda x: x[:2].upper() + x[2:]])
        return tuple(f(x) if (isinstance(x, str) and x.startswith(":") and not isinstance(x, Hole)) else x for x in act)
    return act


def gen_filter(r, cond_kinds=None):
    """(template conditions, template actions, matchtype, number of holes)"""
    t = Template()
    conds = [gen_condition(t, r, cond_kinds) for _ in range(r.randint(1, 3))]
    if r.random() < 0.12:
        conds.append(r.choice(conds))        # a repeated condition (last = an earlier one)
    acts = [vary_case(r, gen_action(t, r)) for _ in range(r.randint(1, 3))]
    return conds, acts, r.choice(["anyof", "allof"]), t.n


def fill(x, values):
    if isinstance(x, Hole):
        return values[x.i]
    if isinstance(x, tuple):
        return tuple(fill(y, values) for y in x)
    if isinstance(x, list):
        return [fill(y, values) for y in x]
    return x


LINES = [".", "..", ".x", "a", ";", "discard;", "", "text:", '"', "\\", "}", "é"]


def hostile_value(r, pieces=PIECES):
    if pieces is PIECES and r.random() < 0.15:
        # line-structured values (complete lines, lone dots, CR before LF): what a multi-line rendering must dot-stuff
        v = "".join(r.choice(LINES) + r.choice(["\n", "\n", "\r\n", "\r"]) for _ in range(r.randint(1, 3)))
        if not v.startswith(('"', "'", ":", "not")):
            return v
    if pieces is PIECES and r.random() < 0.06:
        # white space, then what would be special in first position (only a value that STARTS with a quote is taken as quoted)
        return r.choice([" ", "\t", "\n", "  "]) + r.choice(['"', "'", ":", "not"]) + r.choice(["x", 'y"; discard; stop', "gone'", ""])
    if r.random() < 0.04:
        return ""       # the empty string is a string: a null reverse-path, an empty subject, a list of one empty key
    while True:
        v = "".join(r.choice(pieces) for _ in range(r.randint(1, 4)))
        # a leading quote is "already quoted" for the factory (outside the claim); a leading ':' makes an action
        # argument a tag (known finding KF-C06-1, exercised by its own witness); 'not…' flips a condition (KF-C19-…)
        if v and not v.startswith(('"', "'", ":", "not")):
            return v


def placeholders(n):
    return ["v%dq" % i for i in range(n)]
