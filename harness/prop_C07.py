"""C07 — extension use is gated by require."""
from prop_common import *
import pyref, corr_parse, gen_scripts
from sievelib.parser import Parser
from sievelib import commands

RULE = ("every accepted input of the parse suite (exhaustive token sequences with and without a require-everything preamble, generated "
        "scripts, edits, byte mutations) walked with the FROZEN extension map; plus every (generated valid script, needed extension) pair "
        "with that extension removed from its require; non-trivial = accepted input using ≥ 1 extension-bound construct, or a removal pair")

_MAP = json.load(open(os.path.join(VERIF, "spec", "extension_map.json")))
CMD_EXT = dict(_MAP["commands"])
TAG_EXT = {}
for c, t, e in _MAP["tags"]:
    TAG_EXT[(c, t)] = e
for c in _MAP["match_type_tests"]:
    for t, e in _MAP["match_types"]:
        TAG_EXT[(c, t)] = e
ANY_TAG_EXT = {}
for (c, t), e in TAG_EXT.items():
    ANY_TAG_EXT[t] = e


def walk(cmd, loaded, problems, used):
    """document-order walk; `loaded` is mutated as require commands complete"""
    name = cmd.name
    e = CMD_EXT.get(name)
    if e is not None:
        used.append(e)
        if e not in loaded:
            problems.append("command %s needs %s" % (name, e))
    for k, v in cmd.arguments.items():
        if isinstance(v, str) and v.startswith(":"):
            te = TAG_EXT.get((name, v.lower()))
            if te is not None:
                used.append(te)
                if te not in loaded:
                    problems.append("%s %s needs %s" % (name, v, te))
        elif isinstance(v, commands.Command):
            walk(v, loaded, problems, used)
        elif isinstance(v, list):
            for x in v:
                if isinstance(x, commands.Command):
                    walk(x, loaded, problems, used)
    for ch in cmd.children:
        walk(ch, loaded, problems, used)
    if name == "require":
        caps = cmd.arguments.get("capabilities")
        if caps is not None:
            for c in (caps if isinstance(caps, list) else [caps]):
                loaded.add(c.strip('"'))


def check_accepted(text):
    p = Parser()
    if p.parse(text) is not True:
        return None, 0
    loaded, problems, used = set(), [], []
    for c in p.result:
        walk(c, loaded, problems, used)
    return (problems[0] if problems else None), len(used)


def token_ext(tok):
    t = tok.lower().decode("latin-1")
    if t in CMD_EXT:
        return CMD_EXT[t]
    return ANY_TAG_EXT.get(t)


def removal_cases(ctx, n):
    r = rng("c07-removal")
    g = gen_scripts.Gen(table_of(ctx), r)
    out = []
    for _ in range(n):
        toks, need, nreq = g.script(2)
        for e in sorted(need):
            exts = [x for x in sorted(need) if x != e]
            req = []
            if exts:
                req = [b"require", b"["]
                for i, x in enumerate(exts):
                    if i:
                        req.append(b",")
                    req.append(b'"%s"' % x.encode())
                req += [b"]", b";"]
            body = toks[nreq:]
            full = req + body
            first = next((i for i, tk in enumerate(full) if i >= len(req) and token_ext(tk) == e), None)
            if first is None:
                continue
            off = sum(len(t) + 1 for t in full[:first])
            out.append((b" ".join(full), e, off, len(full[first]), b" ".join(toks)))
    return out


def run(ctx):
    rec, info = parser_records(ctx)
    viol = []
    nuse = 0
    for t, a in zip(rec.text, rec.impl):
        if not a.startswith("accept"):
            continue
        bad, used = check_accepted(t)
        nuse += 1 if used else 0
        if bad:
            viol.append({"input_hex": t.hex(), "input": t.decode("latin-1"), "what": "accepted although " + bad + " and no preceding require names it"})
    cases = removal_cases(ctx, 300 if ctx.tier == "quick" else 3000)
    texts = [c[0] for c in cases]
    impl, ys, model = corr_parse.eval_both(texts)
    diffs = rec.diffs()
    for (t, e, off, ln, orig), a, m in zip(cases, impl, model):
        if a != m:
            diffs.append({"suite": "parse", "input_hex": t.hex(), "input": t.decode("latin-1"), "impl": a[:300], "model": m[:300]})
        exp_line = 1 + t[:off].count(b"\n")
        exp_col = off - (t.rfind(b"\n", 0, off))
        want = "reject %d %d %d extNotLoaded %s" % (exp_line, exp_col, ln, e.encode().hex())
        if a != want:
            viol.append({"input_hex": t.hex(), "input": t.decode("latin-1"), "what": "extension %r removed from require: expected %r, got %r" % (e, want, a[:160])})
        else:
            # same pair through ONE parser object that has just accepted the complete script
            p = Parser()
            p.parse(orig)
            a2 = pyref.parse_answer(t, parser=p)
            if a2 != want:
                viol.append({"input_hex": t.hex(), "input": t.decode("latin-1"), "history_hex": [orig.hex()],
                             "what": "extension %r removed from require, parsed by a Parser that had just parsed the complete script: expected %r, got %r" % (e, want, a2[:160])})
            # two Parser objects alive at once: the one created FIRST parses the script without the require after the one
            # created second has accepted the complete script (and the other way round)
            for first_gets_full in (False, True):
                older, younger = Parser(), Parser()
                full_p, cut_p = (older, younger) if first_gets_full else (younger, older)
                full_p.parse(orig)
                a3 = pyref.parse_answer(t, parser=cut_p)
                if a3 != want:
                    viol.append({"input_hex": t.hex(), "input": t.decode("latin-1"), "history_hex": [orig.hex()],
                                 "what": "extension %r removed from require; two Parser objects alive, the %s one had accepted the complete script: expected %r, got %r" % (
                                     e, "older" if first_gets_full else "younger", want, a3[:160])})
    import aliasing
    for v in aliasing.parser_company([(c[0], c[4]) for c in cases[: (80 if ctx.tier == "quick" else 800)]]):
        viol.append(dict(v, what="extension removed from require, Parser objects in company: " + v["what"]))
    fresh, known = split_known("C07", viol, lambda f, v: False)
    res = std_result(rec, info, fresh, known, RULE, {"removal": {"pairs": len(cases)}, "accepted_with_extension_use": nuse}, diffs=diffs)
    res["evaluations"] += len(cases)
    res["distinct_nontrivial"] = nuse + len(cases)
    return res


def search(ctx, broken):
    out = []
    # a frozen pair missing from the live table: build the shortest script using the construct without its require
    table = {d["name"]: d for d in table_of(ctx)}
    cands = []
    for c, e in CMD_EXT.items():
        cands.append((c, None, e))
    for (c, t), e in TAG_EXT.items():
        cands.append((c, t, e))
    texts = []
    for c, t, e in cands:
        d = table.get(c)
        if d is None:
            continue
        pre = [x for x in set(CMD_EXT.values()) | set(ANY_TAG_EXT.values()) if x != e]
        req = b'require [' + b",".join(b'"%s"' % x.encode() for x in sorted(pre)) + b'];\n'
        args = []
        if t:
            args.append(t.encode())
            for a in d["args"]:
                vals = (a["values"] or []) + [k for k, _ in a["extValues"]]
                if t in vals and a["extra"] and (a["extra"]["validFor"] is None or t in a["extra"]["validFor"]):
                    args.append((a["extra"]["values"] or ['"1"'])[0].encode() if "number" not in a["extra"]["types"] else b"1")
        for a in d["args"]:
            if a["required"] and a["types"] not in (["test"], ["testlist"]):
                args.append(b"1" if a["types"] == ["number"] else (b":over" if a["types"] == ["tag"] else b'"x"'))
        body = c.encode() + b" " + b" ".join(args)
        texts.append(req + (b"if " + body + b" {}" if d["kind"] == "test" else body + b";"))
    for t in texts:
        bad, used = check_accepted(t)
        if bad:
            out.append({"input_hex": t.hex(), "input": t.decode("latin-1"), "what": "accepted although " + bad})
    return out


def replay(ctx, payload):
    def oracle(t, impl, y, m):
        if impl.startswith("accept"):
            return check_accepted(t)[0]
        return None
    return replay_parse(ctx, payload, oracle)


def still_fails(ctx, t):
    return check_accepted(t)[0] is not None
