"""Scripted ManageSieve exchanges: (operation, arguments, reply bytes) from the RFC 5804 reply grammar."""
from common import *
import msref

GREETING = b'"IMPLEMENTATION" "x"\r\n"SASL" "PLAIN LOGIN"\r\n"SIEVE" "fileinto"\r\n"STARTTLS"\r\n"VERSION" "1.0"\r\nOK "ready"\r\n'
GREETING_NOVERSION = b'"IMPLEMENTATION" "x"\r\n"SASL" "PLAIN LOGIN"\r\n"SIEVE" "fileinto"\r\nOK\r\n'
AUTH_OK = b'OK "Logged in."\r\n'


def q(b):
    return b'"' + b.replace(b"\\", b"\\\\").replace(b'"', b'\\"') + b'"'


def lit(b):
    return b"{%d}\r\n%s" % (len(b), b)


TEXTS = [None, b"done", b"", b'with "quotes" and \\ backslash', b"\xc3\xa9t\xc3\xa9", b"(not a code)", b"{3}", b"OK NO BYE", b"two\r\nlines", b"near ${1} {2} end",
         # a text that itself ends with line ends (a compile report): they are part of the text
         b"script errors:\r\nline 1: syntax error\r\n", b"ends with lf\n", b"cr at the end\r", b"blank line after\r\n\r\n",
         # long texts of multi-byte characters at every alignment (a limit counted in octets must not cut a character in two)
         "é".encode() * 130, b"a" + "é".encode() * 130, "€".encode() * 90, b"a" + "€".encode() * 90, b"ab" + "€".encode() * 90]
CODES = [None, b"QUOTA", b"QUOTA/MAXSIZE", b"NONEXISTENT", b"ACTIVE", b"ALREADYEXISTS", b"TRYLATER", b"WARNINGS", b'TAG "abc"', b'TAG "a)b\\"c"', b"x-vendor/sub-code_1",
         # the rest of the RFC 5804 registry, deeper hierarchies, codes that extend a registered one
         b"QUOTA/MAXSCRIPTS", b"AUTH-TOO-WEAK", b"ENCRYPT-NEEDED", b"TRANSITION-NEEDED", b'REFERRAL "sieve://other.example"', b'SASL "cnNwYXV0aD1lYQ=="',
         b"QUOTA/MAXSIZE/PERUSER", b"QUOTA/x-vendor", b"NONEXISTENT/x", b"a/b/c", b"QUOTAS", b"QUOTA/MAXSCRIPT"]


def status_lines(r, status, n):
    """status replies of every shape RFC 5804 allows: with/without code, with/without text, quoted or literal text"""
    out = []
    for code in CODES:
        for text in TEXTS:
            for enc in ("q", "l"):
                if text is None and enc == "l":
                    continue
                if text is not None and enc == "q" and (b"\r" in text or b"\n" in text):
                    continue
                line = status
                if code is not None:
                    line += b" (" + code + b")"
                if text is not None:
                    line += b" " + (q(text) if enc == "q" else lit(text))
                out.append((line + b"\r\n", code, text))
    r.shuffle(out)
    return out[:n] if n else out


BODIES = [b"keep;\r\n", b"", b"a", b"OK\r\n", b"NO \"x\"\r\nBYE\r\n", b"{5}\r\nhello\r\n", b'"q" ACTIVE\r\n', b"line1\r\nline2", b"\xc3\xa9\xe2\x82\xac\r\n",
          b"x\ny\rz\r\n", b"\r\n\r\n", b"OK", b"{3}", b"#c\r\n" * 40]
NAMES = [b"a", b"main", b'q"uote', b"back\\slash", b"{5}", b"OK", b"NO x", b"BYE", b"ACTIVE", b"x ACTIVE", b"\xc3\xa9t\xc3\xa9", b"sp ace"]


def listing(r, literal_names=False):
    names = r.sample(NAMES, r.randint(0, 5))
    active = r.choice(names) if names and r.random() < 0.6 else None
    out = b""
    for nm in names:
        enc = lit(nm) if (literal_names and r.random() < 0.5) else q(nm)
        out += enc + (b" ACTIVE" if nm == active else b"") + b"\r\n"
    return out, names, active


def cases(r, n_status=6):
    """[(op, args, reply bytes, expectation dict)]"""
    out = []
    one = [("havespace", ("n", 10)), ("putscript", ("n", "keep;")), ("deletescript", ("n",)), ("setactive", ("n",)),
           ("checkscript", ("keep;",)), ("renamescript", ("a", "b"))]
    for op, args in one:
        for st in (b"OK", b"NO", b"BYE"):
            for line, code, text in status_lines(r, st, n_status):
                out.append((op, args, line, {"status": st.decode(), "code": code, "text": text}))
    # every text of the table at least once per status, quoted and as a literal, with and without a code — whatever the sample
    # above happened to pick (the operation rotates)
    k = 0
    for st in (b"OK", b"NO", b"BYE"):
        for text in TEXTS:
            if text is None:
                continue
            for code in (None, b"QUOTA/MAXSIZE"):
                for enc in ("q", "l"):
                    if enc == "q" and (b"\r" in text or b"\n" in text):
                        continue
                    line = st + (b" (" + code + b")" if code else b"") + b" " + (q(text) if enc == "q" else lit(text)) + b"\r\n"
                    op, args = one[k % len(one)]
                    k += 1
                    out.append((op, args, line, {"status": st.decode(), "code": code, "text": text}))
    # every response code of the table at least once in a NO and in an OK, with and without a text (the operation rotates)
    for code in CODES:
        if code is None:
            continue
        for st in (b"NO", b"OK"):
            for text in (None, b"why"):
                line = st + b" (" + code + b")" + (b" " + q(text) if text is not None else b"") + b"\r\n"
                op, args = one[k % len(one)]
                k += 1
                out.append((op, args, line, {"status": st.decode(), "code": code, "text": text}))
    for body in BODIES:
        for line, code, text in status_lines(r, b"OK", 2):
            out.append(("getscript", ("n",), lit(body) + b"\r\n" + line, {"status": "OK", "body": body}))
    for line, code, text in status_lines(r, b"NO", n_status):
        out.append(("getscript", ("n",), line, {"status": "NO", "code": code, "text": text}))
    for k_ in range(18):
        # the last third: names sent as literals (a literal that does not end in CRLF, followed by ` ACTIVE` on the same line)
        l, names, active = listing(r, literal_names=(k_ >= 12))
        for line, code, text in status_lines(r, b"OK", 1):
            out.append(("listscripts", (), l + line, {"status": "OK", "names": names, "active": active}))
    # listings in which the ACTIVE script's name is a literal: the literal does not end in CRLF and ` ACTIVE` follows on its line
    for l in (b'{4}\r\nma"n ACTIVE\r\n"other"\r\nOK\r\n', b'"a"\r\n{3}\r\nxyz ACTIVE\r\nOK "done"\r\n', b'{2}\r\nab ACTIVE\r\n{1}\r\nc\r\nOK\r\n',
              b'{6}\r\n\xc3\xa9t\xc3\xa9\r\n"z" ACTIVE\r\nOK\r\n'):
        out.append(("listscripts", (), l, {"status": "OK", "directed": True}))
    for line, code, text in status_lines(r, b"NO", 3):
        out.append(("listscripts", (), line, {"status": "NO", "code": code, "text": text}))
    out.append(("capability", (), GREETING, {"status": "OK"}))
    # the session's last command: LOGOUT answered OK, NO or — a server closing at once — BYE, in several shapes
    for st in (b"OK", b"NO", b"BYE"):
        for line, code, text in status_lines(r, st, 4):
            out.append(("logout", (), line, {"status": st.decode(), "code": code, "text": text}))
    out.append(("logout", (), b"BYE\r\n", {"status": "BYE", "code": None, "text": None}))
    out.append(("logout", (), b'BYE (REFERRAL "sieve://other.example") "moved"\r\n', {"status": "BYE", "code": b'REFERRAL "sieve://other.example"', "text": b"moved"}))
    return out


SENTINELS = [("havespace", ("s", 1), b'OK "sentinel"\r\n'), ("listscripts", (), b'"s1"\r\n"s2" ACTIVE\r\nOK\r\n')]


def run_case(op, args, reply, sched, greeting=GREETING, sched_connect=None):
    """real client; returns (list of answer strings, list of model request lines)"""
    s = msref.Session()
    reqs, outs = ["c op=new"], ["ok"]
    stream = greeting + AUTH_OK
    outs.append(s.connect(stream, list(sched_connect or []), "user", "pw"))
    reqs.append(msref.req_connect(stream, sched_connect or [], "user", "pw"))
    outs.append(s.op(op, *args, stream=reply, sched=list(sched)))
    reqs.append(msref.req_op(op, *args, stream=reply, sched=list(sched)))
    for sop, sargs, sreply in SENTINELS:
        if "res=error" in outs[-1] or "res=crash" in outs[-1] or "res=hang" in outs[-1]:
            break
        outs.append(s.op(sop, *sargs, stream=sreply, sched=[]))
        reqs.append(msref.req_op(sop, *sargs, stream=sreply, sched=[]))
    return outs, reqs


def schedules(n, r, tier):
    """single cuts, double cuts (short replies), constant caps, random k-way"""
    out = [[k] for k in range(1, n)]
    if n <= (40 if tier == "quick" else 80):
        step = 1 if tier != "quick" else max(1, n // 14)
        out += [[a, b] for a in range(1, n, step) for b in range(1, n - a, step)]
    out += [[c] * (n + 5) for c in (1, 2, 3, 7, 64)]
    for _ in range(6 if tier == "quick" else 30):
        out.append([r.randint(1, 9) for _ in range(n)])
    return out
