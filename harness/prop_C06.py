"""C06 — every script the filter factory generates is valid and self-sufficient."""
from prop_common import *
import gen_factory, oracle_generic, corr_parse
from sievelib.factory import FiltersSet, FilterAlreadyExists
from sievelib.parser import Parser
import prop_C07

RULE = ("filter definitions from the documented condition kinds (header fallback with :is/:contains/:matches and :not forms, string and "
        "list values, exists/notexists, size, envelope, address, body, currentdate with and without relational match, true/false) and "
        "action kinds (fileinto/redirect with :copy/:create/:flags, reject, keep, discard, stop, setflag/addflag/removeflag, vacation with "
        "all its tags), values over an alphabet with quotes, backslashes, commas, brackets, braces, semicolons, '#', CR/LF, comment and "
        "tag look-alikes and non-ASCII; sets reached by add/update/replace/disable/enable/move/remove; the rendering must be accepted by "
        "read-only accessors called in between and at the end; a refused (raising) addfilter / updatefilter in between; the rendering must be accepted by the parser, classified VALID by the independent recogniser, begin with a require naming every extension used (frozen map), and "
        "its token skeleton must equal that of the same definitions with inert placeholders while every string token unquotes to the "
        "supplied value; non-trivial = at least one value with a special character")


def unquote(tok):
    """the string value a token denotes (RFC 5228 §2.4.2): quoted string, or `text:` multi-line literal with dot-unstuffing"""
    if tok[:5].lower() == b"text:":
        body = tok[tok.index(b"\n") + 1:]
        body = body[:-2] if body.endswith(b".\r") else body[:-1]
        return b"".join(l[1:] if l.startswith(b".") else l for l in body.splitlines(keepends=True))
    if not (tok[:1] == b'"' and tok[-1:] == b'"' and len(tok) >= 2):
        return None
    body = tok[1:-1]
    out = bytearray()
    i = 0
    while i < len(body):
        if body[i:i + 1] == b"\\" and i + 1 < len(body):
            out += body[i + 1:i + 2]
            i += 2
        else:
            out += body[i:i + 1]
            i += 1
    return bytes(out)


_ALIAS = []


def build(r, nfilters, hostile):
    """returns (FiltersSet, placeholder FiltersSet, list of per-filter value lists, ok)"""
    fs, ph = FiltersSet("t"), FiltersSet("t")
    allvals = []
    names = []
    for i in range(nfilters):
        conds, acts, mt, n = gen_factory.gen_filter(r)
        vals = [gen_factory.hostile_value(r, gen_factory.PIECES if hostile else gen_factory.SAFE_PIECES) for _ in range(n)]
        pvals = ["p%dx%d" % (i, k) for k in range(n)]
        name = "f%d" % i
        cd, ad = gen_factory.fill(conds, vals), gen_factory.fill(acts, vals)
        fs.addfilter(name, cd, ad, mt)
        if i % 2 == 0:
            # the caller goes on using ITS lists (appends to them, empties them): the set holds what it was given when it was given
            import aliasing
            held = str(fs)
            aliasing.scribble((cd, ad))
            if str(fs) != held:
                _ALIAS.append({"what": "the rendered set changed when the caller changed the lists it had passed to addfilter (no further call on the set)",
                               "input": held[:600], "after": str(fs)[:600]})
        ph.addfilter(name, gen_factory.fill(conds, pvals), gen_factory.fill(acts, pvals), mt)
        allvals.append(dict(zip(pvals, vals)))
        names.append(name)
    # editing operations applied to both in parallel
    for step in range(r.randint(0, 5)):
        op = r.choice(["disable", "enable", "moveup", "movedown", "remove", "disable", "update", "update", "replace", "refused", "refused", "observe", "observe"])
        nm = r.choice(names)
        if op == "observe":
            # read-only accessors: they must not change what the set renders to
            for s_ in (fs, ph):
                for fn in (s_.get_filter_actions, s_.get_filter_conditions, s_.get_filter_matchtype, s_.is_filter_disabled, s_.getfilter, s_.filter_exists):
                    try:
                        fn(nm)
                    except Exception:  # noqa   (read-back of some supported forms raises: C19's business, not C06's)
                        pass
                str(s_)
            continue
        if op == "refused":
            # a call the factory refuses with an exception (the caller catches it and goes on): the set must be unharmed
            bad_acts = r.choice([[("fileinto", ":copy", ":2024 archive")], [("fileinto", ":create", ":x y")], [("redirect", ":create", "a@b.c")],
                                 [("vacation", ":days", "7", "gone")], [("fileinto", ":flags")], [("addflag",)],
                                 [("keep",), ("fileinto", ":copy", ":odd")]])
            conds = [r.choice([("Subject", ":contains", "x"), ("envelope", ":is", ["from"], ["a"]), ("body", ":raw", ":contains", "z"),
                               ("currentdate", ":zone", "+0100", ":is", "date", "2024-01-01")])]
            probe = FiltersSet("probe")
            try:
                probe.addfilter("p", conds, bad_acts, "anyof")
                continue        # the factory accepts this description after all: not a refusal, nothing to exercise
            except Exception:  # noqa
                pass
            for s_ in (fs, ph):
                for how in (lambda: s_.addfilter("refused%d" % step, conds, bad_acts, "anyof"),
                            lambda: s_.updatefilter(nm, nm, conds, bad_acts, "anyof")):
                    try:
                        how()
                    except Exception:  # noqa
                        pass
                    else:
                        # accepted after all: keep both sets in step and the name list current
                        pass
            names[:] = [f["name"] for f in fs.filters] or names
            continue
        if op in ("update", "replace"):
            conds, acts, mt, n = gen_factory.gen_filter(r)
            vals = [gen_factory.hostile_value(r, gen_factory.PIECES if hostile else gen_factory.SAFE_PIECES) for _ in range(n)]
            pvals = ["u%dx%dx%d" % (step, len(allvals), k) for k in range(n)]
            allvals.append(dict(zip(pvals, vals)))
            for s, vv in ((fs, vals), (ph, pvals)):
                if op == "update":
                    s.updatefilter(nm, nm, gen_factory.fill(conds, vv), gen_factory.fill(acts, vv), mt)
                else:
                    tmp = FiltersSet("tmp")
                    tmp.addfilter("x", gen_factory.fill(conds, vv), gen_factory.fill(acts, vv), mt)
                    if s.getfilter(nm) is not None:
                        s.replacefilter(nm, tmp.getfilter("x"))
                        for e in tmp.requires:
                            s.require(e)
            continue
        for s in (fs, ph):
            if op == "disable":
                s.disablefilter(nm)
            elif op == "enable":
                s.enablefilter(nm)
            elif op == "moveup":
                s.movefilter(nm, "up")
            elif op == "movedown":
                s.movefilter(nm, "down")
            elif op == "remove" and len(s.filters) > 1:
                s.removefilter(nm)
    for s_ in (fs, ph):       # and once more at the end, on every filter
        for f_ in list(s_.filters):
            for fn in (s_.get_filter_actions, s_.get_filter_conditions):
                try:
                    fn(f_["name"])
                except Exception:  # noqa
                    pass
    mapping = {}
    for d in allvals:
        mapping.update(d)
    return fs, ph, mapping


def check_set(fs, ph, mapping):
    text = str(fs).encode("utf-8")
    ptext = str(ph).encode("utf-8")
    p = Parser()
    if p.parse(text) is not True:
        return "generated script is rejected by the parser: %s" % p.error, text
    wf = run_driver(["wf " + hx(text)])[0]
    if wf != "valid":
        return "generated script is not strictly valid (recogniser: %s)" % wf, text
    loaded, problems, used = set(), [], []
    for c in p.result:
        prop_C07.walk(c, loaded, problems, used)
    if problems:
        return "extension not required: " + problems[0], text
    if used and p.result[0].name != "require":
        return "script uses extensions but does not begin with require", text
    if any(c.name == "require" for c in p.result[1:]):
        return "require is not the first command", text
    try:
        t1, t2 = oracle_generic.tokenize(text), oracle_generic.tokenize(ptext)
    except oracle_generic.GenericError as e:
        return "generated text does not tokenize: %s" % e, text
    if len(t1) != len(t2):
        return "user values changed the number of tokens (%d vs %d with inert values)" % (len(t1), len(t2)), text
    for (k1, v1), (k2, v2) in zip(t1, t2):
        if k1 != k2:
            return "user values changed the token structure: %s %r where inert values give %s %r" % (k1, v1[:40], k2, v2[:40]), text
        if k1 == "str":
            ph_val = unquote(v2).decode("utf-8")
            if ph_val in mapping:
                if unquote(v1) != mapping[ph_val].encode("utf-8"):
                    return "value %r appears in the script as %r" % (mapping[ph_val], unquote(v1)), text
            elif v1 != v2:
                return "non-user string differs: %r vs %r" % (v1[:40], v2[:40]), text
        elif v1 != v2:
            return "non-string token differs: %r vs %r" % (v1[:40], v2[:40]), text
    return None, text


def run(ctx):
    r = rng("c06")
    n = 400 if ctx.tier == "quick" else 5000
    viol = []
    evals = nontriv = 0
    samples = []
    texts = []
    for i in range(n):
        hostile = i % 4 != 0
        try:
            fs, ph, mapping = build(r, r.randint(1, 3), hostile)
        except Exception as e:  # noqa
            viol.append({"what": "building a filter from a documented definition raised %s: %s" % (type(e).__name__, str(e)[:100])})
            continue
        evals += 1
        nontriv += 1 if hostile else 0
        bad, text = check_set(fs, ph, mapping)
        texts.append(text)
        if bad:
            viol.append({"what": bad, "input_hex": text.hex(), "input": text.decode("utf-8", "replace")[:600], "values": list(mapping.values())[:12]})
        if len(samples) < 2:
            samples.append(text.decode("utf-8", "replace")[:300])
    # witness of KF-C06-1: an action value that starts with ':' is taken as a tag
    try:
        w = FiltersSet("t")
        w.addfilter("w", [("Subject", ":is", "x")], [("fileinto", ":odd folder")])
        p = Parser()
        if p.parse(str(w).encode()) is not True or "odd folder" not in repr([c.arguments for c in p.result[-1].children]):
            raise ValueError("value not preserved")
    except Exception as e:  # noqa
        viol.append({"kf": "colon-value", "what": "action value starting with ':' is not treated as data (%s)" % type(e).__name__})
    # witnesses of repaired defects: each must stay repaired
    for f in findings_for("C06"):
        w = f.get("witness") or {}
        if f.get("status") == "fixed" and "actions" in w:
            try:
                fx = FiltersSet("t")
                fx.addfilter("w", [tuple(c) for c in w["conditions"]], [tuple(a) for a in w["actions"]])
                px = Parser()
                if px.parse(str(fx).encode("utf-8")) is not True:
                    viol.append({"what": "repaired defect %s is back: the rendering of its witness is rejected (%s)" % (f["id"], px.error),
                                 "input": str(fx)[:400]})
                texts.append(str(fx).encode("utf-8"))
                evals += 1
            except Exception as e:  # noqa
                viol.append({"what": "repaired defect %s: witness raised %s" % (f["id"], type(e).__name__)})
    impl, ys, model = corr_parse.eval_both(texts)
    diffs = [{"suite": "parse", "input_hex": t.hex(), "input": t.decode("latin-1")[:300], "impl": a[:300], "model": m[:300]} for t, a, m in zip(texts, impl, model) if a != m]
    # the construction logic itself: real `__create_filter` against its Lean model (the model the theorem of Props/C06 is about)
    import corr_factory
    fdiffs, fn, fclasses = corr_factory.run(rng("c06-factory"), 2500 if ctx.tier == "quick" else 40000)
    diffs += fdiffs
    viol += _ALIAS
    del _ALIAS[:]
    seen, uv = set(), []
    for v in viol:
        k = v["what"][:60]
        if k not in seen:
            seen.add(k)
            uv.append(v)
    fresh, known = split_known("C06", uv, lambda f, v: f.get("match", {}).get("kind") == v.get("kf"))
    return {"evaluations": evals + fn, "distinct_nontrivial": nontriv, "rule": RULE, "samples": samples,
            "suites": {"factory": {"sets": n}, "factory-build": {"descriptions": fn, "outcomes": fclasses}}, "diffs": diffs, "violations": fresh, "known": known}


def replay(ctx, payload):
    print(json.dumps(payload.get("violation"), indent=1)[:3000])
    return 1
