"""Independent implementation of the RFC 5228 §8.1/§8.2 *generic* grammar (no command knowledge).

    tokens:  identifier, tag, number, quoted-string, multi-line, [ ] ( ) { } ; ,   (comments and white space skipped)
    commands  = *command ;  command = identifier arguments (";" / block) ;  block = "{" commands "}"
    arguments = *argument [ test / test-list ] ;  argument = string-list / number / tag
    test      = identifier arguments ;  test-list = "(" test *("," test) ")"

Used by the C03 / C04 oracles: the tree it builds is what "the script as written" means.
"""
import re

WS = b" \t\r\n\x0b\x0c"


class GenericError(Exception):
    pass


def tokenize(t: bytes):
    out = []
    i, n = 0, len(t)
    while i < n:
        c = t[i:i + 1]
        if c in (b" ", b"\t", b"\r", b"\n", b"\x0b", b"\x0c"):
            i += 1
            continue
        if c == b"#":
            j = t.find(b"\n", i)
            i = n if j < 0 else j
            continue
        if t[i:i + 2] == b"/*":
            j = t.find(b"*/", i + 2)
            if j < 0:
                raise GenericError("unterminated comment")
            i = j + 2
            continue
        if c in b"[](){};,":
            out.append((c.decode(), c))
            i += 1
            continue
        if c == b'"':
            j = i + 1
            while True:
                if j >= n:
                    raise GenericError("unterminated string")
                if t[j:j + 1] == b"\\":
                    if j + 1 >= n or t[j + 1:j + 2] == b"\n":
                        raise GenericError("bad escape")
                    j += 2
                    continue
                if t[j:j + 1] == b'"':
                    break
                j += 1
            out.append(("str", t[i:j + 1]))
            i = j + 1
            continue
        if t[i:i + 5] == b"text:":
            # the block ends with the first line consisting of a single dot
            m = re.compile(rb"[\r\n]\.(\r?)(?=\n|\Z)").search(t, i + 5)
            if m is not None:
                end = m.end()
                out.append(("str", t[i:end]))
                i = end
                continue
        m = re.compile(rb"[A-Za-z_][A-Za-z0-9_]*").match(t, i)
        if m:
            out.append(("id", m.group(0)))
            i = m.end()
            continue
        m = re.compile(rb":[A-Za-z_][A-Za-z0-9_]*").match(t, i)
        if m:
            out.append(("tag", m.group(0)))
            i = m.end()
            continue
        m = re.compile(rb"[0-9]+[KMGkmg]?").match(t, i)
        if m:
            out.append(("num", m.group(0)))
            i = m.end()
            continue
        raise GenericError("bad byte at %d" % i)
    return out


class P:
    def __init__(self, toks):
        self.t, self.i = toks, 0

    def peek(self):
        return self.t[self.i][0] if self.i < len(self.t) else None

    def next(self):
        x = self.t[self.i]
        self.i += 1
        return x

    def commands(self, until):
        out = []
        while self.peek() is not None and self.peek() != until:
            out.append(self.command())
        return out

    def command(self):
        if self.peek() != "id":
            raise GenericError("identifier expected")
        name = self.next()[1].lower()
        args = self.arguments()
        if self.peek() == ";":
            self.next()
            return (name, args, None)
        if self.peek() == "{":
            self.next()
            block = self.commands("}")
            if self.peek() != "}":
                raise GenericError("unclosed block")
            self.next()
            return (name, args, block)
        raise GenericError("; or block expected")

    def arguments(self):
        args = []
        while True:
            k = self.peek()
            if k in ("str", "num", "tag"):
                kk, v = self.next()
                args.append((kk, v))
            elif k == "[":
                self.next()
                items = []
                while True:
                    if self.peek() != "str":
                        raise GenericError("string expected in list")
                    items.append(self.next()[1])
                    if self.peek() == ",":
                        self.next()
                        continue
                    if self.peek() == "]":
                        self.next()
                        break
                    raise GenericError("bad list")
                args.append(("list", tuple(items)))
            else:
                break
        if self.peek() == "id":
            args.append(("test", self.test()))
        elif self.peek() == "(":
            self.next()
            tests = [self.test()]
            while self.peek() == ",":
                self.next()
                tests.append(self.test())
            if self.peek() != ")":
                raise GenericError(") expected")
            self.next()
            args.append(("tests", tuple(tests)))
        return tuple(args)

    def test(self):
        if self.peek() != "id":
            raise GenericError("test identifier expected")
        name = self.next()[1].lower()
        return (name, self.arguments())


def parse(text: bytes):
    p = P(tokenize(text))
    cmds = p.commands(None)
    if p.i != len(p.t):
        raise GenericError("trailing tokens")
    return cmds


# ---------------------------------------------------------------- projection of the implementation's tree

def _val(v):
    if isinstance(v, str):
        b = v.encode("utf-8", "surrogatepass")
    else:
        b = bytes(v)
    if b[:1] == b":":
        return ("tag", b)
    if b[:1] == b'"' or b.startswith(b"text:"):
        return ("str", b)
    return ("num", b)


def project_args(cmd, commands_mod):
    out = []
    for k, v in cmd.arguments.items():
        if isinstance(v, commands_mod.Command):
            out.append(("test", project_test(v, commands_mod)))
        elif isinstance(v, list):
            if v and all(isinstance(x, commands_mod.Command) for x in v):
                out.append(("tests", tuple(project_test(x, commands_mod) for x in v)))
            else:
                out.append(("list", tuple(x.encode("utf-8", "surrogatepass") for x in v)))
        else:
            out.append(_val(v))
        if k in cmd.extra_arguments:
            e = cmd.extra_arguments[k]
            if isinstance(e, list):
                out.append(("list", tuple(x.encode("utf-8", "surrogatepass") for x in e)))
            else:
                out.append(_val(e))
    for k in cmd.extra_arguments:
        if k not in cmd.arguments:
            out.append(("orphan-extra", k))
    return tuple(out)


def project_test(cmd, commands_mod):
    return (cmd.name.encode(), project_args(cmd, commands_mod))


def project_command(cmd, commands_mod):
    block = None
    if cmd.accept_children and cmd.get_type() == "control":
        block = [project_command(c, commands_mod) for c in cmd.children]
    elif cmd.children:
        block = [project_command(c, commands_mod) for c in cmd.children]
    return (cmd.name.encode(), project_args(cmd, commands_mod), block)


def project_result(result, commands_mod):
    return [project_command(c, commands_mod) for c in result]


def first_difference(a, b, path="script"):
    """human-readable first difference between two generic trees"""
    if type(a) != type(b):
        return "%s: %r vs %r" % (path, a, b)
    if isinstance(a, (list, tuple)):
        if len(a) != len(b):
            return "%s: %d element(s) written, %d in the result (%r vs %r)" % (path, len(a), len(b), a if len(repr(a)) < 200 else "...", b if len(repr(b)) < 200 else "...")
        for i, (x, y) in enumerate(zip(a, b)):
            d = first_difference(x, y, "%s[%d]" % (path, i))
            if d:
                return d
        return None
    return None if a == b else "%s: written %r, result has %r" % (path, a, b)
