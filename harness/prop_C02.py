"""C02 — parsing always terminates with a verdict."""
import tempfile, subprocess
from prop_common import *
import pyref

RULE = ("exhaustive token sequences over a 61-token vocabulary (pruned by liveness; dead prefixes sampled), grammar-directed valid "
        "scripts with single-token edits, byte mutations (invalid UTF-8, NUL, truncation, class-name identifiers); non-trivial = "
        "accepted with ≥ 2 nodes or rejected after ≥ 4 tokens; distinct by input bytes")


def oracle(text, impl, yields, meta):
    if impl.startswith("accept"):
        pass
    elif impl.startswith("reject "):
        parts = impl.split(" ")
        line = int(parts[1])
        if not (1 <= line <= 1 + text.count(b"\n")):
            return "reported line %d outside 1..%d" % (line, 1 + text.count(b"\n"))
    else:
        return "no verdict: " + impl[:120]
    if yields > 2 * len(text) + 2:
        return "lexer yielded %d tokens for %d bytes" % (yields, len(text))
    return None


def extra_inputs(ctx):
    """str inputs and parse_file"""
    out = []
    from sievelib.parser import Parser
    for s in ["keep;", 'keep "\ud800";', "if true {é}", 'require "fileinto"; fileinto "€";', "\udcff"]:
        st, val = with_watchdog(lambda: Parser().parse(s), 2)
        if st != "ok" or val not in (True, False):
            out.append({"input_hex": s.encode("utf-8", "surrogatepass").hex(), "input": repr(s), "what": "str input: %s %r" % (st, val)})
    for content in [b'require "fileinto";\nfileinto "a";\nfoo;\n', b'require "fileinto";\r\nfileinto "a\r\nb";\r\nfoo;\r\n', b'keep "x\ry";\rfoo;\r',
                    b"", b"# only a comment", b'keep "\xff";', "keep \"é€\";\r\nif true {\r\n stop;\r\n".encode("utf-8"), b"\xef\xbb\xbfkeep;"]:
        with tempfile.NamedTemporaryFile(dir=WORK, suffix=".sieve", delete=False) as f:
            f.write(content)
            path = f.name
        try:
            p = Parser()
            st, val = with_watchdog(lambda: p.parse_file(path), 2)
            p2 = Parser()
            v2 = p2.parse(open(path, "rb").read())
            if st != "ok" or val != v2 or (val is False and (p.error != p2.error or p.error_pos != p2.error_pos)):
                out.append({"input": "parse_file %r" % content[:40], "what": "parse_file differs from parse of the file's bytes: %r %r vs %r %r" % (
                    (st, val), getattr(p, "error", None), v2, getattr(p2, "error", None))})
        finally:
            os.unlink(path)
    return out


WITNESS_CODE = r"""
import sys
sys.path.insert(0, sys.argv[1])
from sievelib import commands
from sievelib.parser import Parser
class FooCommand(commands.ActionCommand):
    args_definition = [{"name": "test", "type": ["test"], "required": True}]
commands.add_commands(FooCommand)
try:
    print("returned", Parser().parse("if true { foo true { } }"))
except Exception as e:
    print("raised", type(e).__name__)
"""


def unsafe_table_witness():
    """the theorem's hypothesis TableSafe is necessary: with a registered *action* that takes a test the model raises
    (C02.unsafe_table_crashes); replayed on the real code in a subprocess (the registry is global).  Informational."""
    try:
        p = subprocess.run(["/venv/bin/python", "-W", "ignore", "-c", WITNESS_CODE, REPO], capture_output=True, text=True, timeout=60)
        return p.stdout.strip().splitlines()[-1] if p.stdout.strip() else "no output: " + p.stderr[-200:]
    except Exception as e:  # noqa
        return "not run: %r" % (e,)


def deep_model_search(depth, cap):
    """liveness-pruned exhaustive search over an 18-token structural vocabulary for model outcomes `crash` / `hang`
    (none exists if the theorem holds); any hit is replayed on the real parser"""
    import deepsearch
    return deepsearch.search(depth, cap)


def run(ctx):
    ctx.notes.append("unsafe-table witness on the real code: " + unsafe_table_witness())
    rec, info = parser_records(ctx)
    viol = []
    for t, a, y, m in zip(rec.text, rec.impl, rec.yields, rec.meta):
        bad = oracle(t, a, y, m)
        if bad:
            viol.append({"input_hex": t.hex(), "input": t.decode("latin-1"), "what": bad, "stream": m["stream"]})
    viol += extra_inputs(ctx)
    import aliasing
    viol += aliasing.file_sequences()
    fresh, known = split_known("C02", viol, lambda f, v: False)
    return std_result(rec, info, fresh, known, RULE)


def search(ctx, broken):
    """obligation or tie broken: deepen against the real code alone"""
    ctx2 = ctx
    old = ctx.tier
    ctx.tier = "thorough"
    try:
        rec, info = parser_records(ctx2, want=("gen", "bytes"))
    finally:
        ctx.tier = old
    out = []
    for t, a, y, m in zip(rec.text, rec.impl, rec.yields, rec.meta):
        bad = oracle(t, a, y, m)
        if bad:
            out.append({"input_hex": t.hex(), "input": t.decode("latin-1"), "what": bad})
    try:
        for t, model_ans, impl_ans in deep_model_search(11, 1500000):
            bad = oracle(t, impl_ans, 0, {})
            if bad:
                out.append({"input_hex": t.hex(), "input": t.decode("latin-1"), "what": bad, "model": model_ans[:100]})
    except Exception:  # noqa
        import traceback
        traceback.print_exc()
    for b in broken:
        d = b.get("detail")
        if isinstance(d, dict) and "input_hex" in d:
            t = bytes.fromhex(d["input_hex"])
            a, y, _ = pyref.parse_answer(t, want_yields=True)
            bad = oracle(t, a, y, {})
            if bad:
                out.insert(0, {"input_hex": t.hex(), "input": t.decode("latin-1"), "what": bad})
    return out


def replay(ctx, payload):
    return replay_parse(ctx, payload, oracle)


def still_fails(ctx, t):
    a, y, _ = pyref.parse_answer(t, want_yields=True)
    return oracle(t, a, y, {}) is not None
