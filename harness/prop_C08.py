"""C08 — each client call puts exactly one well-formed command on the wire."""
import itertools
from prop_common import *
import ms_cases, msref, refserver

RULE = ("every public operation × names/contents over an alphabet of hostile pieces (double quote, backslash, CR, LF, NUL, braces, {n} and "
        "{n+} look-alikes, multi-byte characters, the empty string, ' ACTIVE', 'OK', names equal to the literal / quoted encoding of bodies sent by other calls of the same process) × sizes (short, and 255…70000 octets around the usual limits with a quote or backslash at either end); the bytes given to sendall are decoded by the "
        "strict RFC 5804 server-side decoder and must be exactly one command of the intended verb whose arguments equal the caller's "
        "values; also compared with the Lean model's bytes; non-trivial = value containing at least one special piece")

PIECES = ['"', "\\", "\r", "\n", "\0", "{", "}", "{5}", "{3+}", "é", "€", "😀", " ", "a", "OK", "\r\nLOGOUT\r\n", '" "x', "\\\"", "x" * 40]
VERBS = {"havespace": "HAVESPACE", "putscript": "PUTSCRIPT", "deletescript": "DELETESCRIPT", "setactive": "SETACTIVE", "getscript": "GETSCRIPT",
         "checkscript": "CHECKSCRIPT", "renamescript": "RENAMESCRIPT", "listscripts": "LISTSCRIPTS", "capability": "CAPABILITY", "logout": "LOGOUT"}


def values(r, n):
    out = ["", "plain", "2024", "0", "007", "12 34", "1e3", "١٢٣", '"', "\\", '\\"', "{5}", "{5+}", "a\r\nLOGOUT", "nul\0", 'x" "y', "é€😀", " lead", "trail ", "{0}", "\\\\", '""']
    # values that are the wire encodings of other values (a name equal to the literal / quoted form of a body used elsewhere
    # in the same process): encodings must not be confused with the things they encode, whatever was sent before
    for v in ["", "abc", "keep;\r\n", 'a"b', "é"]:
        out += ["{%d+}\r\n%s" % (len(v.encode("utf-8")), v), "{%d}\r\n%s" % (len(v.encode("utf-8")), v), '"%s"' % v.replace("\\", "\\\\").replace('"', '\\"'), v]
    n += 26
    # long values around the usual size limits, with a character that needs escaping at either end
    for L in [255, 256, 1022, 1023, 1024, 1025, 1026, 2048, 4095, 4097, 8192, 65535, 70000]:
        out += ["x" * (L - 1) + r.choice(['"', "\\"]), r.choice(['"', "\\"]) + "y" * (L - 1), "z" * L]
    n += 39
    while len(out) < n:
        k = r.randint(1, 4)
        out.append("".join(r.choice(PIECES) for _ in range(k)))
    return out


def expected(op, args):
    e = []
    for a in args:
        e.append(("num", a) if isinstance(a, int) else ("str", a.encode("utf-8")))
    return [(VERBS[op], e)]


def run(ctx):
    r = rng("c08")
    vals = values(r, 60 if ctx.tier == "quick" else 400)
    calls = []
    for v in vals:
        calls += [("getscript", (v,)), ("deletescript", (v,)), ("setactive", (v,)), ("havespace", (v, r.choice([0, 1, 42, 10 ** 12]))),
                  ("putscript", (v, r.choice(vals))), ("putscript", ("name", v)), ("checkscript", (v,)), ("renamescript", (v, r.choice(vals))),
                  ("renamescript", ("old", v))]
    calls += [("listscripts", ()), ("capability", ()), ("logout", ())]
    # calls whose complete wire form is exactly a power-of-two number of octets (block sizes a sender may work in): one command
    # means one command at every length
    def wire_len(op, args):
        """length of the one command RFC 5804 prescribes for the call (computed here, not taken from the client)"""
        if op == "putscript":
            n_, b_ = args[0].encode(), args[1].encode()
            return len(b'PUTSCRIPT "%s" {%d+}\r\n' % (n_, len(b_))) + len(b_) + 2
        if op == "checkscript":
            b_ = args[0].encode()
            return len(b"CHECKSCRIPT {%d+}\r\n" % len(b_)) + len(b_) + 2
        return len(b'DELETESCRIPT "%s"\r\n' % args[0].encode())
    sized = 0
    for target in (1024, 2048, 4096, 8192, 12288, 16384, 65536):
        for mk in (lambda L: ("putscript", ("main", "k" * L)), lambda L: ("checkscript", ("c" * L,)), lambda L: ("deletescript", ("d" * L,)),
                   lambda L: ("putscript", ("n" * L, "keep;\r\n"))):
            for L in range(max(target - 60, 1), target):
                op_, args_ = mk(L)
                if wire_len(op_, args_) == target:
                    calls.append((op_, args_))
                    sized += 1
                    break
    ctx.notes.append("calls whose wire form is exactly 1024…65536 octets: %d" % sized)
    viol, lines, expect = [], [], []
    all_written, spec_diffs = [], []
    evals = nontriv = 0
    for op, args in calls:
        reply = b'"x"\r\nOK\r\n' if op in ("listscripts", "capability") else (b"{1}\r\nx\r\nOK\r\n" if op == "getscript" else b"OK\r\n")
        # whatever the server answers — yes, no, "try later", a quota — the call has put ONE command on the wire
        if evals % 5 in (1, 3) and op != "capability":
            reply = [b"NO\r\n", b'NO (TRYLATER) "busy"\r\n', b"NO (TRYLATER)\r\n", b'NO (QUOTA/MAXSIZE) "too big"\r\n', b'NO (NONEXISTENT) {4}\r\ngone\r\n',
                     b'NO (TRYLATER) {5}\r\nlater\r\n'][(evals // 5) % 6]
        s = msref.Session()
        reqs = ["c op=new", msref.req_connect(ms_cases.GREETING + ms_cases.AUTH_OK, [], "user", "pw")]
        outs = ["ok", s.connect(ms_cases.GREETING + ms_cases.AUTH_OK, [], "user", "pw")]
        nw = len(s.wire.writes)
        outs.append(s.op(op, *args, stream=reply, sched=[]))
        reqs.append(msref.req_op(op, *args, stream=reply, sched=[]))
        lines += reqs
        expect += outs
        evals += 1
        if any(any(p in a for p in PIECES[:9]) for a in args if isinstance(a, str)):
            nontriv += 1
        written = b"".join(b for t, b in s.wire.writes[nw:])
        all_written.append(written)
        res = outs[-1].split(" ")[0]
        if res == "res=error":
            if written:
                viol.append({"op": op, "args": repr(args), "what": "call refused with Error but %d bytes were written: %r" % (len(written), written[:80])})
            continue
        try:
            got = refserver.decode_commands(written)
        except refserver.ProtocolViolation as e:
            viol.append({"op": op, "args": repr(args), "written_hex": written.hex(), "what": "bytes on the wire are not a well-formed command: %s | %r" % (e, written[:120])})
            continue
        if got != expected(op, args):
            viol.append({"op": op, "args": repr(args), "written_hex": written.hex(), "what": "wire carries %r, caller asked for %r" % (got, expected(op, args))})
    # text that has no UTF-8 encoding (lone surrogates, as `surrogateescape` / `surrogatepass` decoding produces them): RFC 5804
    # strings are UTF-8, so nothing well-formed can be sent — the call must fail before anything is written
    for bad in ["\udcff", "keep;\udc80\r\n", "\ud800", "a\udfffb", "\udce9t\udce9"]:
        for op, args in [("putscript", ("n", bad)), ("checkscript", (bad,)), ("putscript", (bad, "keep;")), ("getscript", (bad,)),
                         ("deletescript", (bad,)), ("setactive", (bad,)), ("renamescript", (bad, "x")), ("renamescript", ("x", bad)), ("havespace", (bad, 1))]:
            s = msref.Session()
            s.connect(ms_cases.GREETING + ms_cases.AUTH_OK, [], "user", "pw")
            nw = len(s.wire.writes)
            out = s.op(op, *args, stream=b"OK\r\n", sched=[])
            evals += 1
            nontriv += 1
            written = b"".join(b for t, b in s.wire.writes[nw:])
            if written or out.split(" ")[0] in ("res=b1", "res=b0", "res=none") or out.startswith("res=s:"):
                viol.append({"op": op, "args": ascii(args), "written_hex": written.hex(),
                             "what": "an argument that cannot be encoded as UTF-8 was not refused: %s, %d bytes written %r" % (out.split(" ")[0], len(written), written[:60])})
            # … and the refused call leaves nothing behind: the next call on the same client writes its own command, whole and alone
            nw = len(s.wire.writes)
            fop, fargs = r.choice([("deletescript", ('q"uote',)), ("putscript", ("two", "keep;\r\n")), ("havespace", ("n", 7)), ("setactive", ("",))])
            s.op(fop, *fargs, stream=b"OK\r\n", sched=[])
            evals += 1
            follow = b"".join(b for t, b in s.wire.writes[nw:])
            try:
                got = refserver.decode_commands(follow)
            except refserver.ProtocolViolation as e:
                got = "not well-formed: %s" % e
            if got != expected(fop, fargs):
                viol.append({"op": fop, "args": ascii(fargs), "history": "%s%s refused just before on the same client" % (op, ascii(args)), "written_hex": follow.hex(),
                             "what": "after a refused call the next command on the wire is %r, caller asked for %r" % (got if isinstance(got, str) else got, expected(fop, fargs))})
    # the Lean strict decoder (the one the theorem is about) and the Python strict decoder (the oracle) must agree
    dec_inputs = list(all_written)
    for _ in range(300):
        b = r.choice(all_written) if all_written else b"X\r\n"
        k = r.randrange(len(b) + 1)
        dec_inputs.append(b[:k] + r.choice([b'"', b"\\", b" ", b"{3+}\r\nabc", b"\r\n", b"7", b"x", b"\0"]) + b[k:])
    dec_model = run_driver(["dec " + hx(b) for b in dec_inputs], live_table=False)
    for b, m in zip(dec_inputs, dec_model):
        try:
            cmds = refserver.decode_commands(b)
            want = "ok %s %s" % (cmds[0][0].encode().hex(), ",".join(("s:" + (v.hex() or "e")) if t == "str" else "n:%d" % v for t, v in cmds[0][1])) if len(cmds) == 1 else "trailing"
        except refserver.ProtocolViolation:
            want = "bad"
        def canon(x):
            if not x.startswith("ok"):
                return "not-exactly-one-command"
            parts = x.split(" ")
            return "ok %s %s" % (bytes.fromhex(parts[1]).upper().hex(), parts[2] if len(parts) > 2 else "")
        if canon(m) != canon(want):
            spec_diffs.append({"suite": "decoder-spec", "input_hex": b.hex(), "lean": m[:200], "python": want[:200]})
    model = run_driver(lines, live_table=False)
    diffs = [{"suite": "wire", "request": l[:300], "impl": e[:400], "model": m[:400]} for l, e, m in zip(lines, expect, model) if e != m] + spec_diffs
    fresh, known = split_known("C08", viol, lambda f, v: False)
    return {"evaluations": evals, "distinct_nontrivial": nontriv, "rule": RULE, "samples": [{"op": c[0], "args": repr(c[1])[:120]} for c in calls[:3]],
            "suites": {"wire": {"calls": len(calls)}}, "diffs": diffs, "violations": fresh, "known": known}


def replay(ctx, payload):
    print(json.dumps(payload.get("violation"), indent=1)[:2000])
    return 1
