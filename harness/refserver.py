"""Executable reference model of an RFC 5804 ManageSieve server + the strict server-side command decoder.

The decoder is the C08 oracle.  The server is the behavioural reference of C14/C15/C17: an ordered
script store, one active script, reply encodings chosen by a PRNG (quoted / literal strings, with or
without response code and text), state-permitted NO outcomes, and an optional fault plan.
"""
import base64, re


class ProtocolViolation(Exception):
    pass


# ------------------------------------------------------------------------ strict decoder (RFC 5804 §4 ABNF)

def decode_commands(data: bytes):
    """bytes written by a client → [(VERB, [("str"|"num", value), ...])]; raises ProtocolViolation."""
    out = []
    i, n = 0, len(data)
    while i < n:
        m = re.compile(rb"[A-Za-z]+").match(data, i)
        if not m:
            raise ProtocolViolation("command name expected at %d: %r" % (i, data[i:i + 20]))
        verb = m.group(0).upper().decode()
        i = m.end()
        args = []
        while True:
            if data[i:i + 2] == b"\r\n":
                i += 2
                break
            if data[i:i + 1] != b" ":
                raise ProtocolViolation("SP or CRLF expected at %d: %r" % (i, data[i:i + 20]))
            i += 1
            c = data[i:i + 1]
            if c == b'"':
                j = i + 1
                val = bytearray()
                while True:
                    if j >= n:
                        raise ProtocolViolation("unterminated quoted string")
                    ch = data[j:j + 1]
                    if ch == b"\\":
                        nx = data[j + 1:j + 2]
                        if nx not in (b"\\", b'"'):
                            raise ProtocolViolation("bad escape in quoted string")
                        val += nx
                        j += 2
                        continue
                    if ch == b'"':
                        break
                    if ch in (b"\r", b"\n", b"\0"):
                        raise ProtocolViolation("CR/LF/NUL inside quoted string")
                    val += ch
                    j += 1
                args.append(("str", bytes(val)))
                i = j + 1
            elif c == b"{":
                m = re.compile(rb"\{([0-9]+)\+\}\r\n").match(data, i)
                if not m:
                    raise ProtocolViolation("bad literal header at %d: %r" % (i, data[i:i + 20]))
                k = int(m.group(1))
                s = m.end()
                if s + k > n:
                    raise ProtocolViolation("literal announces %d octets, %d available" % (k, n - s))
                args.append(("str", data[s:s + k]))
                i = s + k
            elif c.isdigit():
                m = re.compile(rb"[0-9]+").match(data, i)
                args.append(("num", int(m.group(0))))
                i = m.end()
            else:
                raise ProtocolViolation("argument expected at %d: %r" % (i, data[i:i + 20]))
        out.append((verb, args))
    return out


# ------------------------------------------------------------------------ reply encoding

# a line that begins with a complete quoted string (what the client's listing decoder takes for a quoted name)
QUOTED_PREFIX = re.compile(rb'"(?:[^"\\]|\\.)*"', re.S)


def quote(b: bytes) -> bytes:
    return b'"' + b.replace(b"\\", b"\\\\").replace(b'"', b'\\"') + b'"'


def literal(b: bytes) -> bytes:
    return b"{%d}\r\n%s" % (len(b), b)


def can_quote(b: bytes) -> bool:
    return not any(c in b for c in (b"\r", b"\n", b"\0")) and len(b) < 1024


class Choice:
    """resolves what the RFC leaves open; deterministic given the PRNG"""

    def __init__(self, r, literal_names=False, quoted_body=False):
        self.r = r
        self.literal_names = literal_names
        self.quoted_body = quoted_body

    def string(self, b, allow_literal=True):
        if not can_quote(b) or (allow_literal and self.r.random() < 0.35):
            return literal(b)
        return quote(b)

    def status(self, st, code=None, text=None):
        """status line; text may be None (no text)"""
        out = st
        if code is not None and self.r.random() < 0.9:
            out += b" (" + code + b")"
        elif code is not None:
            code = None
        if text is not None and self.r.random() < 0.8:
            # the human-readable text is free-form (RFC 5804 section 1.2): it may quote the script, so it may hold braces with a number
            # in them, quotes, parentheses or status words — none of which is protocol syntax inside a string
            if self.r.random() < 0.2:
                text = text + self.r.choice([b" near ${1} {2}", b' {7}', b" (see {10+} )", b' "x" OK', b" {3} {4}", b"\\ NO (A) {1}", b"\r\n", b":\r\nline 1: syntax error\r\n", b"\n", b"\r"])
            out += b" " + self.string(text)
        else:
            text = None
        return out + b"\r\n", code, text


class RefServer:
    SCRIPT_VERBS = ("HAVESPACE", "LISTSCRIPTS", "GETSCRIPT", "PUTSCRIPT", "CHECKSCRIPT", "DELETESCRIPT", "RENAMESCRIPT", "SETACTIVE")

    def __init__(self, r, scripts=None, active=None, users=None, caps=None, version=True, starttls=True, sasl=b"PLAIN LOGIN",
                 post_tls_sasl=None, quota=10000, faults=None, literal_names=False, quoted_body=False, greeting_status=b"OK"):
        self.r = r
        self.choice = Choice(r, literal_names, quoted_body)
        self.scripts = dict(scripts or {})      # name(bytes) -> content(bytes); dict order = listing order
        self.active = active
        self.users = users or {b"user": b"pw"}
        self.version, self.starttls_cap, self.sasl, self.post_tls_sasl = version, starttls, sasl, post_tls_sasl
        self.quota = quota
        self.authed = False
        self.tls = False
        self.log = []            # protocol violations observed
        self.commands = []       # every decoded command, tagged with channel and auth state
        self.buf = b""
        self.faults = dict(faults or {})   # VERB -> "NO" | "BYE" | "SILENT"
        self.pending_login = None
        self.last = None         # (code, text) of the last status reply (for oracles)
        self.greeting_status = greeting_status
        self.closed = False
        self.active_marker = b" ACTIVE"     # what follows the active script's name in a listing (dialects: see prop_C14)
        pool = [b'"NOTIFY" "mailto"', b'"LANGUAGE" "fr"', b'"OWNER" "user"', b'"MAXREDIRECTS" "5"', b'"UNAUTHENTICATE"', b'"XSASL" "PLAIN LOGIN"',
                b'"X-STARTTLS"', b'"SIEVE2" "x"', b'"VERSIONS" "9"', b'"sasl2" "GSSAPI"']
        self.extra_caps = r.sample(pool, r.randint(0, 3)) if r.random() < 0.5 else []

    # -- capability block
    def caps(self):
        sasl = self.sasl if not self.tls or self.post_tls_sasl is None else self.post_tls_sasl
        if sasl is False:
            sasl = None       # post_tls_sasl=False: no SASL capability line at all after the handshake
        lines = [b'"IMPLEMENTATION" "refserver"']
        if sasl is not None:
            lines.append(b'"SASL" ' + quote(sasl))
        lines.append(b'"SIEVE" "fileinto vacation"')
        if self.starttls_cap and not self.tls:
            lines.append(b'"STARTTLS"')
        if self.version:
            lines.append(b'"VERSION" "1.0"')
        # capabilities the client has no use for (RFC 5804 section 1.7: NOTIFY, LANGUAGE, OWNER, MAXREDIRECTS, UNAUTHENTICATE, and
        # extensions it cannot know), with and without a value, anywhere in the list: they must not disturb its view
        for extra in self.extra_caps:
            lines.insert(self.r.randrange(0, len(lines) + 1), extra)
        return b"\r\n".join(lines) + b"\r\n"

    def greeting(self):
        return self.caps() + self.greeting_status + b' "ready"\r\n'

    def tls_started(self):
        self.tls = True
        if getattr(self, "post_tls_reply", None) is not None:
            # a server that does not answer the handshake with a usable capability listing (NO, BYE, a listing ending in NO)
            r_ = self.post_tls_reply
            return (self.caps() if r_.startswith(b"+") else b"") + r_.lstrip(b"+")
        return self.caps() + b'OK "TLS negotiation successful."\r\n'

    def st(self, status, code=None, text=None):
        line, code, text = self.choice.status(status, code, text)
        self.last = (status, code, text)
        return line

    # -- input: bytes may contain several commands or a partial one (we only answer complete ones)
    def receive(self, data: bytes) -> bytes:
        if self.closed:
            return b""
        self.buf += data
        out = b""
        while True:
            if self.pending_login is not None:
                k = self.buf.find(b"\r\n")
                if k < 0:
                    return out
                line, self.buf = self.buf[:k], self.buf[k + 2:]
                out += self.login_step(line)
                continue
            try:
                cmds = decode_commands(self.buf)
            except ProtocolViolation as e:
                # incomplete literal / line: wait for more unless it can never become valid
                if b"\r\n" not in self.buf:
                    return out
                msg = str(e)
                if "octets" in msg:
                    return out
                self.log.append(msg)
                self.buf = b""
                return out + self.st(b"NO", None, b"protocol error")
            if not self.buf:
                return out
            self.buf = b""
            for verb, args in cmds:
                out += self.handle(verb, args)
                if self.closed:
                    break
            return out

    def login_step(self, line):
        if self.pending_login == "oauth-failure":
            # RFC 7628 section 3.2.3: after the error challenge the client sends a dummy response, and the server fails the exchange
            self.pending_login = None
            return self.st(b"NO", None, b"Authentication failed (invalid token)")
        try:
            val = base64.b64decode(line.strip(b'"'), validate=True)
        except Exception:  # noqa
            self.log.append("LOGIN: bad base64 line %r" % line)
            self.pending_login = None
            return self.st(b"NO", None, b"bad base64")
        self.pending_login.append(val)
        if len(self.pending_login) == 1:
            return b'"UGFzc3dvcmQ6"\r\n'
        u, p = self.pending_login
        self.pending_login = None
        return self.finish_auth(u, p, "LOGIN")

    def finish_auth(self, user, pw, mech):
        self.auth_attempt = (mech, user, pw)
        if self.faults.get("AUTHENTICATE") == "NO" or self.users.get(user) != pw:
            return self.st(b"NO", None, b"Authentication failed")
        self.authed = True
        return self.st(b"OK", None, b"Logged in.")

    def handle(self, verb, args):
        self.commands.append((verb, args, self.tls, self.authed))
        f = self.faults.get(verb)
        if f == "SILENT":
            return b""
        if f == "LOST":
            # the command is executed but its reply never reaches the client
            del self.faults[verb]
            self.commands.pop()
            try:
                self.handle(verb, args)
            finally:
                self.faults[verb] = "LOST"
            return b""
        if f == "BYE":
            self.closed = True
            return self.st(b"BYE", None, b"going away")
        if f == "NO" and verb != "AUTHENTICATE":
            return self.st(b"NO", b"TRYLATER", b"fault injected")
        if isinstance(f, str) and f.startswith("NO:") and verb != "AUTHENTICATE":
            # refused with a response code of the test's choosing ("NO:" alone: no code at all)
            code = f[3:].encode() or None
            return self.st(b"NO", code, b"refused")
        strs = [a for t, a in args if t == "str"]
        if verb == "CAPABILITY" and not args:
            return self.caps() + self.st(b"OK")
        if verb == "NOOP":
            return self.st(b"OK")
        if verb == "LOGOUT" and not args:
            self.closed = True
            return self.st(b"OK", None, b"bye")
        if verb == "STARTTLS" and not args:
            if self.tls or not self.starttls_cap:
                return self.st(b"NO", None, b"no TLS")
            return self.st(b"OK", None, b"Begin TLS negotiation now.")
        if verb == "AUTHENTICATE":
            if not args or args[0][0] != "str":
                self.log.append("AUTHENTICATE without mechanism")
                return self.st(b"NO")
            mech = args[0][1].upper()
            announced = (self.sasl if not self.tls or self.post_tls_sasl is None else self.post_tls_sasl) or b""
            if mech not in announced.split():
                self.log.append("AUTHENTICATE with unannounced mechanism %r" % mech)
                return self.st(b"NO", None, b"unknown mechanism")
            if mech == b"PLAIN" and len(args) == 2:
                try:
                    raw = base64.b64decode(args[1][1], validate=True)
                    authz, u, p = raw.split(b"\0")
                except Exception:  # noqa
                    self.log.append("PLAIN: malformed initial response")
                    return self.st(b"NO")
                self.last_authz = authz
                return self.finish_auth(u, p, "PLAIN")
            if mech == b"LOGIN" and len(args) == 1:
                self.pending_login = []
                return b'"VXNlcm5hbWU6"\r\n'
            if mech == b"OAUTHBEARER" and len(args) == 2:
                try:
                    raw = base64.b64decode(args[1][1], validate=True)
                    m = re.fullmatch(rb"n,a=([^,]*),\x01auth=Bearer ([^\x01]*)\x01\x01", raw, re.S)
                    u = m.group(1).replace(b"=2C", b",").replace(b"=3D", b"=")
                    tok = m.group(2)
                except Exception:  # noqa
                    self.log.append("OAUTHBEARER: malformed initial response")
                    return self.st(b"NO")
                if getattr(self, "oauth_challenge", False) and self.users.get(u) != tok:
                    # the RFC 7628 way of refusing a token: an error challenge first, NO after the client's dummy response
                    self.auth_attempt = ("OAUTHBEARER", u, tok)
                    self.pending_login = "oauth-failure"
                    return b'"eyJzdGF0dXMiOiJpbnZhbGlkX3Rva2VuIiwic2NvcGUiOiJzaWV2ZSJ9"\r\n'
                return self.finish_auth(u, tok, "OAUTHBEARER")
            self.log.append("AUTHENTICATE %r with %d arguments" % (mech, len(args)))
            return self.st(b"NO")
        if verb in self.SCRIPT_VERBS and not self.authed:
            self.log.append("%s before authentication" % verb)
            return self.st(b"NO", None, b"authenticate first")
        if verb == "HAVESPACE" and len(args) == 2 and args[0][0] == "str" and args[1][0] == "num":
            if args[1][1] > self.quota:
                return self.st(b"NO", b"QUOTA/MAXSIZE", b"Quota exceeded")
            return self.st(b"OK")
        if verb == "LISTSCRIPTS" and not args:
            out = b""
            self.last_listing_literals = []
            for name in self.scripts:
                if self.choice.literal_names == "safe":
                    # every name goes out as a literal, except where the client's reading of literal names is a pinned
                    # finding (KF-C17-1: the active script's line, a name beginning with a complete quoted string)
                    as_literal = name != self.active and not QUOTED_PREFIX.match(name) and b"\r" not in name and b"\n" not in name
                else:
                    as_literal = self.choice.literal_names and self.r.random() < 0.5
                if as_literal:
                    enc = literal(name)
                    self.last_listing_literals.append(name)
                else:
                    enc = quote(name) if can_quote(name) else literal(name)
                out += enc + (self.active_marker if name == self.active else b"") + b"\r\n"
            return out + self.st(b"OK", None, b"Listscripts completed.")
        if verb == "GETSCRIPT" and len(strs) == 1 and len(args) == 1:
            if strs[0] not in self.scripts:
                return self.st(b"NO", b"NONEXISTENT", b"no such script")
            body = self.scripts[strs[0]]
            enc = quote(body) if (self.choice.quoted_body and can_quote(body)) else literal(body)
            return enc + b"\r\n" + self.st(b"OK", None, b"Getscript completed.")
        if verb == "PUTSCRIPT" and len(strs) == 2 and len(args) == 2:
            name, content = strs
            if not name or (any(c < 0x20 for c in name) and not getattr(self, "lax_names", False)):
                return self.st(b"NO", None, b"bad script name")
            if len(content) > self.quota:
                return self.st(b"NO", b"QUOTA/MAXSIZE", b"Quota exceeded")
            if name not in self.scripts and getattr(self, "max_scripts", None) is not None and len(self.scripts) >= self.max_scripts:
                return self.st(b"NO", b"QUOTA/MAXSCRIPTS", b"Too many scripts")
            if b"SYNTAXERROR" in content:
                return self.st(b"NO", None, b"line 1: syntax error")
            self.scripts[name] = content
            if b"WARN" in content:
                return self.st(b"OK", b"WARNINGS", b"line 1: deprecated")
            return self.st(b"OK", None, b"Putscript completed.")
        if verb == "CHECKSCRIPT" and len(strs) == 1 and len(args) == 1:
            if b"SYNTAXERROR" in strs[0]:
                return self.st(b"NO", None, b"line 1: syntax error")
            return self.st(b"OK")
        if verb == "SETACTIVE" and len(strs) == 1 and len(args) == 1:
            if strs[0] == b"":
                self.active = None
                return self.st(b"OK")
            if strs[0] not in self.scripts:
                return self.st(b"NO", b"NONEXISTENT", b"no such script")
            self.active = strs[0]
            return self.st(b"OK", None, b"Setactive completed.")
        if verb == "DELETESCRIPT" and len(strs) == 1 and len(args) == 1:
            if strs[0] not in self.scripts:
                return self.st(b"NO", b"NONEXISTENT", b"no such script")
            if strs[0] == self.active:
                return self.st(b"NO", b"ACTIVE", b"cannot delete the active script")
            del self.scripts[strs[0]]
            return self.st(b"OK", None, b"Deletescript completed.")
        if verb == "RENAMESCRIPT" and len(strs) == 2 and len(args) == 2:
            if not self.version:
                self.log.append("RENAMESCRIPT sent although VERSION was not announced")
                return self.st(b"NO", None, b"unknown command")
            old, new = strs
            if old not in self.scripts:
                return self.st(b"NO", b"NONEXISTENT", b"no such script")
            if new in self.scripts:
                return self.st(b"NO", b"ALREADYEXISTS", b"exists")
            self.scripts = {(new if k == old else k): v for k, v in self.scripts.items()}
            if self.active == old:
                self.active = new
            return self.st(b"OK", None, b"Renamescript completed.")
        self.log.append("unknown or malformed command %s %r" % (verb, args))
        return self.st(b"NO", None, b"unknown command")
