"""C13 — parsing and filter building are independent of history."""
from prop_common import *
import pyref, corr_parse, gen_scripts, factory_scenarios
from sievelib.parser import Parser
from sievelib.factory import FiltersSet

RULE = ("sequences of 2–6 scripts (valid generated, single-edit invalid, truncated mid-construct, differing requires) through ONE reused "
        "Parser with fresh Parsers and FiltersSet scenarios interleaved; systematically, every token prefix of scripts using each stateful "
        "parser feature, followed by each of 11 tail tokens, then 10 probe scripts (lists, comparators, extension-bound tags without their require) on the same Parser; every outcome compared with the history-free model and, for a "
        "sample, with a pristine interpreter; factory scenarios compared with their pristine-interpreter output after each history; "
        "non-trivial = step ≥ 2 of a sequence")


def pristine_factory():
    p = subprocess.run(["/venv/bin/python", "-W", "ignore", os.path.join(VERIF, "harness", "factory_scenarios.py"), REPO],
                       capture_output=True, text=True, timeout=300)
    return json.loads(p.stdout.strip().splitlines()[-1])


def pristine_parse(texts):
    code = ("import sys,json;sys.path.insert(0,%r);sys.path.insert(0,%r)\nimport pyref\n"
            "t=bytes.fromhex(sys.argv[1]);a=pyref.parse_answer(t)\nimport io\nprint(a)" % (os.path.join(VERIF, "harness"), REPO))
    out = []
    for t in texts:
        p = subprocess.run(["/venv/bin/python", "-W", "ignore", "-c", code, t.hex()], capture_output=True, text=True, timeout=60)
        out.append(p.stdout.rstrip("\n").split("\n")[-1] if p.stdout.strip() else "subprocess-failed " + p.stderr[-200:])
    return out


_PRISTINE = {}


def pristine_one(t):
    if t not in _PRISTINE:
        _PRISTINE[t] = pristine_parse([t])[0]
    return _PRISTINE[t]


REFUSED_ACTIONS = [("redirect", ":create", "a@b.c"), ("fileinto", ":copyy", "F"), ("reject", ":mime", "no"), ("vacation", ":nosuch", "away"), ("keep", ":x"),
                   ("setflag", ":copy", "f"), ("addflag", ":flags", "a", "b"), ("discard", ":copy"), ("stop", ":create"), ("redirect",), ("fileinto", ":flags"),
                   ("removeflag", ":create", "x"), ("vacation", ":days"), ("header", "x")]


# every tag that takes a parameter, with the parameter as a single string and as a list where both are legal, twice each in
# different company: these go through the sequences in every order of two (a class-level definition touched while one of them is
# printed shows when the other is parsed next)
DIRECTED = [b'require "body"; if body :content "text" :contains "x" { discard; }', b'require "body"; if body :content ["text", "html"] :contains "x" { keep; }',
            b'if header :comparator "i;octet" :is "a" "b" { keep; }', b'require ["date", "relational"]; if date :zone "+0100" :value "ge" "date" "hour" "09" { keep; }',
            b'require "relational"; if header :count "gt" "a" "3" { stop; }', b'require ["vacation"]; vacation :subject "s" :from "a@b.c" :handle "h" :addresses ["x@y.z"] "r";',
            b'require "body"; if body :raw :contains "x" { keep; }', b'require "date"; if currentdate :originalzone :is "date" "x" { keep; }']


# (script with its require, the same script without it): after the first was accepted — by this Parser or by another one — the
# second must still be refused (a process-wide memo of "what was acceptable" filled by the first shows here; round 17)
PAIRS = []


def script_pool(ctx, n):
    r = rng("c13-pool")
    del PAIRS[:]
    g = gen_scripts.Gen(table_of(ctx), r)
    pool = [b"keep;", b'require "fileinto"; fileinto "a";', b'fileinto "a";', b'require ["regex","relational"]; if header :regex "a" "b" {keep;}',
            b'if header :regex "a" "b" {keep;}', b'require "imap4flags"; if hasflag "a" {keep;} # trailing comment\n', b"# only a comment\n",
            b'if anyof(true, ', b'require ["copy", ', b'if true { keep; ', b'require "vacation"; vacation :subject "x', b"stop; } ", b'keep "\xff";',
            # scripts refused at their very first byte (byte order mark, stray byte, NUL, closing bracket): nothing of an earlier script
            # — its length, its line count — may show in the verdict
            b"\xef\xbb\xbfkeep;", b"\xef\xbb\xbf\xef\xbb\xbf", b"\xffkeep;", b"\x00", b"}", b")", b"]", b'"unterminated', b"text:\nno end",
            b"keep;\n\n\n\nstop;\n\n\n# seven lines\nstop", b"if true {\n keep;\n keep;\n keep;\n}\n\n\nfileinto"]
    for i in range(n):
        toks, need, nreq = g.script(2)
        pool.append(gen_scripts.render(toks, r, "rand"))
        if need and i % 3 == 0:
            pool.append(gen_scripts.render(toks[nreq:], r, "space"))      # same script without its require
            PAIRS.append((pool[-2], pool[-1]))
        if i % 4 == 0:
            k = r.randrange(1, len(toks))
            pool.append(gen_scripts.render(toks[:k]))                      # truncated mid-construct
        if i % 5 == 0:
            k = r.randrange(len(toks))
            pool.append(gen_scripts.render(toks[:k] + [r.choice(corr_parse.VOCAB)] + toks[k:]) + b" # c")
    return pool


def run(ctx):
    r = rng("c13")
    nseq = 400 if ctx.tier == "quick" else 4000
    pool = script_pool(ctx, 150 if ctx.tier == "quick" else 1200)
    pool = pool + [d_ for d_ in DIRECTED if d_ not in pool]
    model = dict(zip(pool, run_driver(["parse " + hx(t) for t in pool])))
    base_factory = pristine_factory()
    viol, diffs = [], []
    evals = nontriv = 0
    samples = []
    directed_seqs = [[a_, b_] for a_ in DIRECTED for b_ in DIRECTED if a_ != b_]
    n_before_pairs = nseq + len(directed_seqs)
    pairs = [(pool[1], pool[2]), (pool[3], pool[4])] + [(d_, d_.split(b"; ", 1)[1]) for d_ in DIRECTED if d_.startswith(b"require")] + PAIRS
    for w_, wo_ in pairs:
        if wo_ not in model:
            model[wo_] = run_driver(["parse " + hx(wo_)])[0]
        directed_seqs += [[w_, wo_], [w_, b"keep;", wo_], [w_, wo_, w_, wo_]]
    r_state = None
    for s in range(nseq + len(directed_seqs)):
        if s == n_before_pairs:
            r_state = r.getstate()      # the sequences added for the pairs leave the random stream of everything after them alone
        seq = [r.choice(pool) for _ in range(r.randint(2, 6))] if s < nseq else directed_seqs[s - nseq]
        reused = Parser()
        standby = [Parser(), Parser()]      # objects created before the sequence starts and used somewhere in it
        hist = []
        for i, t in enumerate(seq):
            which = r.random()
            p = reused if which < 0.6 else (r.choice(standby) if which < 0.8 else Parser())
            a = pyref.parse_answer(t, parser=p)
            evals += 1
            nontriv += 1 if i >= 1 else 0
            ser = None
            if a.startswith("accept"):
                try:
                    ser = pyref.tosieve_text(p.result)
                except Exception as e:  # noqa
                    ser = "tosieve raised " + type(e).__name__
                fresh = Parser()
                fresh_ok = fresh.parse(t)
                ser_fresh = pyref.tosieve_text(fresh.result) if fresh_ok else None
                if ser != ser_fresh:
                    viol.append({"history_hex": [h.hex() for h in hist], "input_hex": t.hex(), "input": t.decode("latin-1"),
                                 "what": "serialisation after this history differs from a fresh parser's"})
                # what is BUILT from the parse is independent of the history too: the filter set loaded from this Parser object
                # is the one loaded from a fresh Parser given the same script
                def loaded(px):
                    try:
                        fx = FiltersSet("h")
                        fx.from_parser_result(px)
                        return str(fx)
                    except Exception as e:  # noqa
                        return "from_parser_result raised %s" % type(e).__name__
                if fresh_ok and i >= 1 and loaded(p) != loaded(fresh):
                    viol.append({"history_hex": [h.hex() for h in hist], "history": [h.decode("latin-1") for h in hist], "input_hex": t.hex(), "input": t.decode("latin-1"),
                                 "what": "the filter set loaded from the reused Parser (%s) differs from the one loaded from a fresh Parser (%s)" % (
                                     loaded(p)[:80], loaded(fresh)[:80])})
            if a != model[t]:
                d = {"suite": "hist", "history_hex": [h.hex() for h in hist], "input_hex": t.hex(), "input": t.decode("latin-1"), "impl": a[:300], "model": model[t][:300]}
                diffs.append(d)
                # what this script gives with nothing before it: a fresh Parser here — or, should the whole process be affected
                # (class-level tables), a pristine interpreter
                alone = pyref.parse_answer(t, parser=Parser())
                if alone == a and len(_PRISTINE) < 40:
                    alone = pristine_one(t)
                if alone != a:
                    viol.append({"history_hex": [h.hex() for h in hist], "history": [h.decode("latin-1") for h in hist], "input_hex": t.hex(),
                                 "input": t.decode("latin-1"), "what": "outcome depends on history: after history %s, alone %s" % (a[:120], alone[:120])})
            hist.append(t)
            if r.random() < 0.1:
                # FiltersSet calls the factory REFUSES (an action given a tag it does not have, a test as action, a missing
                # argument): each raises, and none of them may leave anything behind — in the set or in the process
                refused = 0
                for bad_acts in REFUSED_ACTIONS:
                    try:
                        FiltersSet("refused").addfilter("r", [("Subject", ":is", "x")], [bad_acts], "anyof")
                    except Exception as e_:  # noqa
                        refused += type(e_).__module__.startswith("sievelib")
                if not refused:
                    raise RuntimeError("none of the calls meant to be refused was refused by the library: the harness is broken")
                hist.append(b"# (refused FiltersSet calls: %d)" % len(REFUSED_ACTIONS))
            if r.random() < 0.15:
                order = list(range(len(base_factory)))
                r.shuffle(order)
                got = factory_scenarios.run_all(order)
                evals += len(got)
                if got != base_factory:
                    bad = [(x, y) for x, y in zip(got, base_factory) if x != y][0]
                    viol.append({"history_hex": [h.hex() for h in hist], "history": [h.decode("latin-1") for h in hist],
                                 "what": "FiltersSet scenario %r differs from the pristine interpreter: %r vs %r" % (bad[0][0], bad[0][1:3], bad[1][1:3])})
        if s < 3:
            samples.append([t.decode("latin-1") for t in seq])
    if r_state is not None:
        r.setstate(r_state)
    # systematic part: a parse that FAILS at every possible point of scripts using every stateful parser feature (argument
    # re-assignment / lexer rewind, require, brackets, lists, multi-line text, comments), followed on the same Parser by probes
    BASES = [b'require "imap4flags"; if hasflag "\\\\Seen" { keep; }', b'require "imap4flags"; if anyof (hasflag "x", hasflag ["a","b"]) { keep; }',
             b'require "imap4flags"; if not hasflag "v" "f" { stop; }', b'require ["fileinto","copy"]; fileinto :copy "a"; # c\n',
             b'if allof (true, not false) { keep; } else { stop; }', b'require "vacation"; vacation :days 3 text:\nx\n.\n;',
             b'if header :comparator "i;octet" ["a","b"] "c" { /* c */ keep; }', b'require "imap4flags"; addflag ["a","b"]; keep :flags "x";',
             b'require ["comparator-i;ascii-numeric", "relational", "regex"]; keep;', b'require "comparator-i;ascii-numeric"; stop;',
             b'require ["fileinto", "copy", "envelope"]; if envelope ["from", "to"] ["a", "b"] { fileinto :copy "x"; }']
    TAILS = [b"", b"{", b",", b")", b";", b"}", b"(", b"]", b'"s"', b":tag", b"foo"]
    PROBES = [b"# first\nkeep;", b'require "fileinto"; fileinto "a";', b"if true { keep; }", b"keep;",
              b'require ["fileinto"]; if header ["a", "b"] ["c"] { fileinto "d"; }', b'if header :comparator "i;ascii-numeric" "a" "1" { keep; }',
              b'if header :regex "a" "b" { keep; }', b'if header :count "gt" "a" "1" { keep; }', b'keep :flags "x";', b'fileinto :copy "a";']
    probe_alone = {q: pyref.parse_answer(q, parser=Parser()) for q in PROBES}
    for base in BASES:
        import oracle_generic
        toks = [v for _, v in oracle_generic.tokenize(base)]
        for k in range(1, len(toks) + 1):
            for tail in TAILS:
                first = b" ".join(toks[:k] + ([tail] if tail else []))
                for q in PROBES:
                    p = Parser()
                    a1 = pyref.parse_answer(first, parser=p)
                    a = pyref.parse_answer(q, parser=p)
                    evals += 1
                    nontriv += 1
                    if a != probe_alone[q]:
                        viol.append({"history_hex": [first.hex()], "history": [first.decode("latin-1")], "input_hex": q.hex(), "input": q.decode("latin-1"),
                                     "what": "outcome depends on history: after %r (%s) the probe gives %s, alone %s" % (
                                         first.decode("latin-1")[-60:], a1[:40], a[:100], probe_alone[q][:100])})
    # values that are legal for one command's argument and not for the same-named argument of another command (derived from
    # the live table): a use of the first must not make the second acceptable, in this process, on any Parser
    table = table_of(ctx)
    byname = {}
    for d in table:
        for a_ in d["args"]:
            if a_["values"] and "tag" in a_["types"]:
                byname.setdefault(a_["name"], []).append((d, a_))
    allexts = sorted({d["extension"] for d in table if d["extension"]} | {a_["extension"] for d in table for a_ in d["args"] if a_.get("extension")}
                     | {e for d in table for a_ in d["args"] for _, e in a_["extValues"]})
    req_all = b"require [" + b",".join(b'"%s"' % e.encode() for e in allexts) + b"];\n"
    g2 = gen_scripts.Gen(table, r)

    def minimal_use(d, a_, tag):
        toks = [d["name"].encode(), tag.encode()]
        ex = a_.get("extra")
        if ex and (not ex.get("validFor") or tag in ex["validFor"]):
            toks.append((ex.get("values") or ['"x"'])[0].encode())
        for ra in d["args"]:
            if ra["required"]:
                if ra["types"] == ["test"]:
                    toks.append(b"true")
                elif ra["types"] == ["testlist"]:
                    toks += [b"(", b"true", b")"]
                else:
                    toks += g2.required_value(ra)
        body = b" ".join(toks)
        return req_all + (b"if " + body + b" { keep; }" if d["kind"] == "test" else body + b";")

    npairs = 0
    for name, users in byname.items():
        for (da, aa) in users:
            for (db, ab) in users:
                if da is db:
                    continue
                for tag in [v for v in aa["values"] if v not in (ab["values"] or []) and v not in [k for k, _ in ab["extValues"]]]:
                    first, probe = minimal_use(da, aa, tag), minimal_use(db, ab, tag)
                    alone = pristine_one(probe)
                    for same_parser in (True, False):
                        p1 = Parser()
                        pyref.parse_answer(first, parser=p1)
                        a = pyref.parse_answer(probe, parser=(p1 if same_parser else Parser()))
                        evals += 1
                        nontriv += 1
                        npairs += 1
                        if a != alone:
                            viol.append({"history_hex": [first.hex()], "history": [first.decode("latin-1")], "input_hex": probe.hex(), "input": probe.decode("latin-1"),
                                         "what": "outcome depends on history: after a use of %s %s, `%s %s` gives %s; in a pristine interpreter %s" % (
                                             da["name"], tag, db["name"], tag, a[:80], alone[:80])})
    # a REFUSED use of each command (first argument of the wrong kind: number, unknown tag, string, list, test), then valid uses of
    # the same command — on the same Parser and on a fresh one: what a command accepts, and where it files its arguments, is
    # fixed by its definition, not by what was tried before (reference: the history-free Lean model, and for a sample the
    # pristine interpreter)
    def use_of(d):
        need = set()
        toks, reqs = g2.args(d, need)
        body = [d["name"].encode()] + toks
        for ra in reqs:
            if ra["types"] == ["test"]:
                body.append(b"true")
            elif ra["types"] == ["testlist"]:
                body += [b"(", b"true", b",", b"false", b")"]
            else:
                body += g2.required_value(ra)
        return body
    refused_cases = []
    for d in table:
        if d.get("mustFollow") or d.get("special") not in (None, "none") or d["name"] in ("require",):
            continue
        uses = []
        for _ in range(3):
            b_ = b" ".join(use_of(d))
            if d["kind"] == "test":
                uses.append(req_all + b"if " + b_ + b" { keep; }")
            elif d["acceptChildren"]:
                uses.append(req_all + b_ + b" { keep; }")
            else:
                uses.append(req_all + b_ + b";")
        for bad in (b"10", b":nosuchtag", b'"s"', b'["a","b"]', b"true", b":comparator"):
            head = d["name"].encode() + b" " + bad
            first = req_all + (b"if " + head + b" { keep; }" if d["kind"] == "test" else head + (b" { keep; }" if d["acceptChildren"] else b";"))
            refused_cases.append((d["name"], first, uses))
    probe_set = sorted({u for _, _, us in refused_cases for u in us})
    probe_model = dict(zip(probe_set, run_driver(["parse " + hx(t) for t in probe_set])))
    for cname, first, uses in refused_cases:
        for same_parser in (True, False):
            p1 = Parser()
            a1 = pyref.parse_answer(first, parser=p1)
            for u in uses:
                a = pyref.parse_answer(u, parser=(p1 if same_parser else Parser()))
                evals += 1
                nontriv += 1
                if a != probe_model[u]:
                    alone = pristine_one(u)
                    if a != alone:
                        viol.append({"history_hex": [first.hex()], "history": [first.decode("latin-1")], "input_hex": u.hex(), "input": u.decode("latin-1"),
                                     "what": "outcome depends on history: after the refused %r (%s) a use of %s gives %s; in a pristine interpreter %s" % (
                                         first.decode("latin-1")[-50:], a1[:40], cname, a[:100], alone[:100])})
                    else:
                        diffs.append({"suite": "hist", "history_hex": [first.hex()], "input_hex": u.hex(), "input": u.decode("latin-1"), "impl": a[:300], "model": probe_model[u][:300]})
    # loading a parsed script into a FiltersSet must use THAT script, whatever was parsed (by another object) in between
    A = b'require ["fileinto", "copy"];\n# Filter: one\nif anyof (header :is "Subject" "x") {\n    fileinto :copy "F";\n}\n'
    for B in [b"keep;", b'require ["envelope"]; if envelope :is "from" "a" { stop; }', b"if true {", b'require "imap4flags"; addflag "x";', b""]:
        pa, pb = Parser(), Parser()
        pa.parse(A)
        pb.parse(B)
        fsx = FiltersSet("t")
        fsx.from_parser_result(pa)
        evals += 1
        nontriv += 1
        if sorted(fsx.requires) != ["copy", "fileinto"] or [f["name"] for f in fsx.filters] != ["one"]:
            viol.append({"history_hex": [A.hex(), B.hex()], "history": [A.decode(), B.decode()], "what": "a FiltersSet loaded from a parsed script depends on what another "
                         "Parser parsed in between: requires %r, filters %r" % (fsx.requires, [f["name"] for f in fsx.filters])})
    # pristine-interpreter comparison for a sample of scripts (guards the in-process reference itself)
    sample = r.sample(pool, 25 if ctx.tier == "quick" else 200)
    pr = pristine_parse(sample)
    for t, a in zip(sample, pr):
        evals += 1
        if a != model[t]:
            diffs.append({"suite": "hist-pristine", "input_hex": t.hex(), "impl": a[:300], "model": model[t][:300]})
    # dedupe
    # filter BUILDING is independent of what the same definition objects were used for before: every scenario's definition, as
    # tuples and as lists, used for a first set, then — the very same objects — for a second set and for an update; each
    # result must be what a private copy of the definition gives
    import aliasing, copy
    for name, conds, acts, mt in factory_scenarios.scenarios():
        for as_lists in (False, True):
            cd, ad = (aliasing.listify(conds), aliasing.listify(acts)) if as_lists else (conds, acts)
            priv = copy.deepcopy((cd, ad))
            try:
                ref = FiltersSet("t"); ref.addfilter("f", priv[0], priv[1], mt)
                want = str(ref)
            except Exception as e:  # noqa
                want = "raised " + type(e).__name__
            outs = []
            for k_ in range(3):
                try:
                    fsx = FiltersSet("t")
                    if k_ < 2:
                        fsx.addfilter("f", cd, ad, mt)
                    else:
                        fsx.addfilter("f", [("Subject", ":is", "placeholder")], [("keep",)])
                        fsx.updatefilter("f", "f", cd, ad, mt)
                        # the placeholder may have left a require behind: compare the filter text only
                    outs.append(str(fsx))
                except Exception as e:  # noqa
                    outs.append("raised " + type(e).__name__)
            evals += 3
            body = lambda s_: s_[s_.find("# Filter:"):] if "# Filter:" in s_ else s_
            for k_, o in enumerate(outs):
                if body(o) != body(want):
                    viol.append({"what": "scenario %s (%s): use number %d of the same definition objects builds %r, a private copy builds %r" % (
                        name, "lists" if as_lists else "tuples", k_ + 1, body(o)[:120], body(want)[:120])})
                    break
    seen, uv = set(), []
    for v in viol:
        k = (v.get("input_hex"), v["what"][:60])
        if k not in seen:
            seen.add(k)
            uv.append(v)
    fresh, known = split_known("C13", uv, lambda f, v: False)
    return {"evaluations": evals, "distinct_nontrivial": nontriv, "rule": RULE, "samples": samples,
            "suites": {"hist": {"sequences": nseq, "pool": len(pool), "factory_scenarios": len(base_factory)}},
            "diffs": diffs, "violations": fresh, "known": known}


def replay(ctx, payload):
    v = payload.get("violation") or {}
    if "input_hex" not in v:
        print(json.dumps(payload, indent=1)[:3000])
        return 1
    p = Parser()
    for h in v.get("history_hex", []):
        p.parse(bytes.fromhex(h))
    t = bytes.fromhex(v["input_hex"])
    a = pyref.parse_answer(t, parser=p)
    b = pyref.parse_answer(t, parser=Parser())
    print("after history:", a[:300])
    print("fresh parser :", b[:300])
    return 1 if a != b else 0
