"""C04 — print/parse round trip."""
from prop_common import *
import pyref, corr_parse
from sievelib.parser import Parser
from sievelib import commands

RULE = ("every ACCEPTED input of the parse suite (exhaustive token sequences, generated scripts over a value set that targets quoting: "
        "escaped quotes and backslashes, brackets, commas, newlines, non-ASCII, multi-line text: blocks with LF and CRLF, lists): "
        "tosieve() must succeed, its output must be accepted, parse to the same tree (arguments compared by name: the printer emits "
        "definition order) and print to the same text again; the text is also compared with the Lean serializer; "
        "non-trivial = accepted with ≥ 2 nodes")


def canon(c):
    def val(v):
        if isinstance(v, commands.Command):
            return canon(v)
        if isinstance(v, list):
            return [val(x) for x in v]
        return v
    return (c.name, sorted(((k, val(v)) for k, v in c.arguments.items()), key=lambda kv: kv[0]),
            sorted(((k, val(v)) for k, v in c.extra_arguments.items()), key=lambda kv: kv[0]), [canon(ch) for ch in c.children])


def roundtrip(text):
    """returns (problem or None, printed text or None)"""
    p = Parser()
    if p.parse(text) is not True:
        return None, None
    try:
        s1 = pyref.tosieve_text(p.result)
    except Exception as e:  # noqa
        return "tosieve() raised %s: %s" % (type(e).__name__, str(e)[:80]), None
    p2 = Parser()
    try:
        ok = p2.parse(s1)
    except Exception as e:  # noqa
        return "re-parsing the printed text raised %s" % type(e).__name__, s1
    if ok is not True:
        return "printed text is rejected: %s | printed: %r" % (p2.error, s1[:200]), s1
    if [canon(c) for c in p.result] != [canon(c) for c in p2.result]:
        return "printed text parses to a different tree | printed: %r" % s1[:200], s1
    s2 = pyref.tosieve_text(p2.result)
    if s2 != s1:
        return "printing is not a fixed point: %r then %r" % (s1[:120], s2[:120]), s1
    return None, s1


def _ser_worker(chunk):
    return run_driver(["ser " + hx(t) for t in chunk])


def run(ctx):
    rec, info = parser_records(ctx)
    acc = [t for t, a in zip(rec.text, rec.impl) if a.startswith("accept")]
    acc = list(dict.fromkeys(acc))
    viol, printed = [], []
    for t in acc:
        bad, s1 = roundtrip(t)
        printed.append(s1)
        if bad:
            viol.append({"input_hex": t.hex(), "input": t.decode("latin-1"), "what": bad})
    cs = corr_parse.chunks(acc, corr_parse.NPROC * 2)
    model = [x for c in corr_parse.pool().map(_ser_worker, cs) for x in c] if acc else []
    diffs = rec.diffs()
    for t, s1, m in zip(acc, printed, model):
        want = ("ok " + (s1.encode("utf-8", "surrogatepass").hex() or "e")) if s1 is not None else "crash"
        if m != want:
            diffs.append({"suite": "ser", "input_hex": t.hex(), "input": t.decode("latin-1"), "impl": want[:300], "model": m[:300]})
    table = table_of(ctx)

    tdict = {d["name"]: d for d in table}

    def matcher(f, v):
        if f.get("match", {}).get("kind") == "optional-tag-slot-filled-twice":
            import oracle_generic, prop_C03
            try:
                return prop_C03.repeats_slot(oracle_generic.parse(bytes.fromhex(v["input_hex"])), tdict)
            except oracle_generic.GenericError:
                return False
        if f.get("match", {}).get("kind") == "trailing-tag-without-parameter":
            return v["what"].startswith("printed text is rejected") and trailing_tag_without_param(bytes.fromhex(v["input_hex"]), table)
        return False
    import aliasing
    r_ = rng("c04-held")
    held_src = r_.sample(acc, min(len(acc), 80 if ctx.tier == "quick" else 800))
    others = [b'require "fileinto"; fileinto ["a"];', b'keep; stop "x";', b'require ["imap4flags", "vacation"]; addflag ["x", "y"]; vacation :addresses ["a@b.c"] "gone";', b"if true { foo"]
    for v in aliasing.held_results(held_src, others):
        viol.append(v)
    fresh, known = split_known("C04", viol, matcher)
    res = std_result(rec, info, fresh, known, RULE, {"ser": {"accepted_scripts": len(acc)}}, diffs=diffs)
    res["distinct_nontrivial"] = sum(1 for t in acc if len(t.split()) >= 3)
    return res


def replay(ctx, payload):
    def oracle(t, impl, y, m):
        return roundtrip(t)[0]
    return replay_parse(ctx, payload, oracle)
