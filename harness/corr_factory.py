"""`factory` correspondence suite: FiltersSet.__create_filter on generated descriptions, the real code against the Lean model
(`Model/Factory.lean`, driver op `fb`): the requirement list after the call and the command tree built (or the error class)."""
from common import *
import pyref, gen_factory
from sievelib import commands
from sievelib.factory import FiltersSet

TAGS = [":is", ":contains", ":matches", ":regex", ":count", ":value", ":REGEX", ":Is", ":notis", ":notregex", ":notnot", ":comparator", ":bogus", "is", ":all", ":notcontains"]
MATCHTYPES = ["anyof", "allof", "anyof", "allof", "ANYOF", "Allof", "true", "bogus", "hasflag", "not", "if", "", "envelope"]
WILD_VALUES = ["x", "", '"q"', "'s", ":colon", "not me", "notes", "a\\b", 'a"b', "é€", "[x,y]", "text:\n.\n", "é", "A"]


def enc_item(x):
    if isinstance(x, bool) or not isinstance(x, (str, int, list)):
        raise ValueError("not encodable: %r" % (x,))
    if isinstance(x, int):
        if x < 0:
            raise ValueError("negative")
        return "n%d" % x
    if isinstance(x, list):
        if not all(isinstance(y, str) for y in x):
            raise ValueError("list item")
        return "l" + "+".join((y.encode("utf-8").hex() or "e") for y in x)
    return "s" + (x.encode("utf-8").hex() or "e")


def enc_tuples(ts):
    if not ts:
        return "-"
    return "|".join((";".join(enc_item(x) for x in t) if len(t) else "_") for t in ts)


def hexlist(l):
    return ",".join((x.encode("utf-8").hex() or "e") for x in l) or "-"


def request(conds, acts, mt, gl, reqs):
    return "fb gl=%s reqs=%s mt=%s conds=%s acts=%s" % (hexlist(gl), hexlist(reqs), mt.encode("utf-8").hex() or "e", enc_tuples(conds), enc_tuples(acts))


def cfg_line():
    with open(os.path.join(VERIF, ".cache", "generated.json")) as f:
        fd = json.load(f).get("factory") or {"match_ext": {}, "arg_ext": {}}
    pl = lambda d: ",".join("%s:%s" % (k.encode().hex(), v.encode().hex()) for k, v in d.items()) or "-"
    return "fcfg match=%s arg=%s" % (pl(fd["match_ext"]), pl(fd["arg_ext"]))


def real_build(conds, acts, mt, gl, reqs):
    saved = commands.RequireCommand.loaded_extensions
    commands.RequireCommand.loaded_extensions = list(gl)
    fs = FiltersSet("t")
    fs.requires = list(reqs)
    try:
        st, val = with_watchdog(lambda: fs._FiltersSet__create_filter(conds, acts, mt), 3)
    finally:
        commands.RequireCommand.loaded_extensions = saved
    if st == "ok":
        import io
        t = io.StringIO()
        try:
            val.tosieve(target=t)
            ser = t.getvalue().encode("utf-8").hex() or "e"
        except Exception:  # noqa
            ser = "crash"
        res = "ok " + pyref.node_sexpr(val) + " ser=" + ser
    elif st == "hang":
        res = "hang"
    else:
        e = val
        if isinstance(e, commands.UnknownCommand):
            res = "err unknownCommand " + pyref.hexs(e.name)
        elif isinstance(e, commands.ExtensionNotLoaded):
            res = "err extNotLoaded " + pyref.hexs(e.name)
        elif isinstance(e, commands.BadArgument):
            res = "err badArgument " + pyref.hexs(e.command)
        elif isinstance(e, commands.BadValue):
            res = "err badValue " + str(e.argument)
        else:
            res = "err crash"
    return "reqs=%s res=%s" % (",".join((x.encode("utf-8").hex() or "e") for x in fs.requires), res)


def documented(r):
    """a definition of the documented kinds with hostile values"""
    conds, acts, mt, n = gen_factory.gen_filter(r)
    vals = [gen_factory.hostile_value(r) if r.random() < 0.8 else r.choice(WILD_VALUES) for _ in range(n)]
    return gen_factory.fill(conds, vals), gen_factory.fill(acts, vals), mt


def wild(r):
    """documented shapes with tags, names, match type and arity varied: what the factory refuses or silently drops must be
    refused / dropped by the model in the same way"""
    conds, acts, mt = documented(r)
    conds, acts = [list(c) for c in conds], [list(a) for a in acts]
    for _ in range(r.randint(1, 3)):
        k = r.random()
        if k < 0.25 and conds:
            c = r.choice(conds)
            idx = [i for i, x in enumerate(c) if isinstance(x, str) and x.startswith(":")]
            if idx:
                c[r.choice(idx)] = r.choice(TAGS)
        elif k < 0.4:
            mt = r.choice(MATCHTYPES)
        elif k < 0.55 and acts:
            a = r.choice(acts)
            idx = [i for i, x in enumerate(a) if isinstance(x, str) and x.startswith(":")]
            if idx:
                i = r.choice(idx)
                a[i] = r.choice([a[i].upper(), a[i].capitalize(), ":copy", ":create", ":flags", ":seconds", ":days", ":mime", ":bogus", ":COPY"])
            else:
                a.insert(1, r.choice([":copy", ":create", ":flags", ":mime", ":handle", ":Copy"]))
        elif k < 0.65 and acts:
            r.choice(acts)[0] = r.choice(["Fileinto", "KEEP", "bogus", "require", "if", "true", "notify", "", "vacation", "reject", "stop"])
        elif k < 0.75 and acts:
            r.choice(acts).append(r.choice(["extra", 7, ["l1", "l2"], ":is"]))
        elif k < 0.85 and conds:
            c = r.choice(conds)
            if len(c) > 1:
                del c[r.randrange(1, len(c))]
        elif k < 0.92 and conds:
            r.choice(conds).append(r.choice(["more", ["a", "b"], 3]))
        else:
            if conds:
                c = r.choice(conds)
                if isinstance(c[0], str):
                    c[0] = r.choice(["not" + c[0], c[0].upper(), "nottrue", "notsize", "notes", "true", "size", "exists", "envelope", "body", "currentdate", "address"])
    return [tuple(c) for c in conds], [tuple(a) for a in acts], mt


def encodable(conds, acts):
    try:
        enc_tuples(conds), enc_tuples(acts)
        return True
    except ValueError:
        return False


def unmodelled_shape(conds, acts):
    """shapes the model answers `crash` for although Python does something else (a `str` where the factory iterates: it would
    quote the characters one by one) — outside the documented kinds, not generated"""
    for c in conds:
        if c and isinstance(c[0], str):
            nm = c[0][3:] if c[0].startswith("not") else c[0]
            if nm == "envelope" and any(isinstance(x, str) for x in c[2:4]):
                return True
    return False


def run(r, n):
    """returns (diffs, count, classes)"""
    cases = []
    exts = ["fileinto", "envelope", "body", "date", "copy", "vacation", "imap4flags", "relational", "regex", "mailbox", "reject", "vacation-seconds"]
    for i in range(n):
        conds, acts, mt = documented(r) if i % 3 else wild(r)
        if not encodable(conds, acts):
            continue
        gl = [] if i % 4 else r.sample(exts, r.randint(1, 4))
        reqs = [] if i % 5 else r.sample(exts, r.randint(1, 3))
        cases.append((conds, acts, mt, gl, reqs))
    lines = [cfg_line()] + [request(*c) for c in cases]
    got = run_driver(lines)
    diffs, classes = [], {}
    for c, m in zip(cases, got[1:]):
        if m.endswith("res=err unmodelled"):
            classes["unmodelled (skipped)"] = classes.get("unmodelled (skipped)", 0) + 1
            continue
        try:
            a = real_build(*c)
        except Exception as e:  # noqa — the private construction routine this correspondence drives no longer has the shape the model
            # was written against (a refactoring may be harmless): the tie is broken, the property is decided by the search
            diffs.append({"suite": "factory-build", "conditions": repr(c[0])[:300], "actions": repr(c[1])[:300], "matchtype": c[2], "loaded": c[3], "requires": c[4],
                          "impl": "the construction routine FiltersSet.__create_filter cannot be driven as modelled: %s: %s" % (type(e).__name__, str(e)[:200]),
                          "model": m[:500]})
            break
        cls = a.split(" res=")[1].split(" ")[0:2]
        key = " ".join(cls[:2]) if cls[0] == "err" else "ok"
        classes[key] = classes.get(key, 0) + 1
        if a != m:
            diffs.append({"suite": "factory-build", "conditions": repr(c[0])[:300], "actions": repr(c[1])[:300], "matchtype": c[2], "loaded": c[3], "requires": c[4],
                          "impl": a[:500], "model": m[:500]})
    return diffs, len(cases), classes


if __name__ == "__main__":
    import sys
    d, n, cl = run(rng("factory-main"), int(sys.argv[1]) if len(sys.argv) > 1 else 500)
    print("cases", n, "diffs", len(d), "classes", json.dumps(cl, sort_keys=True))
    for x in d[:8]:
        print(json.dumps(x, indent=1, ensure_ascii=False)[:1800])
