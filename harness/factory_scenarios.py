"""Factory scenarios used by the C13 history suite (and reused by factory properties)."""
import sys, json, io


def scenarios():
    S = []
    add = lambda name, conds, acts, mt="anyof": S.append((name, conds, acts, mt))
    add("hdr-is", [("Subject", ":is", "x")], [("fileinto", "F")])
    add("hdr-regex", [("Subject", ":regex", "^a")], [("keep",)])
    add("hdr-notregex", [("Subject", ":notregex", "^a")], [("discard",)])
    add("hdr-count", [("Subject", ":count", "1")], [("stop",)])
    add("hdr-contains-list", [(["To", "Cc"], ":contains", ["a", "b"])], [("redirect", "a@b.c")])
    add("exists", [("exists", "X-A", "X-B")], [("keep",)])
    add("notexists", [("notexists", "X-A")], [("keep",)])
    add("size", [("size", ":over", "100K")], [("discard",)])
    add("envelope", [("envelope", ":is", ["From"], ["a@b"])], [("fileinto", ":copy", "F")])
    add("envelope-regex", [("envelope", ":regex", ["From"], ["a.*"])], [("fileinto", ":create", "F")])
    add("address", [("address", ":is", "From", "a@b")], [("reject", "no")])
    add("address-regex", [("address", ":notregex", ["From"], ["a.*"])], [("keep",)])
    add("body", [("body", ":raw", ":contains", "x")], [("keep",)])
    add("body-regex", [("body", ":text", ":regex", "x")], [("keep",)])
    add("currentdate", [("currentdate", ":zone", "+0100", ":is", "date", "2020-01-01")], [("keep",)])
    add("currentdate-value", [("currentdate", ":zone", "+0100", ":value", "ge", "date", "2020-01-01")], [("keep",)])
    add("true", [("true",)], [("vacation", ":subject", "s", ":days", 3, "reason")], "allof")
    add("vacation-seconds", [("false",)], [("vacation", ":seconds", 5, "r")])
    add("flags", [("Subject", ":matches", "*")], [("fileinto", ":flags", "\\Seen", "F"), ("addflag", "\\Flagged"), ("setflag", ["a", "b"])])
    return S


LOADS = [
    ("load-unnamed", b'require "fileinto";\nif header :is "Subject" "x" {\n    fileinto "F";\n}\nif header :contains "To" "y" {\n    keep;\n}\n'),
    ("load-mixed", b'# Filter: named\nif true {\n    keep;\n}\nif false {\n    if header :is "A" "b" {\n        discard;\n    }\n}\nkeep;\n'),
    ("load-one", b'if size :over 100K {\n    discard;\n}\n'),
    ("load-requires", b'require ["envelope", "copy", "fileinto"];\n# Description: only a description\nif envelope :is "from" "a@b" {\n    fileinto :copy "F";\n}\n'),
]


def run_all(order=None):
    """every scenario in a FiltersSet of its own; `order` (a permutation of the scenario indices) only changes the order in
    which they are run — the result, listed in the canonical order, must not depend on it"""
    from sievelib.factory import FiltersSet
    from sievelib.parser import Parser
    jobs = [("build", x) for x in scenarios()] + [("load", x) for x in LOADS]
    idx = list(range(len(jobs))) if order is None else list(order)
    res = {}
    for i in idx:
        kind, job = jobs[i]
        if kind == "build":
            name, conds, acts, mt = job
            fs = FiltersSet("t")
            try:
                fs.addfilter(name, conds, acts, mt)
                fs.addfilter(name + "2", conds, acts, mt)
                fs.disablefilter(name + "2")
                res[i] = [name, "ok", str(fs), list(fs.requires)]
            except Exception as e:  # noqa
                res[i] = [name, "exc", type(e).__name__, str(e)[:80]]
        else:
            name, text = job
            try:
                p = Parser()
                ok = p.parse(text)
                fs = FiltersSet("t")
                fs.from_parser_result(p)
                res[i] = [name, "ok" if ok else "rejected", str(fs), list(fs.requires), [[f["name"], f.get("description", ""), f["enabled"]] for f in fs.filters]]
            except Exception as e:  # noqa
                res[i] = [name, "exc", type(e).__name__, str(e)[:80]]
    return [res[i] for i in range(len(jobs))]


if __name__ == "__main__":
    sys.path.insert(0, sys.argv[1])
    print(json.dumps(run_all()))
