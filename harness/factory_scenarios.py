"""Factory scenarios used by the C13 history suite (and reused by factory properties)."""
import sys, json, io


def scenarios():
    S = []
    add = lambda name, conds, acts, mt="anyof": S.append((name, conds, acts, mt))
    add("hdr-is", [("Subject", ":is", "x")], [("fileinto", "F")])
    add("hdr-regex", [("Subject", ":regex", "^a")], [("keep",)])
    add("hdr-notregex", [("Subject", ":notregex", "^a")], [("discard",)])
    add("hdr-count", [("Subject", ":count", "1")], [("stop",)])
    add("hdr-contains-list", [(["To", "Cc"], ":contains", ["a", "b"])], [("redirect", "a@b.c")])
    add("exists", [("exists", "X-A", "X-B")], [("keep",)])
    add("notexists", [("notexists", "X-A")], [("keep",)])
    add("size", [("size", ":over", "100K")], [("discard",)])
    add("envelope", [("envelope", ":is", ["From"], ["a@b"])], [("fileinto", ":copy", "F")])
    add("envelope-regex", [("envelope", ":regex", ["From"], ["a.*"])], [("fileinto", ":create", "F")])
    add("address", [("address", ":is", "From", "a@b")], [("reject", "no")])
    add("address-regex", [("address", ":notregex", ["From"], ["a.*"])], [("keep",)])
    add("body", [("body", ":raw", ":contains", "x")], [("keep",)])
    add("body-regex", [("body", ":text", ":regex", "x")], [("keep",)])
    add("currentdate", [("currentdate", ":zone", "+0100", ":is", "date", "2020-01-01")], [("keep",)])
    add("currentdate-value", [("currentdate", ":zone", "+0100", ":value", "ge", "date", "2020-01-01")], [("keep",)])
    add("true", [("true",)], [("vacation", ":subject", "s", ":days", 3, "reason")], "allof")
    add("vacation-seconds", [("false",)], [("vacation", ":seconds", 5, "r")])
    add("flags", [("Subject", ":matches", "*")], [("fileinto", ":flags", "\\Seen", "F"), ("addflag", "\\Flagged"), ("setflag", ["a", "b"])])
    return S


def run_all():
    from sievelib.factory import FiltersSet
    out = []
    for name, conds, acts, mt in scenarios():
        fs = FiltersSet("t")
        try:
            fs.addfilter(name, conds, acts, mt)
            fs.addfilter(name + "2", conds, acts, mt)
            fs.disablefilter(name + "2")
            out.append([name, "ok", str(fs), list(fs.requires)])
        except Exception as e:  # noqa
            out.append([name, "exc", type(e).__name__, str(e)[:80]])
    return out


if __name__ == "__main__":
    sys.path.insert(0, sys.argv[1])
    print(json.dumps(run_all()))
