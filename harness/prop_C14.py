"""C14 — emulated rename never loses or overwrites a script."""
import itertools
from prop_common import *
import msref, refserver

RULE = ("server without RENAMESCRIPT (no VERSION capability): every initial state class (old / new name absent, present, active; a bystander "
        "script; bodies with LF, CRLF, CR, no final newline, protocol look-alike lines) × every fault placement (LISTSCRIPTS, GETSCRIPT, "
        "PUTSCRIPT, SETACTIVE, DELETESCRIPT answered NO, BYE or not at all — the command either not executed or executed with its reply lost; none) × reply encodings chosen by PRNG, against the reference "
        "server; the store before/after is compared; every call is replayed on the Lean model; non-trivial = old script present")

BODIES = [b"keep;\r\n", b"line1\nline2\n", b"a\r\nb", b"OK\r\nNO\r\n{3}\r\n", b"", b"x\ry\r\n", b"\xc3\xa9\r\n",
          # characters that are line breaks for str.splitlines but not for the protocol (VT, FF, FS, NEL, LS, PS): content, not line ends
          b'vacation "a\x0bb\x0cc";\r\n', "# d\u2028e\u2029f\u0085g\r\nkeep;\r\n".encode("utf-8"), b"x\x1cy\x1dz\x1e\r\n",
          b"\xef\xbb\xbfkeep;\r\n\xef\xbb\xbfstop;\r\n"]
STEPS = ["LISTSCRIPTS", "GETSCRIPT", "PUTSCRIPT", "SETACTIVE", "DELETESCRIPT"]


def norm(body):
    lines = body.splitlines()
    while lines and lines[-1] == b"":
        lines.pop()
    return lines


def judge(before, after, active_before, active_after, old, new, res):
    probs = []
    for n, c in before.items():
        if n != old:
            if n not in after:
                probs.append("script %r (not the one being renamed) was deleted" % n)
            elif after[n] != c:
                probs.append("script %r (not the one being renamed) was modified/overwritten" % n)
    if old in before:
        want = norm(before[old])
        ok_old = old in after and norm(after[old]) == want
        ok_new = new in after and norm(after[new]) == want and new not in before
        if old == new:
            if not ok_old:
                probs.append("renaming a script to its own name lost or changed it")
        elif not (ok_old or ok_new):
            probs.append("the script being renamed survives under neither name with its content")
    if res not in ("b1", "b0", "error"):
        probs.append("failure surfaced as %s, not as False or Error" % res)
    if res == "b1" and old == new:
        if (active_after == old) != (active_before == old):
            probs.append("returned True for a rename onto itself but activity changed")
    elif res == "b1":
        if old in after and old != new:
            probs.append("returned True but the old name still exists")
        if old not in before:
            probs.append("returned True although the old script did not exist")
        elif new not in after or norm(after[new]) != norm(before[old]):
            probs.append("returned True but the new name does not hold the old content")
        if (active_after == new) != (active_before == old):
            probs.append("returned True but activity was not carried over (active before: %r, after: %r)" % (active_before, active_after))
    return probs


def _h(b):
    return b.hex() or "e"


def ren_request(before, abefore, fault, old, new):
    """the same call on the abstract walk of Model/Rename.lean (driver op `ren`)"""
    return "ren old=%s new=%s active=%s scripts=%s faults=%s" % (
        _h(old), _h(new), "-" if abefore is None else _h(abefore),
        ";".join("%s:%s" % (_h(n), _h(c)) for n, c in before.items()) or "-",
        ("%s:%s" % (fault[0], fault[1].split(":")[0])) if fault else "-")


def ren_canon(res, scripts, active):
    """result, active script, names in listing order with their content line by line (line ends aside)"""
    return "res=%s active=%s scripts=%s" % (res, "-" if active is None else _h(active),
                                            ";".join("%s:%s" % (_h(n), _h(b"\n".join(norm(c)))) for n, c in scripts.items()) or "-")


def ren_parse(line):
    f = dict(x.split("=", 1) for x in line.split(" ") if "=" in x)
    sc = {}
    if f.get("scripts", "-") != "-":
        for e in f["scripts"].split(";"):
            n, c = e.split(":")
            sc[bytes.fromhex(n) if n != "e" else b""] = bytes.fromhex(c) if c != "e" else b""
    act = None if f.get("active", "-") == "-" else (bytes.fromhex(f["active"]) if f["active"] != "e" else b"")
    return ren_canon(f.get("res", "?"), sc, act)


def run(ctx):
    r = rng("c14")
    ren_reqs, ren_impl, ren_what = [], [], []
    viol, lines, expect = [], [], []
    evals = nontriv = 0
    samples = []
    old, new, other = b"old", b"new name", b"bystander"
    states = []
    for o in ("absent", "inactive", "active"):
        for n in ("absent", "inactive", "active"):
            if o == "active" and n == "active":
                continue
            for by in (False, True):
                states.append((o, n, by))
    faults = [None] + [(st, f) for st in STEPS for f in ("NO", "BYE", "SILENT", "LOST")]
    reps = 2 if ctx.tier == "quick" else 12
    for (o, n, by), fault in itertools.product(states, faults):
        for rep in range(reps):
            scripts = {}
            if by:
                scripts[other] = r.choice(BODIES)
            if o != "absent":
                scripts[old] = r.choice(BODIES)
            if n != "absent":
                scripts[new] = r.choice(BODIES)
            active = old if o == "active" else (new if n == "active" else (other if by and r.random() < 0.3 else None))
            if fault and fault[1] == "NO" and rep % 2:
                # the refusal carries a response code of its own (NONEXISTENT, ACTIVE, …) or none: a NO is a NO
                fault = (fault[0], "NO:" + r.choice(["NONEXISTENT", "ACTIVE", "ALREADYEXISTS", "QUOTA/MAXSCRIPTS", ""]))
            srv = refserver.RefServer(r, scripts=scripts, active=active, version=False, faults=dict([fault]) if fault else {})
            s = msref.Session()
            g = srv.greeting()
            c_out = s.connect(b"", [], "user", "pw", server=srv)
            reqs = ["c op=new", msref.req_connect(g, [], "user", "pw", later=list(s.wire.segments))]
            outs = ["ok", c_out]
            before, abefore = dict(srv.scripts), srv.active
            nseg = len(s.wire.segments)
            out = s.op("renamescript", old.decode(), new.decode())
            reqs.append(msref.req_op("renamescript", old.decode(), new.decode(), later=list(s.wire.segments[nseg:])))
            outs.append(out)
            lines += reqs
            expect += outs
            evals += 1
            nontriv += 1 if o != "absent" else 0
            res = out.split(" ")[0][4:]
            res = "crash" if res.startswith("crash") else res
            ren_reqs.append(ren_request(before, abefore, fault, old, new))
            ren_impl.append(ren_canon(res, srv.scripts, srv.active))
            ren_what.append("old=%s new=%s bystander=%s fault=%s" % (o, n, by, fault))
            for p in judge(before, dict(srv.scripts), abefore, srv.active, old, new, res):
                viol.append({"state": "old=%s new=%s bystander=%s" % (o, n, by), "fault": fault, "what": p, "result": out[:80],
                             "before": {k.decode(): v.decode("latin-1") for k, v in before.items()}, "after": {k.decode(): v.decode("latin-1") for k, v in srv.scripts.items()}})
            if srv.log:
                viol.append({"state": "old=%s new=%s" % (o, n), "fault": fault, "what": "server protocol log: %r" % srv.log})
            if len(samples) < 3:
                samples.append({"state": [o, n, by], "fault": fault, "result": out[:60]})
    # renaming a script to its own name (a legal call): nothing may be lost
    for o in ("inactive", "active"):
        for by in (False, True):
            for fault in [None] + [(st, f) for st in STEPS for f in ("NO", "LOST")]:
                scripts = {old: r.choice(BODIES)}
                if by:
                    scripts[other] = r.choice(BODIES)
                srv = refserver.RefServer(r, scripts=scripts, active=(old if o == "active" else None), version=False, faults=dict([fault]) if fault else {})
                s = msref.Session()
                g = srv.greeting()
                c_out = s.connect(b"", [], "user", "pw", server=srv)
                reqs = ["c op=new", msref.req_connect(g, [], "user", "pw", later=list(s.wire.segments))]
                outs = ["ok", c_out]
                before, abefore = dict(srv.scripts), srv.active
                nseg = len(s.wire.segments)
                out = s.op("renamescript", old.decode(), old.decode())
                reqs.append(msref.req_op("renamescript", old.decode(), old.decode(), later=list(s.wire.segments[nseg:])))
                outs.append(out)
                lines += reqs
                expect += outs
                evals += 1
                nontriv += 1
                res = out.split(" ")[0][4:]
                res = "crash" if res.startswith("crash") else res
                ren_reqs.append(ren_request(before, abefore, fault, old, old))
                ren_impl.append(ren_canon(res, srv.scripts, srv.active))
                ren_what.append("self-rename old=%s bystander=%s fault=%s" % (o, by, fault))
                for p in judge(before, dict(srv.scripts), abefore, srv.active, old, old, res):
                    viol.append({"state": "self-rename old=%s bystander=%s" % (o, by), "fault": fault, "what": p, "result": out[:80],
                                 "before": {k.decode(): v.decode("latin-1") for k, v in before.items()}, "after": {k.decode(): v.decode("latin-1") for k, v in srv.scripts.items()}})
    # other names, and a server that sends the names of its listing as literals: the "does the new name exist" decision
    # rests on the listing being read exactly
    NAME_SETS = [(b"lists\\dev", b"lists\\prod", b"by\\st"), (b'say "hi"', b'say "bye"', b'q"'), ("ét\u00e9".encode(), "\u20ac".encode(), b"x y"),
                 (b"a\\b", b"ab", b"a\\\\b"), (b"ab", b"a\\b", b"a"), (b"{5}", b"OK", b"NO x"),
                 # names that are parts of each other (old / new inside the bystander's name and the reverse)
                 (b"vac", b"archive", b"vacation"), (b"a", b"b", b"ab"), (b"vacation", b"vac", b"v"), (b"x", b"xy", b"xyz"),
                 # a server that is lax about names (control characters other than CR, LF, NUL are legal inside a quoted string)
                 (b"plain", b"my\tscript", b"o\x01ther"), (b"a\x7fb", b"old\x7fcopy", b"x"), (b"tab\there", b"plain", b"\x1f")]
    for (old_, new_, other_), lit in itertools.product(NAME_SETS, (False, "safe")):
        for (o, n, by) in states:
            scripts = {}
            if by:
                scripts[other_] = r.choice(BODIES)
            if o != "absent":
                scripts[old_] = r.choice(BODIES)
            if n != "absent":
                scripts[new_] = r.choice(BODIES)
            # … the bystander being the active script when neither of the two names is
            active = old_ if o == "active" else (new_ if n == "active" else (other_ if by else None))
            srv = refserver.RefServer(r, scripts=scripts, active=active, version=False, literal_names=lit)
            srv.lax_names = True
            s = msref.Session()
            g = srv.greeting()
            c_out = s.connect(b"", [], "user", "pw", server=srv)
            reqs = ["c op=new", msref.req_connect(g, [], "user", "pw", later=list(s.wire.segments))]
            outs = ["ok", c_out]
            before, abefore = dict(srv.scripts), srv.active
            nseg = len(s.wire.segments)
            out = s.op("renamescript", old_.decode(), new_.decode())
            reqs.append(msref.req_op("renamescript", old_.decode(), new_.decode(), later=list(s.wire.segments[nseg:])))
            outs.append(out)
            lines += reqs
            expect += outs
            evals += 1
            nontriv += 1 if o != "absent" else 0
            res = out.split(" ")[0][4:]
            res = "crash" if res.startswith("crash") else res
            ren_reqs.append(ren_request(before, abefore, None, old_, new_))
            ren_impl.append(ren_canon(res, srv.scripts, srv.active))
            ren_what.append("names %r→%r old=%s new=%s bystander=%s literal-listing=%s" % (old_, new_, o, n, by, lit))
            for p in judge(before, dict(srv.scripts), abefore, srv.active, old_, new_, res):
                viol.append({"state": "names %r→%r old=%s new=%s bystander=%s literal-listing=%s" % (old_, new_, o, n, by, lit), "fault": None, "what": p, "result": out[:80],
                             "before": {k.decode(): v.decode("latin-1") for k, v in before.items()}, "after": {k.decode(): v.decode("latin-1") for k, v in srv.scripts.items()}})
            if srv.log:
                viol.append({"state": "names %r→%r" % (old_, new_), "fault": None, "what": "server protocol log: %r" % srv.log})
    # listing dialects: how servers in the field write the ACTIVE marker (RFC 5804 makes the word case-insensitive; stray blanks
    # around it are harmless deviations).  Only SAFETY is judged here — a client that refused such a listing with Error would be
    # right too; what it must never do is overlook the active script and write over it
    for marker in (b" ACTIVE", b" active", b" Active", b"  ACTIVE", b" ACTIVE ", b" ACTIVE\t", b"\tactive  "):
        for (o, n, by) in states:
            scripts = {}
            if by:
                scripts[other] = r.choice(BODIES)
            if o != "absent":
                scripts[old] = r.choice(BODIES)
            if n != "absent":
                scripts[new] = r.choice(BODIES)
            active = old if o == "active" else (new if n == "active" else (other if by else None))
            srv = refserver.RefServer(r, scripts=scripts, active=active, version=False)
            srv.active_marker = marker
            s = msref.Session()
            g = srv.greeting()
            c_out = s.connect(b"", [], "user", "pw", server=srv)
            reqs = ["c op=new", msref.req_connect(g, [], "user", "pw", later=list(s.wire.segments))]
            outs = ["ok", c_out]
            before, abefore = dict(srv.scripts), srv.active
            nseg = len(s.wire.segments)
            out = s.op("renamescript", old.decode(), new.decode())
            reqs.append(msref.req_op("renamescript", old.decode(), new.decode(), later=list(s.wire.segments[nseg:])))
            outs.append(out)
            lines += reqs
            expect += outs
            evals += 1
            nontriv += 1 if o != "absent" else 0
            res = out.split(" ")[0][4:]
            res = "crash" if res.startswith("crash") else res
            ren_reqs.append(ren_request(before, abefore, None, old, new))
            ren_impl.append(ren_canon(res, srv.scripts, srv.active))
            ren_what.append("marker %r old=%s new=%s bystander=%s" % (marker, o, n, by))
            for p in judge(before, dict(srv.scripts), abefore, srv.active, old, new, res):
                viol.append({"state": "marker %r old=%s new=%s bystander=%s" % (marker, o, n, by), "fault": None, "what": p, "result": out[:80],
                             "before": {k.decode(): v.decode("latin-1") for k, v in before.items()}, "after": {k.decode(): v.decode("latin-1") for k, v in srv.scripts.items()}})
    # the caller LISTS first and edits the list it got (takes names out, adds some — `Session.op` does that to every returned
    # list), then renames: the rename decides on the server's state, not on the caller's copy of an earlier answer
    for k_ in range(8):
        for new_exists in (True, False):
            scripts = {other: b"stop;\r\n", old: b"keep;\r\n"}
            if new_exists:
                scripts[new] = b"# keep me\r\ndiscard;\r\n"
            srv = refserver.RefServer(r, scripts=scripts, active=other, version=False)
            s = msref.Session()
            s.connect(b"", [], "user", "pw", server=srv)
            import aliasing
            for j_ in range(1 + k_ // 4):
                aliasing._MODE[0] = k_ % 4 + 4 * j_ - 1      # which edit the caller makes to the list it gets back: each of the four in turn
                s.op("listscripts")
            before, abefore = dict(srv.scripts), srv.active
            out = s.op("renamescript", old.decode(), new.decode())
            evals += 1
            nontriv += 1
            res = out.split(" ")[0][4:]
            res = "crash" if res.startswith("crash") else res
            for p in judge(before, dict(srv.scripts), abefore, srv.active, old, new, res):
                viol.append({"state": "listscripts (the caller edits the list it got back) then renamescript; new name %s" % ("exists" if new_exists else "free"),
                             "fault": None, "what": p, "result": out[:80], "before": {k.decode(): v.decode("latin-1") for k, v in before.items()},
                             "after": {k.decode(): v.decode("latin-1") for k, v in srv.scripts.items()}})
    # the call REPEATED on the same client after it failed (a user retrying), the store having changed in between: each call is
    # judged on its own against the store it found — what an earlier attempt did or learnt gives no licence to overwrite
    for step in ("PUTSCRIPT", "SETACTIVE", "DELETESCRIPT", "GETSCRIPT"):
        for fault in ("NO", "BYE-then-reconnect"):
            for change in ("foreign script under the new name", "old script edited", "nothing"):
                for was_active in (False, True):
                    scripts = {old: b"keep;\r\n", other: b"stop;\r\n"}
                    srv = refserver.RefServer(r, scripts=scripts, active=(old if was_active else other), version=False)
                    srv.faults = {step: "NO" if fault == "NO" else "BYE"}
                    s = msref.Session()
                    s.connect(b"", [], "user", "pw", server=srv)
                    first = s.op("renamescript", old.decode(), new.decode())
                    srv.faults = {}
                    if fault != "NO":
                        srv.closed = False
                        s.connect(b"", [], "user", "pw", server=srv)
                    if change == "foreign script under the new name":
                        srv.scripts[new] = b"# somebody else's\r\ndiscard;\r\n"
                    elif change == "old script edited" and old in srv.scripts:
                        srv.scripts[old] = b"keep; # edited\r\n"
                    before, abefore = dict(srv.scripts), srv.active
                    out = s.op("renamescript", old.decode(), new.decode())
                    evals += 1
                    nontriv += 1
                    res = out.split(" ")[0][4:]
                    res = "crash" if res.startswith("crash") else res
                    for p in judge(before, dict(srv.scripts), abefore, srv.active, old, new, res):
                        viol.append({"state": "second renamescript on the same client; the first was answered %s at %s (%s); then: %s; old was %sactive" % (
                            fault, step, first.split(" ")[0], change, "" if was_active else "not "), "fault": None, "what": p, "result": out[:80],
                            "before": {k.decode(): v.decode("latin-1") for k, v in before.items()}, "after": {k.decode(): v.decode("latin-1") for k, v in srv.scripts.items()}})
    model = run_driver(lines, live_table=False)
    diffs = [{"suite": "client", "request": l[:300], "impl": e[:300], "model": m[:300]} for l, e, m in zip(lines, expect, model) if e != m]
    # the abstract walk (the object of `emulated_rename_is_safe`) against what the real client did to the reference server's store
    ren_model = [ren_parse(x) for x in run_driver(ren_reqs, live_table=False)]
    diffs += [{"suite": "rename-store", "case": w, "request": q[:300], "impl": a[:300], "model": m[:300]}
              for w, q, a, m in zip(ren_what, ren_reqs, ren_impl, ren_model) if a != m]
    seen, uv = set(), []
    for v in viol:
        k = (v.get("state"), str(v.get("fault")), v["what"])
        if k not in seen:
            seen.add(k)
            uv.append(v)
    fresh, known = split_known("C14", uv, lambda f, v: False)
    return {"evaluations": evals, "distinct_nontrivial": nontriv, "rule": RULE, "samples": samples,
            "suites": {"rename-store": {"cases": len(ren_reqs)}, "client": {"states": len(states), "fault_placements": len(faults)}}, "diffs": diffs, "violations": fresh, "known": known}


def replay(ctx, payload):
    print(json.dumps(payload.get("violation"), indent=1)[:2000])
    return 1
