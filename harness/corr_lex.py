"""`lex` correspondence suite: Lean Lex.lex vs sievelib.parser.Lexer.scan (DESIGN §7.2)."""
import itertools, re, sys
from common import *
from sievelib.parser import Parser, Lexer, ParseError

_WS = re.compile(rb"\s+", re.M)


def ref_answer(t: bytes) -> str:
    L = Lexer(Parser.lrules)
    out = []
    try:
        for k, v in L.scan(t):
            out.append("%s:%d:%d" % (k, L.pos, len(v)))
    except ParseError:
        tok = t[L.pos:]
        m = _WS.search(tok)
        if m:
            tok = tok[: m.start()]
        return "err %s at=%d tok=%s" % (",".join(out), L.pos, tok.hex())
    return "ok %s end=%d" % (",".join(out), L.pos)


ALPHA = [b'"', b"\\", b"#", b"/", b"*", b":", b".", b"$", b"\r", b"\n", b" ", b"a", b"5", b"\xc3", b"K", b"[", b";"]
ML = [b".", b"$", b"\r", b"\n", b"a", b" ", b";"]


def inputs(depth, mldepth, nrand):
    for L in range(0, depth + 1):
        for tup in itertools.product(ALPHA, repeat=L):
            yield b"".join(tup)
    for L in range(0, mldepth + 1):
        for tup in itertools.product(ML, repeat=L):
            body = b"".join(tup)
            yield b"text:" + body
            yield b"x text:" + body + b"\n;"
            yield b'"' + body + b'"'
    r = rng("lex")
    pool = ALPHA + [b"text:", b"if", b"{", b"}", b"(", b")", b",", b"]", b":is", b"10K", b"\t", b"\x0b", b"\x0c", b"\x00", b"\xa9", b"_", b"Z", b"0"]
    for _ in range(nrand):
        n = r.randint(1, 40)
        yield b"".join(r.choice(pool) for _ in range(n))


def run(tier="quick"):
    depth, mld, nrand = (4, 6, 20000) if tier == "quick" else (5, 8, 300000)
    ins = list(dict.fromkeys(inputs(depth, mld, nrand)))
    ans = run_driver(["lex " + hx(t) for t in ins])
    diffs = []
    kinds = {}
    nontrivial = 0
    for t, a in zip(ins, ans):
        r = ref_answer(t)
        if r != a:
            diffs.append({"input": t.hex(), "model": a, "impl": r})
        ntok = 0 if r.split(" ")[1] == "" else r.split(" ")[1].count(",") + 1
        if ntok >= 2 or r.startswith("err"):
            nontrivial += 1
        for part in r.split(" ")[1].split(","):
            if part:
                k = part.split(":")[0]
                kinds[k] = kinds.get(k, 0) + 1
    return {"suite": "lex", "evaluations": len(ins), "distinct_nontrivial": nontrivial, "token_kinds": kinds,
            "diffs": diffs[:20], "ndiffs": len(diffs),
            "samples": [ins[len(ins) // 3].hex(), ins[-1].hex()]}


if __name__ == "__main__":
    res = run(sys.argv[1] if len(sys.argv) > 1 else "quick")
    print(json.dumps(res, indent=1)[:3000])
