"""`factory-roundtrip` correspondence suite: build a filter, read it back, render the set, parse, load, read back again — the real
code (FiltersSet.addfilter / get_filter_* / tosieve / Parser / from_parser_result) against the composition of the Lean models
(Factory.createFilter, Readback.*, Ser.node, Machine.parse, Readback.load), driver op `fbr`."""
from common import *
import pyref, gen_factory, corr_factory
from sievelib import commands
from sievelib.factory import FiltersSet
from sievelib.parser import Parser

NAMES = ["rule", "é€ name", "a#b", 'q"x', "x: y", "{", "Filter", "1", "é", "Desc ription", "tab\tin", "№ 5", "50% off", "%s", "{0}"]
PREFIXES = [("# Filter: ", "# Description: "), ("#F:", "#D:"), ("# name = ", "# about = "), ("#§ ", "#¶ "), ("# 100% rule: ", "# %s about: "),
            ("#%% ", "#%(name)s "), ("# {} ", "# {0}{name} ")]


def enc_val(x):
    if isinstance(x, (list, tuple)):
        return "l" + "+".join((str(y).encode("utf-8").hex() or "e") for y in x)
    return "s" + (str(x).encode("utf-8").hex() or "e")


def enc_tuples(ts):
    if ts is None:
        return "none"
    if not ts:
        return "-"
    return "|".join((";".join(enc_val(x) for x in t) if len(t) else "_") for t in ts)


def readback(fs, name):
    def safe(f):
        try:
            return f()
        except Exception:  # noqa
            return "CRASH"
    c = safe(lambda: fs.get_filter_conditions(name))
    a = safe(lambda: fs.get_filter_actions(name))
    m = safe(lambda: fs.get_filter_matchtype(name))
    return "conds=%s acts=%s mt=%s" % ("crash" if c == "CRASH" else enc_tuples(c), "crash" if a == "CRASH" else enc_tuples(a),
                                       "crash" if m == "CRASH" else ("none" if m is None else (m.encode().hex() or "e")))


def real(conds, acts, mt, name, desc, npre, dpre):
    saved = commands.RequireCommand.loaded_extensions
    commands.RequireCommand.loaded_extensions = []
    try:
        fs = FiltersSet("t", npre, dpre)
        try:
            st, val = with_watchdog(lambda: fs.addfilter(name, conds, acts, mt), 3)
        except Exception as e:  # noqa
            st, val = "exc", e
        if st != "ok":
            return "err"
        if desc:
            fs.filters[-1]["description"] = desc
        direct = readback(fs, name)
        try:
            text = str(fs).encode("utf-8")
        except Exception:  # noqa
            return "direct " + direct + " text=crash"
        p = Parser()
        if p.parse(text) is not True:
            return "direct " + direct + " text=" + (text.hex() or "e") + " reloaded rejected"
        fs2 = FiltersSet("t", npre, dpre)
        fs2.from_parser_result(p)
        if len(fs2.filters) != 1:
            rel = "filters=%d" % len(fs2.filters)
        else:
            f = fs2.filters[0]
            rel = "name=%s desc=%s enabled=%s reqs=%s %s" % (f["name"].encode("utf-8").hex() or "e", (f.get("description") or "").encode("utf-8").hex() or "e",
                                                          "b1" if f["enabled"] else "b0", ",".join((x.encode().hex() or "e") for x in fs2.requires), readback(fs2, f["name"]))
        return "direct " + direct + " text=" + (text.hex() or "e") + " reloaded " + rel
    finally:
        commands.RequireCommand.loaded_extensions = saved


def run(r, n):
    cases = []
    for i in range(n):
        conds, acts, mt = corr_factory.documented(r) if i % 4 else corr_factory.wild(r)
        if not corr_factory.encodable(conds, acts):
            continue
        name = r.choice(NAMES) + ("" if r.random() < 0.5 else " %d" % r.randint(0, 99))
        desc = "" if r.random() < 0.5 else r.choice(NAMES)
        npre, dpre = r.choice(PREFIXES)
        cases.append((conds, acts, mt, name, desc, npre, dpre))
    h = lambda s: s.encode("utf-8").hex() or "e"
    lines = [corr_factory.cfg_line()] + [
        corr_factory.request(c[0], c[1], c[2], [], []).replace("fb ", "fbr ", 1) + " name=%s desc=%s npre=%s dpre=%s" % (h(c[3]), h(c[4]), h(c[5]), h(c[6]))
        for c in cases]
    got = run_driver(lines)
    diffs, classes = [], {}
    for c, m in zip(cases, got[1:]):
        if m == "err unmodelled":
            classes["unmodelled (skipped)"] = classes.get("unmodelled (skipped)", 0) + 1
            continue
        a = real(*c)
        mm = "err" if m.startswith("err ") else m
        key = "err" if a == "err" else ("crash in read-back" if "crash" in a else ("rejected" if a.endswith("rejected") else "ok"))
        classes[key] = classes.get(key, 0) + 1
        if a != mm:
            diffs.append({"suite": "factory-roundtrip", "conditions": repr(c[0])[:300], "actions": repr(c[1])[:300], "matchtype": c[2], "name": c[3], "description": c[4],
                          "prefixes": [c[5], c[6]], "impl": a[:900], "model": mm[:900]})
    return diffs, len(cases), classes


if __name__ == "__main__":
    import sys
    d, n, cl = run(rng("readback-main"), int(sys.argv[1]) if len(sys.argv) > 1 else 500)
    print("cases", n, "diffs", len(d), "classes", json.dumps(cl, sort_keys=True))
    for x in d[:6]:
        # show the first differing field
        a, m = x["impl"].split(" "), x["model"].split(" ")
        k = next((i for i, (p, q) in enumerate(zip(a, m)) if p != q), None)
        x["first_difference"] = [a[k] if k is not None and k < len(a) else None, m[k] if k is not None and k < len(m) else None]
        print(json.dumps(x, indent=1, ensure_ascii=False)[:2500])
