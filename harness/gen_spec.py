"""Renders the frozen specification tables under /verif/spec into Lean (Spec/*.lean). Not derived from /repo."""
import json, os
VERIF = os.path.dirname(os.path.dirname(os.path.abspath(__file__)))


def main():
    m = json.load(open(os.path.join(VERIF, "spec", "extension_map.json")))
    cmds = sorted(m["commands"].items())
    tags = [tuple(t) for t in m["tags"]] + [(t, mt, e) for t in m["match_type_tests"] for mt, e in m["match_types"]]
    out = ["import SieveModel.Model.Table",
           "/-! FROZEN extension map (rendered from /verif/spec/extension_map.json, hand-written from the RFCs; NOT derived from /repo). -/",
           "namespace Spec", "",
           "/-- command name ↦ extension it belongs to -/",
           "def commandExt : List (Bytes × Bytes) := [" + ", ".join('(sb "%s", sb "%s")' % c for c in cmds) + "]", "",
           "/-- (command, tag value, extension) -/",
           "def tagExt : List (Bytes × Bytes × Bytes) := [" + ",\n  ".join('(sb "%s", sb "%s", sb "%s")' % t for t in tags) + "]", "",
           "/-- the slot of `d` that accepts tag `t` binds it to extension `e` -/",
           "def slotBinds (a : ArgDef) (t e : Bytes) : Bool :=",
           "  ((match a.values with | some vs => decide (t ∈ vs) | none => false) && a.extension == some e) ||",
           "  decide ((t, e) ∈ a.extValues)", "",
           "/-- every frozen (construct, extension) pair is present in the table with that extension -/",
           "def ExtCovered (T : Table) : Bool :=",
           "  commandExt.all (fun (c, e) => T.any (fun d => d.name == c && d.extension == some e)) &&",
           "  tagExt.all (fun (c, t, e) => T.any (fun d => d.name == c && d.args.any (fun a => slotBinds a t e)))", "",
           "end Spec"]
    write_if_changed(os.path.join(VERIF, "lean", "SieveModel", "Spec", "ExtensionMap.lean"), "\n".join(out) + "\n")
    v = json.load(open(os.path.join(VERIF, "spec", "vocabulary.json")))
    pairs = [(n, k) for k in ("control", "action", "test") for n in v[k]]
    out = ["import SieveModel.Model.Table", "import SieveModel.Model.Args",
           "/-! FROZEN vocabulary (rendered from /verif/spec/vocabulary.json, hand-written from the RFCs; NOT derived from /repo). -/",
           "namespace Spec", "",
           "/-- the commands of the supported language and the role each plays -/",
           "def vocabulary : List (Bytes × Kind) := [" + ", ".join('(sb "%s", .%s)' % p for p in pairs) + "]", "",
           "/-- every definition of the table is a word of the vocabulary, in its role -/",
           "def SpeaksOnly (T : Table) : Bool := T.all (fun d => decide ((d.name, d.kind) ∈ vocabulary))", "",
           "/-- the tags each command admits (commands not listed admit none) -/",
           "def tagVocabulary : List (Bytes × List Bytes) := [" + ", ".join('(sb "%s", [%s])' % (c, ", ".join('sb "%s"' % t for t in ts)) for c, ts in sorted(v["tags"].items())) + "]", "",
           "def tagsOf (d : CmdDef) : List Bytes :=",
           "  d.args.flatMap (fun a => if decide (ArgType.tag ∈ a.types) then (a.values.getD []) ++ a.extValues.map (·.1) else [])", "",
           "def frozenTags (n : Bytes) : List Bytes := ((tagVocabulary.find? (fun p => p.1 == n)).map (·.2)).getD []", "",
           "/-- every definition admits exactly the tags the frozen vocabulary gives its command -/",
           "def TagsExactly (T : Table) : Bool :=",
           "  T.all (fun d => (tagsOf d).all (fun t => decide (t ∈ frozenTags d.name)) && (frozenTags d.name).all (fun t => decide (t ∈ tagsOf d)))", "",
           "/-- the parameter each tag takes: (tag, admitted kinds, closed value set if any); a tag not listed takes none -/",
           "def tagParams : List (Bytes × List ArgType × Option (List Bytes)) := [" + ", ".join(
               '(sb "%s", [%s], %s)' % (t, ", ".join("." + k for k in pv["kinds"]),
                                        "none" if pv["values"] is None else "some [" + ", ".join("sb " + json.dumps(x) for x in pv["values"]) + "]")
               for t, pv in sorted(v["tag_params"].items())) + "]", "",
           "def frozenParam (t : Bytes) : Option (List ArgType × Option (List Bytes)) := (tagParams.find? (fun p => p.1 == t)).map (·.2)", "",
           "/-- what the definition gives tag `t` of slot `a` as parameter: `none` = no parameter -/",
           "def paramOf (a : ArgDef) (t : Bytes) : Option ExtraDef :=",
           "  match a.extra with",
           "  | none => none",
           "  | some e => match e.validFor with | none => some e | some vf => if decide (t ∈ vf) then some e else none", "",
           "def sameSet (a b : List Bytes) : Bool := a.all (fun x => decide (x ∈ b)) && b.all (fun x => decide (x ∈ a))", "",
           "/-- the parameter of every tag of every definition is the frozen one: same kinds admitted, same closed value set -/",
           "def ParamsExactly (T : Table) : Bool :=",
           "  T.all (fun d => d.args.all (fun a => !decide (ArgType.tag ∈ a.types) ||",
           "    ((a.values.getD []) ++ a.extValues.map (·.1)).all (fun t =>",
           "      match paramOf a t, frozenParam t with",
           "      | none, none => true",
           "      | some e, some (kinds, vals) =>",
           "        [ArgType.string, ArgType.number, ArgType.stringlist].all (fun k => Args.atypeIn k e == decide (k ∈ kinds)) &&",
           "        (match e.values, vals with | none, none => true | some x, some y => sameSet x y | _, _ => false)",
           "      | _, _ => false)))", "",
           "/-- every word of the vocabulary has a definition -/",
           "def SpeaksAll (T : Table) : Bool := vocabulary.all (fun (n, k) => T.any (fun d => d.name == n && d.kind == k))", "",
           "end Spec"]
    write_if_changed(os.path.join(VERIF, "lean", "SieveModel", "Spec", "Vocabulary.lean"), "\n".join(out) + "\n")
    frozen_table()


def frozen_table():
    """Spec/FrozenTable.lean from spec/command_table.json (the command table of the supported language: a snapshot of the pinned tree,
    reviewed against the RFCs the library implements; NOT regenerated from /repo)"""
    import translate
    t = json.load(open(os.path.join(VERIF, "spec", "command_table.json")))["table"]
    out = ["import SieveModel.Model.Table",
           "/-! FROZEN command table of the supported language (rendered from /verif/spec/command_table.json; NOT derived from /repo). -/",
           "namespace Spec", "", "def frozenTable : Table := [", ",\n".join(translate.render_def(d) for d in t), "]", "", "end Spec"]
    write_if_changed(os.path.join(VERIF, "lean", "SieveModel", "Spec", "FrozenTable.lean"), "\n".join(out) + "\n")


def write_if_changed(path, txt):
    try:
        if open(path).read() == txt:
            return
    except OSError:
        pass
    open(path, "w").write(txt)


if __name__ == "__main__":
    main()
