"""Renders the frozen specification tables under /verif/spec into Lean (Spec/*.lean). Not derived from /repo."""
import json, os
VERIF = os.path.dirname(os.path.dirname(os.path.abspath(__file__)))


def main():
    m = json.load(open(os.path.join(VERIF, "spec", "extension_map.json")))
    cmds = sorted(m["commands"].items())
    tags = [tuple(t) for t in m["tags"]] + [(t, mt, e) for t in m["match_type_tests"] for mt, e in m["match_types"]]
    out = ["import SieveModel.Model.Table",
           "/-! FROZEN extension map (rendered from /verif/spec/extension_map.json, hand-written from the RFCs; NOT derived from /repo). -/",
           "namespace Spec", "",
           "/-- command name ↦ extension it belongs to -/",
           "def commandExt : List (Bytes × Bytes) := [" + ", ".join('(sb "%s", sb "%s")' % c for c in cmds) + "]", "",
           "/-- (command, tag value, extension) -/",
           "def tagExt : List (Bytes × Bytes × Bytes) := [" + ",\n  ".join('(sb "%s", sb "%s", sb "%s")' % t for t in tags) + "]", "",
           "/-- the slot of `d` that accepts tag `t` binds it to extension `e` -/",
           "def slotBinds (a : ArgDef) (t e : Bytes) : Bool :=",
           "  ((match a.values with | some vs => decide (t ∈ vs) | none => false) && a.extension == some e) ||",
           "  decide ((t, e) ∈ a.extValues)", "",
           "/-- every frozen (construct, extension) pair is present in the table with that extension -/",
           "def ExtCovered (T : Table) : Bool :=",
           "  commandExt.all (fun (c, e) => T.any (fun d => d.name == c && d.extension == some e)) &&",
           "  tagExt.all (fun (c, t, e) => T.any (fun d => d.name == c && d.args.any (fun a => slotBinds a t e)))", "",
           "end Spec"]
    path = os.path.join(VERIF, "lean", "SieveModel", "Spec", "ExtensionMap.lean")
    txt = "\n".join(out) + "\n"
    try:
        if open(path).read() == txt:
            return
    except OSError:
        pass
    open(path, "w").write(txt)


if __name__ == "__main__":
    main()
