import sys
import framework
if __name__ == "__main__":
    sys.exit(framework.main(sys.argv[1:]))
