"""C05 — replies are read identically however the bytes are segmented."""
from prop_common import *
import ms_cases, msref

RULE = ("every operation × replies generated from the RFC 5804 reply grammar (status with/without code and text, quoted and literal text, "
        "listings, script bodies with protocol look-alikes) × every single cut, double cuts for short replies, recv limited to 1/2/3/7/64 "
        "bytes and random k-way schedules; each followed by two sentinel operations; outcome (result, bytes written, errcode, errmsg, "
        "leftover) must equal the unsegmented delivery; a sample is replayed on the Lean model; non-trivial = schedule with ≥ 1 cut "
        "inside the reply")


def run(ctx):
    r = rng("c05")
    cases = ms_cases.cases(r, 3 if ctx.tier == "quick" else 8)
    def shape(c):
        op, args, reply, exp = c
        return (op if op in ("listscripts", "getscript", "capability") else "status-op", exp.get("status"), b"{" in reply, b"(" in reply.split(b"\r\n")[-2][:40] if reply.count(b"\r\n") else False)
    if ctx.tier == "quick":
        # a sample that keeps every SHAPE of reply (operation family × status × with / without a literal × with / without a code)
        by = {}
        for c in cases:
            by.setdefault(shape(c), []).append(c)
        picked = [c for c in cases if c[3].get("directed")]
        for k_ in sorted(by, key=repr):
            picked += r.sample(by[k_], min(len(by[k_]), 4 if k_[2] else 3))
        cases = picked
    viol, lines, expect = [], [], []
    evals = nontriv = 0
    samples = []
    for op, args, reply, exp in cases:
        base, _ = ms_cases.run_case(op, args, reply, [])
        scheds = ms_cases.schedules(len(reply), r, ctx.tier)
        if ctx.tier == "quick" and len(scheds) > 60:
            nsingle = max(len(reply) - 1, 0)
            if b"{" in reply and len(reply) <= 160:
                # a short reply holding a literal: every single cut (the places where a literal, its line and what follows on the
                # line meet are few and specific), then a sample of the rest
                scheds = scheds[:nsingle] + r.sample(scheds[nsingle:], min(20, len(scheds) - nsingle))
            else:
                scheds = scheds[:25] + r.sample(scheds[25:], 35)
        for i, sc in enumerate(scheds):
            outs, reqs = ms_cases.run_case(op, args, reply, sc)
            evals += 1
            nontriv += 1
            if outs != base:
                k = next((j for j, (x, y) in enumerate(zip(outs, base)) if x != y), min(len(outs), len(base)))
                viol.append({"op": op, "args": repr(args), "reply_hex": reply.hex(), "reply": reply.decode("latin-1"), "schedule": sc[:40],
                             "what": "step %d differs from unsegmented delivery: %s  vs  %s" % (k, (outs + ["<missing>"])[k][:200], (base + ["<missing>"])[k][:200])})
            if i % 9 == 0:
                lines += reqs
                expect += outs
        # the connect greeting itself under segmentation
        if len(samples) < 3:
            samples.append({"op": op, "reply": reply.decode("latin-1"), "schedules": len(scheds)})
    # replies much larger than one read (scripts of several kB, listings of hundreds of names): whole, in blocks, cut inside
    # the first line, around the read size, byte by byte
    body = b"".join(b"# line %04d of a long script\r\n" % i for i in range(180))
    big = [("getscript", ("n",), b"{%d}\r\n" % len(body) + body + b"\r\nOK\r\n"),
           ("listscripts", (), b"".join(b'"script%03d"\r\n' % i for i in range(900)) + b'"x" ACTIVE\r\nOK "done"\r\n'),
           ("putscript", ("n", "keep;"), b'NO (QUOTA/MAXSIZE) {%d}\r\n' % 6000 + b"e" * 6000 + b"\r\n")]
    # replies whose length is an exact multiple of the client's read size (4096): the last read returns a full block and
    # nothing follows — a full block says nothing about more data pending
    def padded(total):
        head = b"".join(b'"script%03d"\r\n' % i for i in range(40))
        tail = b'OK "done"\r\n'
        fill = total - len(head) - len(tail) - 4          # one more name: quote + fill + quote + CRLF
        return head + b'"' + b"n" * fill + b'"\r\n' + tail
    for total in (4096, 8192, 12288):
        rep = padded(total)
        assert len(rep) == total
        big.append(("listscripts", (), rep))
    pbody = b"x" * (4096 - len(b"{4000}\r\n") - 2 - len(b"OK\r\n"))
    big.append(("getscript", ("n",), b"{%d}\r\n" % len(pbody) + pbody + b"\r\nOK\r\n"))
    for op, args, reply in big:
        base, breqs = ms_cases.run_case(op, args, reply, [])
        n = len(reply)
        scheds = [[k] + [4096] * 8 for k in range(1, 12)] + [[1000] * (n // 1000 + 2), [4095] * 4, [4096] * 4, [4097] * 4, [4096, 1, 4096, 1, 4096],
                  [n - 1, 1], [n - 2, 1, 1], [1] * n, [7] * (n // 7 + 2), [64] * (n // 64 + 2)]
        for sc in scheds:
            outs, reqs = ms_cases.run_case(op, args, reply, sc)
            evals += 1
            nontriv += 1
            if outs != base:
                k = next((j for j, (x, y) in enumerate(zip(outs, base)) if x != y), min(len(outs), len(base)))
                viol.append({"op": op, "args": repr(args), "reply_hex": reply[:200].hex(), "reply": reply[:80].decode("latin-1") + "…(%d bytes)" % n, "schedule": sc[:12],
                             "what": "large reply, step %d differs from unsegmented delivery: %s  vs  %s" % (k, (outs + ["<missing>"])[k][:160], (base + ["<missing>"])[k][:160])})
        lines += breqs
        expect += base
    for sc in ms_cases.schedules(len(ms_cases.GREETING + ms_cases.AUTH_OK), r, "quick")[:60]:
        base, _ = ms_cases.run_case("havespace", ("n", 1), b"OK\r\n", [], sched_connect=[])
        outs, reqs = ms_cases.run_case("havespace", ("n", 1), b"OK\r\n", [], sched_connect=sc)
        evals += 1
        if outs != base:
            viol.append({"op": "connect", "schedule": sc[:40], "what": "connect under segmentation differs: %r vs %r" % (outs[1][:150], base[1][:150])})
        lines += reqs
        expect += outs
    model = run_driver(lines, live_table=False)
    diffs = [{"suite": "reader", "request": l[:300], "impl": e[:300], "model": m[:300]} for l, e, m in zip(lines, expect, model) if e != m]
    fresh, known = split_known("C05", viol, lambda f, v: False)
    return {"evaluations": evals, "distinct_nontrivial": nontriv, "rule": RULE, "samples": samples,
            "suites": {"reader": {"cases": len(cases), "model_requests": len(lines)}}, "diffs": diffs, "violations": fresh, "known": known}


def replay(ctx, payload):
    v = payload.get("violation") or {}
    if "reply_hex" not in v:
        print(json.dumps(payload, indent=1)[:3000])
        return 1
    import ast
    args = ast.literal_eval(v["args"])
    reply = bytes.fromhex(v["reply_hex"])
    base, _ = ms_cases.run_case(v["op"], args, reply, [])
    outs, _ = ms_cases.run_case(v["op"], args, reply, v["schedule"])
    print("unsegmented:", base)
    print("schedule   :", outs)
    return 1 if outs != base else 0
