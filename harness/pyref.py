"""Canonical rendering of what the REAL sievelib does, in the driver's answer format."""
import re, io
from common import *
from sievelib import commands
from sievelib.parser import Parser, Lexer

_yield_counter = [0]
_orig_scan = Lexer.scan


def _counting_scan(self, text):
    for item in _orig_scan(self, text):
        _yield_counter[0] += 1
        yield item


Lexer.scan = _counting_scan


def hexs(s):
    if isinstance(s, str):
        s = s.encode("utf-8", "surrogatepass")
    return bytes(s).hex()


def node_sexpr(c, top=False):
    return "(%s A[%s] E[%s] C[%s] H[%s])" % (
        hexs(c.name), args_sexpr(c.arguments), args_sexpr(c.extra_arguments),
        "".join(node_sexpr(ch) for ch in c.children),
        ",".join(hexs(h) for h in c.hash_comments))


def args_sexpr(d):
    out = []
    for k, v in d.items():
        if isinstance(v, commands.Command):
            out.append("%s=t:%s;" % (k, node_sexpr(v)))
        elif isinstance(v, list):
            if v and all(isinstance(x, commands.Command) for x in v):
                out.append("%s=T:%s;" % (k, "".join(node_sexpr(x) for x in v)))
            else:
                out.append("%s=l:%s;" % (k, ",".join(hexs(x) for x in v)))
        else:
            out.append("%s=s:%s;" % (k, hexs(v if isinstance(v, (str, bytes)) else str(v))))
    return "".join(out)


_ERR = [
    (re.compile(r"parsing error: unknown token"), lambda m: "lexical"),
    (re.compile(r"parsing error: (\w+) found while ([\w|]+) expected (near|at end of file)"), lambda m: "expected %s %s" % (m.group(1), m.group(2))),
    (re.compile(r"parsing error: unexpected token"), lambda m: "unexpectedToken"),
    (re.compile(r"unknown command '(.*)'$", re.S), lambda m: "unknownCommand " + hexs(m.group(1))),
    (re.compile(r"extension '(.*)' not loaded$", re.S), lambda m: "extNotLoaded " + hexs(m.group(1))),
    (re.compile(r"bad argument .* for command (\S+) \(", re.S), lambda m: "badArgument " + hexs(m.group(1))),
    (re.compile(r"bad value .* for argument (\S+)$", re.S), lambda m: "badValue " + m.group(1)),
    (re.compile(r"parsing error: the (\S+) command must follow"), lambda m: "mustFollow " + hexs(m.group(1))),
    (re.compile(r"parsing error: (\S+) may not appear as a first command"), lambda m: "firstCommandTest " + hexs(m.group(1))),
    (re.compile(r"parsing error: Expected test command, '(.*)' found instead"), lambda m: "expectedTest " + hexs(m.group(1))),
    (re.compile(r"parsing error: .* unexpected after a (\S+)$", re.S), lambda m: "unexpectedAfter " + hexs(m.group(1))),
    (re.compile(r"parsing error: unexpected closing bracket"), lambda m: "closingBracket"),
    (re.compile(r"parsing error: end of script reached while the (\S+) command is not finished"), lambda m: "endUnfinished " + hexs(m.group(1))),
    (re.compile(r"parsing error: end of script reached while ([\w|]+) expected"), lambda m: "endExpected " + m.group(1)),
    (re.compile(r"codec can't decode"), lambda m: "decodeError"),
]
_LINE = re.compile(r"^line (\d+): ", re.S)


def classify_error(p):
    err = p.error
    m = _LINE.match(err)
    if not m:
        return "badformat " + hexs(err)
    body = err[m.end():]
    for rx, f in _ERR:
        mm = rx.search(body)
        if mm:
            return f(mm)
    return "unclassified " + hexs(body)


_PARSES = [0]


def parse_answer(text: bytes, parser=None, timeout=2, want_yields=False):
    """Run the real parser; answer in the driver's `parse` format (plus diagnostics)."""
    # every fifth parse with a fresh Parser uses the public `debug=True` flag (trace printed to a discarded stdout):
    # tracing must not change the verdict, the tree or the reported place
    _PARSES[0] += 1
    dbg = parser is None and _PARSES[0] % 5 == 0
    p = parser or Parser(debug=dbg)
    _yield_counter[0] = 0
    if dbg:
        import contextlib
        with contextlib.redirect_stdout(io.StringIO()):
            st, val = with_watchdog(lambda: p.parse(text), timeout)
    else:
        st, val = with_watchdog(lambda: p.parse(text), timeout)
    y = _yield_counter[0]
    if st == "hang":
        ans = "hang"
    elif st == "exc":
        ans = "crash " + type(val).__name__
    elif val is True:
        ans = "accept " + "".join(node_sexpr(c, True) for c in p.result)
    elif val is False:
        ep = getattr(p, "error_pos", None)
        ok = isinstance(ep, tuple) and len(ep) == 3 and all(isinstance(x, int) for x in ep)
        m = _LINE.match(p.error) if isinstance(getattr(p, "error", None), str) else None
        if not ok or not m or int(m.group(1)) != ep[0]:
            ans = "badverdict error_pos=%r error=%r" % (ep, getattr(p, "error", None))
        else:
            ans = "reject %d %d %d %s" % (ep[0], ep[1], ep[2], classify_error(p))
    else:
        ans = "badverdict return=%r" % (val,)
    return (ans, y, p) if want_yields else ans


def tosieve_text(result):
    t = io.StringIO()
    for c in result:
        c.tosieve(target=t)
    return t.getvalue()
