"""Objects with company: the same questions the property checks ask of ONE fresh object, asked of an object that shares the
process with others of its class, that is used again, or whose results the caller still holds.  Every function returns a list
of {"what": ..., "input_hex": ..., "history_hex": [...]}; the expected answer is always the one a fresh object gives."""
import io, os, tempfile
from common import *
import pyref
from sievelib.parser import Parser
from sievelib import commands


def parser_company(pairs):
    """pairs: [(cut, full)] — `cut` must be answered as a fresh Parser answers it, whatever other Parser objects exist and
    whatever they or this one parsed before"""
    out = []
    for cut, full in pairs:
        want = pyref.parse_answer(cut, parser=Parser())
        def pat_same():
            p = Parser(); p.parse(full); return p

        def pat_later():
            older, younger = Parser(), Parser(); younger.parse(full); return older

        def pat_earlier():
            older, younger = Parser(), Parser(); older.parse(full); return younger

        def pat_alternate():
            p1, p2 = Parser(), Parser(); p1.parse(full); p2.parse(b"keep;"); return p1

        def pat_both():
            p1, p2 = Parser(), Parser(); p1.parse(full); p2.parse(full); p2.parse(b"stop;"); return p1

        def pat_three():
            p1, p2, p3 = Parser(), Parser(), Parser(); p2.parse(full); p3.parse(b"foo"); return p1
        # each pattern is set up and asked at once: no Parser object is created between the set-up and the question
        for label, mk in (("the same Parser had parsed the other script", pat_same),
                          ("a Parser created LATER had parsed the other script", pat_later),
                          ("a Parser created EARLIER had parsed the other script", pat_earlier),
                          ("this Parser parsed the other script, then a second Parser parsed `keep;`", pat_alternate),
                          ("both Parsers parsed the other script, the second one then `stop;`", pat_both),
                          ("of three Parsers the second parsed the other script, the third a refused one", pat_three)):
            px = mk()
            got = pyref.parse_answer(cut, parser=px)
            if got != want:
                out.append({"input_hex": cut.hex(), "input": cut.decode("latin-1"), "history_hex": [full.hex()],
                            "what": "%s: %s; a fresh Parser alone: %s" % (label, got[:110], want[:110])})
                break
    return out


def _snapshot(result):
    import oracle_generic
    try:
        proj = oracle_generic.project_result(result, commands)
    except Exception as e:  # noqa
        proj = "projection raised " + type(e).__name__
    try:
        text = pyref.tosieve_text(result)
    except Exception as e:  # noqa
        text = "tosieve raised " + type(e).__name__
    return proj, text, len(result)


def held_results(accepted, others):
    """the tree of an accepted script, still held by the caller, while its Parser goes on to other scripts: it stays the tree
    of THAT script (same commands and values, same printed text)"""
    out = []
    for k, a in enumerate(accepted):
        p = Parser()
        if p.parse(a) is not True:
            continue
        held = p.result
        before = _snapshot(held)
        hist = []
        for b in (others[k % len(others)], b"", others[(k + 1) % len(others)]):
            p.parse(b)
            hist.append(b)
            after = _snapshot(held)
            if after != before:
                what = "commands / values" if after[0] != before[0] or after[2] != before[2] else "printed text"
                out.append({"input_hex": a.hex(), "input": a.decode("latin-1"), "history_hex": [h.hex() for h in hist], "kind": what,
                            "what": "the result of an accepted script, held by the caller, changed (%s) when the same Parser parsed %r next: %r → %r" % (
                                what, b.decode("latin-1")[:50], (before[1] if what == "printed text" else before[0]).__repr__()[:90],
                                (after[1] if what == "printed text" else after[0]).__repr__()[:90])})
                break
    return out


def file_sequences():
    """parse_file on ONE Parser, file after file: each answer is the answer a fresh Parser gives for that file"""
    seqs = [[b'require "fileinto";\nfileinto "a";\nkeep;\n', b""], [b"keep;\nstop;\nfoo bar;\n" * 3, b""], [b"keep;\n" * 40, b"stop;\n"],
            [b'if true {\n keep;\n}\n' * 5 + b"foo", b"", b"keep;"], [b"", b"keep;", b""], [b"x" * 70000 + b";", b"", b"# c\n"]]
    out = []
    for seq in seqs:
        p = Parser()
        hist = []
        for content in seq:
            with tempfile.NamedTemporaryFile(dir=WORK, suffix=".sieve", delete=False) as f:
                f.write(content)
                path = f.name
            try:
                st, val = with_watchdog(lambda: p.parse_file(path), 5)
                fresh = Parser()
                v2 = fresh.parse_file(path)
                got = (st, val, getattr(p, "error", None) if val is False else None, getattr(p, "error_pos", None) if val is False else None, len(p.result) if val is True else None)
                want = ("ok", v2, fresh.error if v2 is False else None, fresh.error_pos if v2 is False else None, len(fresh.result) if v2 is True else None)
                if got != want:
                    out.append({"input_hex": content.hex()[:400], "input": content.decode("latin-1")[:120], "history_hex": [h.hex()[:200] for h in hist],
                                "what": "parse_file on a Parser that had read %d file(s) before: %r; a fresh Parser: %r" % (len(hist), got, want)})
                    break
            finally:
                os.unlink(path)
            hist.append(content)
    return out


def nested_positions():
    """error places of a script in the middle of which another Parser parses another script (a registered command whose
    completion hook does so, as an include-like extension would)"""
    class IncludeposCommand(commands.ActionCommand):
        args_definition = [{"name": "script", "type": ["string"], "required": True}]
        helper = b""

        def complete_cb(self):
            Parser().parse(IncludepostCommand_helper[0])
    IncludepostCommand_helper = [b""]
    commands.add_commands(IncludeposCommand)
    out = []
    outers = [b'includepos "h";\nkeep;\n\n\nfoo;\n', b'keep;\nincludepos "h";\nif true {\n  stop;\n  includepos "h";\n  redirect ["a"];\n}\n',
              b'includepos "h"; includepos "h";\n\n keep "x";\n', b'if true {\n includepos "h";\n}\n\xff']
    for outer in outers:
        IncludepostCommand_helper[0] = b""
        want = pyref.parse_answer(outer, parser=Parser())
        for helper in (b"keep;", b"keep;\n" * 30, b'if header "a" "' + b"x" * 300 + b'" {\n keep;\n}\n', b"foo\nbar\n\n\n\n\n\nbaz;", b"\n" * 50):
            IncludepostCommand_helper[0] = helper
            got = pyref.parse_answer(outer, parser=Parser())
            if got != want:
                out.append({"input_hex": outer.hex(), "input": outer.decode("latin-1"), "history_hex": [helper.hex()[:200]],
                            "what": "another Parser parsed a %d-byte script in the middle of this one: %s; without that: %s" % (len(helper), got[:110], want[:110])})
                break
    IncludepostCommand_helper[0] = b""
    return out


_MODE = [0]


def scribble(x):
    """what a caller may do with ITS OWN objects — those it handed to the library, those the library handed to it: a list loses
    its first item, or its last, or gets another one, or is emptied (in turn); every dict gets a new key, every bytearray is zeroed"""
    if isinstance(x, list):
        for y in x:
            scribble(y)
        _MODE[0] += 1
        m = _MODE[0] % 4
        if m == 0:
            del x[:]
        elif m == 1 and x:
            del x[0]
        elif m == 2 and x:
            del x[-1]
        else:
            x.append(x[0] if x and _MODE[0] % 8 == 3 else 'scribbled", "by the caller')
    elif isinstance(x, tuple):
        for y in x:
            scribble(y)
    elif isinstance(x, dict):
        for y in list(x.values()):
            scribble(y)
        x["scribbled"] = "by the caller"
    elif isinstance(x, bytearray):
        x[:] = b"\0" * len(x)


def listify(x):
    """the same definition with every tuple turned into a list (definitions read from JSON arrive like that)"""
    if isinstance(x, (tuple, list)):
        return [listify(y) for y in x]
    return x
