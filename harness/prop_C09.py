"""C09 — operation results mirror the server's status reply."""
from prop_common import *
import ms_cases, msref

RULE = ("every operation × status replies of every shape RFC 5804 allows (OK / NO / BYE, with or without response code, hierarchical codes, "
        "codes with a quoted parameter, with or without text, text as quoted string with escapes or as literal, OK (WARNINGS)); expected "
        "result, errcode and errmsg are computed from the abstract reply, not from its bytes; each reply is delivered whole, with every CRLF "
        "split between CR and LF, and byte by byte; plus NO / BYE at each step of connect and "
        "of the emulated rename; every exchange is also replayed on the Lean model; non-trivial = reply with a code or a text")


def expect_of(op, exp, out):
    """returns problem or None; `out` is the answer string of the real client"""
    fields = dict(f.split("=", 1) for f in out.split(" ") if "=" in f)
    res = fields.get("res")
    st = exp["status"]
    if st == "BYE":
        return None if res == "error" else "BYE reply: expected Error, got %s" % res
    if st == "OK":
        if op in ("havespace", "putscript", "deletescript", "setactive", "checkscript", "renamescript"):
            return None if res == "b1" else "OK reply: expected True, got %s" % res
        if op == "getscript":
            return None if res.startswith("s:") else "OK reply: expected the script, got %s" % res
        if op == "listscripts":
            return None if res.startswith("ls:") else "OK reply: expected a listing, got %s" % res
        return None
    if op == "logout":
        return None     # LOGOUT has no result to report; only a BYE must surface (above)
    # NO
    want_res = "b0" if op in ("havespace", "putscript", "deletescript", "setactive", "checkscript", "renamescript") else "none"
    if res != want_res:
        return "NO reply: expected %s, got %s" % (want_res, res)
    code = exp.get("code")
    want_code = (code.split()[0] if code else b"")
    want_msg = exp.get("text") or b""
    got_code = bytes.fromhex(fields["errcode"]) if fields.get("errcode", "e") != "e" else b""
    got_msg = bytes.fromhex(fields["errmsg"]) if fields.get("errmsg", "e") != "e" else b""
    if got_code != want_code:
        return "NO reply: errcode %r, reply carries %r" % (got_code, want_code)
    if got_msg != want_msg:
        return "NO reply: errmsg %r, reply carries %r" % (got_msg, want_msg)
    return None


def connect_cases():
    G = ms_cases.GREETING
    body = G[: G.rindex(b"OK")]
    return [
        ("greeting NO", body + b'NO "go away"\r\n', {}, "error"),
        ("greeting BYE", body + b'BYE "closing"\r\n', {}, "error"),
        ("auth NO", G + b'NO "bad credentials"\r\n', {}, "b0"),
        ("auth NO bare", G + b"NO\r\n", {}, "b0"),
        ("auth NO literal", G + b"NO (AUTH-TOO-WEAK) {4}\r\nweak\r\n", {}, "b0"),
        ("auth BYE", G + b'BYE "x"\r\n', {}, "error"),
        ("auth OK", G + b"OK\r\n", {}, "b1"),
        ("auth OK literal", G + b"OK {2}\r\nhi\r\n", {}, "b1"),
        # multi-step SASL LOGIN: challenge lines, then the verdict — at whichever step it comes
        ("login NO at once", G + b'NO "no login here"\r\n', {"mech": "LOGIN"}, "b0"),
        ("login NO after the user name", G + b'"VXNlcm5hbWU6"\r\nNO (AUTH-TOO-WEAK) "bad user"\r\n', {"mech": "LOGIN"}, "b0"),
        ("login NO literal after the user name", G + b'"VXNlcm5hbWU6"\r\nNO {8}\r\nbad user\r\n', {"mech": "LOGIN"}, "b0"),
        ("login NO after the password", G + b'"VXNlcm5hbWU6"\r\n"UGFzc3dvcmQ6"\r\nNO "bad password"\r\n', {"mech": "LOGIN"}, "b0"),
        ("login BYE after the user name", G + b'"VXNlcm5hbWU6"\r\nBYE "too many"\r\n', {"mech": "LOGIN"}, "error"),
        ("login OK", G + b'"VXNlcm5hbWU6"\r\n"UGFzc3dvcmQ6"\r\nOK\r\n', {"mech": "LOGIN"}, "b1"),
        ("starttls NO", G + b'NO "no tls"\r\n', {"starttls": True}, "b0"),
        ("starttls BYE", G + b"BYE\r\n", {"starttls": True}, "error"),
    ]


def crlf_cuts(reply):
    """recv sizes that end every segment right after a CR: each CRLF of the reply is split between CR and LF"""
    out, prev, i = [], 0, 0
    while True:
        i = reply.find(b"\r\n", i)
        if i < 0:
            break
        out.append(i + 1 - prev)
        prev = i + 1
        i += 2
    return out + [max(len(reply) - prev, 1)]


def run(ctx):
    r = rng("c09")
    cases = ms_cases.cases(r, 0 if ctx.tier == "thorough" else 14)
    viol, lines, expect = [], [], []
    evals = nontriv = 0
    for op, args, reply, exp in cases:
        if op == "capability":
            continue
        # the reply delivered whole, with every CRLF split between CR and LF, and byte by byte: the status decides, not the delivery
        for how, sched in (("whole", []), ("cut between CR and LF", crlf_cuts(reply)), ("byte by byte", [1] * len(reply))):
            outs, reqs = ms_cases.run_case(op, args, reply, sched)
            lines += reqs
            expect += outs
            evals += 1
            if exp.get("code") or exp.get("text"):
                nontriv += 1
            bad = expect_of(op, exp, outs[2]) if len(outs) > 2 else "operation did not run: %r" % outs
            if bad is None and exp["status"] != "BYE" and op != "logout":
                # the exchange must leave the session usable: sentinels succeed
                if len(outs) < 5 or "res=b1" not in outs[3]:
                    bad = "sentinel after the reply failed (reply not consumed exactly): %r" % (outs[3:],)
            if bad:
                viol.append({"op": op, "args": repr(args), "reply_hex": reply.hex(), "reply": reply.decode("latin-1"), "delivery": how, "what": bad + (" [reply delivered %s]" % how)})
    # a reply that never completes — the connection goes silent or is closed at some byte: there is no status reply, so the
    # operation must end with Error (not with a result, not hanging), whatever part of the reply had arrived
    ntr = 0
    for ci, (op, args, reply, exp) in enumerate(cases):
        if op == "capability" or (ctx.tier == "quick" and ci % 3):
            continue
        marks = [i for i in range(len(reply)) if reply[i:i + 2] == b"\r\n"]
        cuts = sorted(set([0, 1, len(reply) // 2, len(reply) - 1, len(reply) - 2] + [m for m in marks] + [m + 1 for m in marks] + [m + 2 for m in marks] + [m + 3 for m in marks]))
        cuts = [k for k in cuts if 0 <= k < len(reply)]
        if ctx.tier == "quick":
            cuts = cuts[:: max(1, len(cuts) // 6)]
        for k in cuts:
            for eof in (False, True):
                s_ = msref.Session()
                stream = ms_cases.GREETING + ms_cases.AUTH_OK
                o1 = s_.connect(stream, [], "user", "pw")
                o2 = s_.op(op, *args, stream=reply[:k], sched=[], eof=eof)
                lines += ["c op=new", msref.req_connect(stream, [], "user", "pw"), msref.req_op(op, *args, stream=reply[:k], sched=[])]
                expect += ["ok", o1, o2]
                evals += 1
                ntr += 1
                if "res=error" not in o2:
                    viol.append({"op": op, "args": repr(args), "reply_hex": reply[:k].hex(), "reply": reply[:k].decode("latin-1"),
                                 "what": "the reply stops after %d of %d bytes (%s): expected Error, got %s" % (k, len(reply), "connection closed" if eof else "silence", o2[:80])})
    # two failing (or succeeding) commands in a row on ONE client: the second reply alone decides errcode / errmsg
    pool = [c for c in cases if c[0] in ("havespace", "deletescript", "setactive", "putscript") and c[3]["status"] in ("NO", "OK")]
    for _ in range(120 if ctx.tier == "quick" else 1500):
        (op1, a1, r1, e1), (op2, a2, r2, e2) = r.choice(pool), r.choice(pool)
        if _ % 2 == 0:
            # directed: a reply with code and text, then a reply lacking one or both
            r1, e1 = b'NO (QUOTA/MAXSIZE) "Quota exceeded"\r\n', {"status": "NO", "code": b"QUOTA/MAXSIZE", "text": b"Quota exceeded"}
            r2, e2 = r.choice([(b"NO\r\n", {"status": "NO", "code": None, "text": None}),
                               (b'NO "only text"\r\n', {"status": "NO", "code": None, "text": b"only text"}),
                               (b"NO (ACTIVE)\r\n", {"status": "NO", "code": b"ACTIVE", "text": None}),
                               (b"NO {3}\r\nlit\r\n", {"status": "NO", "code": None, "text": b"lit"})])
        s = msref.Session()
        reqs = ["c op=new", msref.req_connect(ms_cases.GREETING + ms_cases.AUTH_OK, [], "user", "pw")]
        outs = ["ok", s.connect(ms_cases.GREETING + ms_cases.AUTH_OK, [], "user", "pw")]
        for op, a, rep in ((op1, a1, r1), (op2, a2, r2)):
            outs.append(s.op(op, *a, stream=rep, sched=[]))
            reqs.append(msref.req_op(op, *a, stream=rep, sched=[]))
        lines += reqs
        expect += outs
        evals += 1
        nontriv += 1
        bad = expect_of(op2, e2, outs[3])
        if bad:
            viol.append({"op": op2, "history": [op1, r1.decode("latin-1")], "reply_hex": r2.hex(), "reply": r2.decode("latin-1"),
                         "what": "after a previous reply %r: %s" % (r1[:60], bad)})
    for name, stream, kw, want in connect_cases():
        s = msref.Session()
        out = s.connect(stream, [], "user", "pw", starttls=kw.get("starttls", False), mech=kw.get("mech"))
        lines += ["c op=new", msref.req_connect(stream, [], "user", "pw", starttls=kw.get("starttls", False), mech=kw.get("mech"))]
        expect += ["ok", out]
        evals += 1
        if ("res=" + want) not in out:
            viol.append({"op": "connect", "case": name, "reply": stream.decode("latin-1")[-60:], "what": "connect (%s): expected %s, got %s" % (name, want, out[:80])})
        if name == "login NO after the user name" and bytes(b"bad user").hex() not in out:
            viol.append({"op": "connect", "case": name, "what": "connect (%s): errmsg is not the text of that NO: %s" % (name, out[:160])})
        if want != "b1" and "auth=b1" in out:
            viol.append({"op": "connect", "case": name, "what": "connect (%s) failed but the client is marked authenticated" % name})
    # the emulated rename (server without VERSION) against the reference server, no fault anywhere: every reply of the sequence
    # is OK, so the result is True — whatever the script holds (empty, one byte, no final newline, look-alike lines)
    import refserver, prop_C14
    for body in prop_C14.BODIES + [b"\r\n", b"0", b"#"]:
        for act in (False, True):
            srv = refserver.RefServer(r, scripts={b"old": body, b"by": b"keep;\r\n"}, active=(b"old" if act else None), version=False, faults={})
            s = msref.Session()
            g = srv.greeting()
            c_out = s.connect(b"", [], "user", "pw", server=srv)
            reqs = ["c op=new", msref.req_connect(g, [], "user", "pw", later=list(s.wire.segments))]
            nseg = len(s.wire.segments)
            out = s.op("renamescript", "old", "new")
            reqs.append(msref.req_op("renamescript", "old", "new", later=list(s.wire.segments[nseg:])))
            lines += reqs
            expect += ["ok", c_out, out]
            evals += 1
            nontriv += 1
            statuses = [seg.split(b"\r\n")[-2].split(b" ")[0] for seg in s.wire.segments[nseg:] if seg.endswith(b"\r\n")]
            if "res=b1" not in out:
                viol.append({"op": "renamescript", "args": "('old', 'new') emulated; script body %r, active=%s" % (body, act), "reply": repr(statuses),
                             "what": "every reply of the emulated rename was OK (server statuses %r) but the call returned %s" % (statuses, out[:60])})
    # … and a NO at any of its steps, whatever response code it carries (NONEXISTENT for the final DELETESCRIPT included: the
    # server said NO, the call says False), makes the emulated rename return False
    for step in prop_C14.STEPS:
        for code in ("", "NONEXISTENT", "ACTIVE", "ALREADYEXISTS", "QUOTA/MAXSIZE", "TRYLATER", "WARNINGS", "nonexistent"):
            for act in (False, True):
                srv = refserver.RefServer(r, scripts={b"old": b"keep;\r\n", b"by": b"stop;\r\n"}, active=(b"old" if act else None), version=False,
                                          faults={step: "NO:" + code})
                s = msref.Session()
                g = srv.greeting()
                c_out = s.connect(b"", [], "user", "pw", server=srv)
                reqs = ["c op=new", msref.req_connect(g, [], "user", "pw", later=list(s.wire.segments))]
                nseg = len(s.wire.segments)
                out = s.op("renamescript", "old", "new")
                reqs.append(msref.req_op("renamescript", "old", "new", later=list(s.wire.segments[nseg:])))
                lines += reqs
                expect += ["ok", c_out, out]
                evals += 1
                nontriv += 1
                reached = any(v == step for v, _, _, _ in srv.commands)
                if reached and "res=b0" not in out:
                    viol.append({"op": "renamescript", "args": "('old', 'new') emulated, old %s" % ("active" if act else "inactive"),
                                 "reply": "NO (%s) at %s" % (code or "no code", step),
                                 "what": "the server answered %s with NO (%s) but the emulated rename returned %s" % (step, code or "no code", out.split(" ")[0])})
    # … and a BYE, a silent peer or a closed connection at any of its steps ends it with Error (never with a result)
    for step in prop_C14.STEPS:
        for fault in ("BYE", "SILENT"):
            for act in (False, True):
                srv = refserver.RefServer(r, scripts={b"old": b"keep;\r\n", b"by": b"stop;\r\n"}, active=(b"old" if act else None), version=False,
                                          faults={step: fault})
                s = msref.Session()
                c_out = s.connect(b"", [], "user", "pw", server=srv)
                out = s.op("renamescript", "old", "new")
                evals += 1
                nontriv += 1
                reached = any(v == step for v, _, _, _ in srv.commands)
                if reached and "res=error" not in out:
                    viol.append({"op": "renamescript", "args": "('old', 'new') emulated, old %s" % ("active" if act else "inactive"),
                                 "reply": "%s at %s" % ("BYE" if fault == "BYE" else "no reply", step),
                                 "what": "the server answered %s with %s but the emulated rename ended with %s, not with Error" % (
                                     step, "BYE" if fault == "BYE" else "silence", out.split(" ")[0])})
    model = run_driver(lines, live_table=False)
    diffs = [{"suite": "reader", "request": l[:300], "impl": e[:300], "model": m[:300]} for l, e, m in zip(lines, expect, model) if e != m]
    fresh, known = split_known("C09", viol, lambda f, v: False)
    return {"evaluations": evals, "distinct_nontrivial": nontriv, "rule": RULE, "samples": [{"op": c[0], "reply": c[2].decode("latin-1")} for c in cases[:3]],
            "suites": {"reader": {"cases": len(cases)}}, "diffs": diffs, "violations": fresh, "known": known}


def replay(ctx, payload):
    print(json.dumps(payload.get("violation"), indent=1)[:2000])
    return 1
