"""C20 — registered custom commands are parsed and printed according to their definition."""
import itertools
from prop_common import *
import pyref, translate, oracle_generic
from sievelib import commands
from sievelib.parser import Parser

RULE = ("definitions of the documented shape (0-4 optional tags, with or without a typed parameter, optional value set / valid_for, then "
        "1-3 required string / string-list / number arguments; action or test; with or without an extension); for each: every use "
        "enumerated from the definition (tag subsets and orders) plus single-token edits; verdict compared with the independent recogniser "
        "on the extended table and with the model; accepted uses must be recorded under the defined names and survive print/parse; the "
        "name must be unknown before registration; re-registration under the same name must take effect; non-trivial = use with ≥ 1 tag")

TAGPOOL = [":alpha", ":beta", ":gamma", ":delta", ":eps", ":zeta", ":eta", ":theta",
           # the shortest tags the grammar allows (a colon and ONE identifier character), digits and underscores inside
           ":u", ":x", ":_", ":a1", ":t_2"]


def gen_definition(r, idx):
    ntags = r.randint(0, 4)
    pool = TAGPOOL[:]
    r.shuffle(pool)
    args = []
    for i in range(ntags):
        nv = r.randint(1, 2)
        vals = [pool.pop() for _ in range(nv)]
        a = {"name": "opt%d" % i, "type": ["tag"], "values": vals, "required": False}
        k = r.random()
        if k < 0.6:
            et = r.choice(["string", "number", "stringlist", ["string", "stringlist"]])
            ex = {"type": et}
            if et == "string" and r.random() < 0.5:
                ex["values"] = r.choice([['"v1"', '"v2"'], ['"High"', '"Low"'], ['"UPPER"'], ['"MiXed Case"', '"v1"']])     # compared exactly, case included
            if et == "number" and r.random() < 0.4:
                ex["values"] = r.choice([["1K", "1M"], ["10", "20"], ["5G"]])
            if nv == 2 and r.random() < 0.5:
                ex["valid_for"] = [vals[0]]
            if r.random() < 0.3:
                ex["required"] = False  # README shows this key; the interpreter ignores it
            a["extra_arg"] = ex
        if r.random() < 0.2:
            a["extension"] = "ext%d" % idx
        args.append(a)
    for i in range(r.randint(1, 3)):
        args.append({"name": "req%d" % i, "type": r.choice([["string"], ["string", "stringlist"], ["number"]]), "required": True})
    kind = r.choice(["action", "test"])
    ext = ("custom%d" % idx) if r.random() < 0.5 else None
    return {"args": args, "kind": kind, "extension": ext}


def make_class(name, d):
    base = commands.ActionCommand if d["kind"] == "action" else commands.TestCommand
    attrs = {"args_definition": d["args"]}
    if d["extension"]:
        attrs["extension"] = d["extension"]
    return type(name.capitalize() + "Command", (base,), attrs)


def param_tokens(ex, r):
    if ex.get("values"):
        return [[v.encode()] for v in ex["values"]]
    t = ex["type"]
    types = [t] if isinstance(t, str) else t
    out = []
    if "string" in types or t == "stringlist":
        out.append([b'"p"'])
        out.append([b"text:\nmulti\nline\n."])       # a string may always be written as a multi-line literal
    if "stringlist" in types:
        out.append([b"[", b'"p"', b",", b'"q"', b"]"])
        out.append([b"[", b'"p"', b",", b'"q"', b",", b'"p"', b"]"])      # the last item repeats an earlier one
        out.append(LONG_LIST)
    if "number" in types:
        out.append([b"7"])
    return out


_RT = [0]
# a list far wider than a line, items with blanks, a quote, a backslash and a line break in them: printed and read back as it is
LONG_LIST = [b"[", b'"travel and expenses for march"', b",", b'"a folder name with several words"', b",", b'"say \\"hi\\" to them"', b",",
             b'"back\\\\slash and more words here"', b",", b'"two\nlines in one item"', b",", b'"last item of a long list"', b"]"]


def req_tokens(a):
    _RT[0] += 1
    if "string" in a["type"] and _RT[0] % 5 == 0:
        return [b"text:\nrequired\n."]
    if "number" in a["type"]:
        return [b"42"]
    if "stringlist" in a["type"]:
        if _RT[0] % 7 == 0:
            return list(LONG_LIST)
        return [b"[", b'"x"', b",", b'"y"', b"]"] if _RT[0] % 3 else [b"[", b'"x"', b",", b'"y"', b",", b'"x"', b"]"]
    return [b'"x"']


def uses(name, d, r, limit):
    """valid uses: (tokens, expected arguments dict, expected extras)"""
    opts = [a for a in d["args"] if not a["required"]]
    reqs = [a for a in d["args"] if a["required"]]
    out = []
    subsets = []
    for k in range(len(opts) + 1):
        for sub in itertools.combinations(opts, k):
            subsets.append(sub)
    r.shuffle(subsets)
    for sub in subsets[:limit]:
        order = list(sub)
        r.shuffle(order)
        # identifiers are case-insensitive: the same few spellings come back across registrations of the name
        toks = [r.choice([name, name.upper(), name.capitalize()]).encode()]
        exp_args, exp_extra, need = {}, {}, set()
        for a in order:
            v = r.choice(a["values"])
            shown = v.upper() if r.random() < 0.3 else v
            toks.append(shown.encode())
            exp_args[a["name"]] = shown
            if a.get("extension"):
                need.add(a["extension"])
            ex = a.get("extra_arg")
            if ex and ("valid_for" not in ex or v in ex["valid_for"]):
                p = r.choice(param_tokens(ex, r))
                toks += p
                exp_extra[a["name"]] = p
        for a in reqs:
            p = req_tokens(a)
            toks += p
            exp_args[a["name"]] = p
        out.append((toks, exp_args, exp_extra, need))
    return out


def wrap(d, toks, need):
    exts = sorted(need | ({d["extension"]} if d["extension"] else set()))
    req = (b'require [' + b",".join(b'"%s"' % e.encode() for e in exts) + b'];\n') if exts else b""
    body = b"".join(t + (b"\n" if t.startswith(b"text:") else b" ") for t in toks).rstrip(b" ")
    return req + (b"if " + body + b" { stop; }" if d["kind"] == "test" else body + b";")


def find_node(result, name):
    for c in result:
        for n in c.walk():
            if n.name == name:
                return n
    return None


def tokval(p):
    if p[0] == b"[":
        return [x.decode() for x in p if x not in (b"[", b"]", b",")]
    return p[0].decode()


def run(ctx):
    r = rng("c20")
    ndefs = 40 if ctx.tier == "quick" else 400
    viol, diffs = [], []
    evals = nontriv = 0
    samples = []
    safe_count = {}
    base_table = list((ctx.generated or {}).get("table_wire", []))
    registered_names = set()
    for i in range(ndefs):
        name = "cmd" + "".join(r.choice("abcdefgh") for _ in range(4)) + str(i)
        if i % 6 == 3 and i // 6 < 20:
            name = "qwzjkvxybgmluphdcrn_"[i // 6] if i // 6 != 19 else "_"     # the shortest names the grammar allows: one identifier character
        elif i % 6 == 5:
            name = "_c%d_x" % i                                                # underscores at the edges and inside
        d = gen_definition(r, i)
        # unknown before registration
        for spelling in (name, name.upper(), name.capitalize()):
            p = Parser()
            if p.parse(wrap(d, [spelling.encode(), b'"x"'], set())) is not False or "unknown command" not in p.error:
                viol.append({"what": "name %r known before registration: %r" % (spelling, p.error), "input": spelling})
        registered_names.add(name.lower())
        rounds = [d]
        if i % 4 == 0:
            rounds.append(gen_definition(r, 1000 + i))  # re-registration under the same name
        for d2 in rounds:
            cls = make_class(name, d2)
            # add_commands takes a class or any iterable of classes: a list, a tuple, a generator, an iterator, a map object
            how = [lambda c: c, lambda c: [c], lambda c: (c,), lambda c: (x for x in [c]), lambda c: iter([c]), lambda c: map(lambda x: x, [c]),
                   lambda c: {c}, lambda c: (y for y in (c,) if True)][i % 8]
            commands.add_commands(how(cls))
            wire = translate.enc_def(translate.class_def(cls.__name__, cls, commands))
            cases = []
            for toks, ea, ee, need in uses(name, d2, r, 12):
                cases.append((wrap(d2, toks, need), "valid", toks, ea, ee))
                for kind, pos, mt in __import__("gen_scripts").single_edits(toks, [b'"z"', b"9", b":alpha", b":nosuch", b";", b"[", b"stop"], r, limit=3)[:25]:
                    cases.append((wrap(d2, mt, need), "edit", mt, None, None))
                if need or d2["extension"]:
                    cases.append((wrap(dict(d2, extension=None), toks, set()), "norequire", toks, None, None))
            texts = [c[0] for c in cases]
            lines = ["table-add " + wire, "table-safe"]
            for t in texts:
                lines += ["parse " + hx(t), "wf " + hx(t), "ser " + hx(t)]
            ans = run_driver(lines)
            if ans[0] != "ok":
                raise RuntimeError("driver refused custom definition: " + ans[0])
            # hypothesis of C20.custom_commands_keep_the_verdict (Safe.cmdSafe) evaluated on the extended table
            safe_count[ans[1].split(" ")[0]] = safe_count.get(ans[1].split(" ")[0], 0) + 1
            ans = ans[:1] + ans[2:]
            for k, (t, kind, toks, ea, ee) in enumerate(cases):
                m_parse, m_wf, m_ser = ans[1 + 3 * k: 4 + 3 * k]
                pr = Parser()
                a = pyref.parse_answer(t, parser=pr)
                evals += 1
                nontriv += 1 if any(x.startswith(b":") for x in toks) else 0
                if kind == "valid":
                    last_valid = t
                if kind == "norequire":
                    # the same use without its `require`, through a Parser object that has just parsed the version WITH it: what an
                    # earlier script required does not count for the next one
                    pr2 = Parser()
                    pr2.parse(last_valid)
                    a2 = pyref.parse_answer(t, parser=pr2)
                    evals += 1
                    if a2 != a:
                        viol.append({"definition": wire, "input_hex": t.hex(), "input": t.decode("latin-1"), "history_hex": [last_valid.hex()],
                                     "what": "through a Parser that parsed the script with its require just before: %s; through a fresh Parser: %s" % (a2[:100], a[:100])})
                if a != m_parse:
                    diffs.append({"suite": "parse-custom", "definition": wire, "input_hex": t.hex(), "input": t.decode("latin-1"), "impl": a[:300], "model": m_parse[:300]})
                acc = a.startswith("accept")
                if m_wf == "valid" and not acc:
                    viol.append({"definition": wire, "input_hex": t.hex(), "input": t.decode("latin-1"), "what": "use allowed by the definition is rejected: " + a[:120]})
                if m_wf == "invalid" and acc:
                    viol.append({"definition": wire, "input_hex": t.hex(), "input": t.decode("latin-1"), "what": "use not allowed by the definition is accepted"})
                if kind == "valid" and m_wf != "valid":
                    viol.append({"definition": wire, "input_hex": t.hex(), "input": t.decode("latin-1"), "what": "harness: enumerated use classified %s by the recogniser" % m_wf})
                if acc and kind == "valid":
                    n = find_node(pr.result, name)
                    got_a = {k2: (v if not isinstance(v, list) else list(v)) for k2, v in n.arguments.items()} if n else None
                    want_a = {k2: (v if isinstance(v, str) else tokval(v)) for k2, v in ea.items()}
                    got_e = dict(n.extra_arguments) if n else None
                    want_e = {k2: tokval(v) for k2, v in ee.items()}
                    if got_a != want_a or got_e != want_e:
                        viol.append({"definition": wire, "input_hex": t.hex(), "input": t.decode("latin-1"),
                                     "what": "arguments not recorded under the defined names: got %r %r, want %r %r" % (got_a, got_e, want_a, want_e)})
                if acc and m_wf == "valid":   # uses the definition allows (irregular accepted forms: see KF-C04-1/2)
                    import prop_C04
                    bad, s1 = prop_C04.roundtrip(t)
                    if bad:
                        viol.append({"definition": wire, "input_hex": t.hex(), "input": t.decode("latin-1"), "what": bad})
                    want = ("ok " + (s1.encode("utf-8").hex() or "e")) if s1 is not None else "crash"
                    if m_ser != want:
                        diffs.append({"suite": "ser-custom", "definition": wire, "input_hex": t.hex(), "impl": want[:300], "model": m_ser[:300]})
            if len(samples) < 3 and cases:
                samples.append({"definition": wire, "use": cases[0][0].decode("latin-1")})
        # other unknown names stay unknown — in particular the near misses of the name just registered (and of built-in ones):
        # an underscore at either end or inside, a missing or doubled letter, the class-name suffix
        p = Parser()
        if p.parse(b"zz" + name.encode() + b";") is not False or "unknown command" not in p.error:
            viol.append({"what": "unregistered name accepted after registration of %r" % name, "input": "zz" + name})
        k = len(name) // 2
        near = [name + "_", "_" + name, name + "__", "__" + name + "__", name[:k] + "_" + name[k:], name[:-1], name + name[-1], name + "command",
                name.capitalize() + "Command", name + "_command"]
        near = [x for x in dict.fromkeys(near) if x and x != name and x.lower() not in registered_names]
        for spelling in near:
            texts = [wrap(d, [spelling.encode(), b'"x"'], set())]
            if cases:
                import re as _re
                sub = _re.sub(rb"(?i)(?<![\w:\"])" + _re.escape(name.encode()) + rb"(?![\w])", spelling.encode(), cases[0][0], count=1)
                if sub != cases[0][0]:
                    texts.append(sub)
            for t in texts:
                p = Parser()
                evals += 1
                if p.parse(t) is not False or "unknown command" not in (getattr(p, "error", None) or ""):
                    viol.append({"what": "unregistered name %r accepted (or not reported as unknown) after registration of %r: %r" % (spelling, name, getattr(p, "error", None)),
                                 "input_hex": t.hex(), "input": t.decode("latin-1")})
    for t in (b"keep_;", b"_keep;", b"stop__;", b"if_ true { stop; }", b"if true_ { stop; }", b"if _true { stop; }", b"file_into \"a\";",
              b'require "fileinto"; fileinto_ "a";', b"keepcommand;", b"KeepCommand;", b"action;", b"control;", b"test;", b"if test { stop; }", b"command;"):
        p = Parser()
        evals += 1
        if p.parse(t) is not False or "unknown command" not in (getattr(p, "error", None) or ""):
            viol.append({"what": "a near miss of a built-in name is accepted (or not reported as unknown): %r" % getattr(p, "error", None), "input_hex": t.hex(), "input": t.decode("latin-1")})
    ctx.notes.append("generated custom definitions meeting the theorem's hypothesis cmdSafe (table-safe on the extended table): %r" % safe_count)
    fresh, known = split_known("C20", viol, lambda f, v: False)
    return {"evaluations": evals, "distinct_nontrivial": nontriv, "rule": RULE, "samples": samples,
            "suites": {"custom": {"definitions": ndefs}}, "diffs": diffs, "violations": fresh, "known": known}


def replay(ctx, payload):
    print(json.dumps(payload.get("violation"), indent=1)[:3000])
    return 1
