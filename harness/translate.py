"""Translator: /repo → lean/SieveModel/Generated/*.lean  (DESIGN §7.1).

Run under /venv/bin/python in a FRESH process (so that an earlier add_commands cannot leak).
Emits only *data*: command tables, lexer rule list, ManageSieve constants, the Client method
graph, the Parser state footprint, factory constants.  A file that would be byte-identical is not
rewritten (so that `lake build` stays a no-op on an unchanged tree).
"""
import ast, inspect, json, os, sys, hashlib

VERIF = os.path.dirname(os.path.dirname(os.path.abspath(__file__)))
REPO = os.environ.get("SIEVELIB_REPO", "/repo")
GEN = os.path.join(VERIF, "lean", "SieveModel", "Generated")
sys.path.insert(0, REPO)

TYPES = {"tag": "tag", "string": "string", "stringlist": "stringlist", "number": "number", "test": "test", "testlist": "testlist"}
TOKS = ["left_bracket", "right_bracket", "left_parenthesis", "right_parenthesis", "left_cbracket", "right_cbracket",
        "semicolon", "comma", "hash_comment", "bracket_comment", "multiline", "string", "identifier", "tag", "number"]


class Unmodelled(Exception):
    pass


def lean_bytes(s):
    b = s.encode("utf-8") if isinstance(s, str) else bytes(s)
    if all(32 <= c < 127 and c not in (34, 92) for c in b):
        return 'sb "%s"' % b.decode("ascii")
    return "[" + ", ".join(str(c) for c in b) + "]"


def lean_str(s):
    return '"' + s.replace("\\", "\\\\").replace('"', '\\"') + '"'


def lean_opt(x, f):
    return "none" if x is None else "(some (%s))" % f(x)


def lean_list(xs, f):
    return "[" + ", ".join(f(x) for x in xs) + "]"


# ---------------------------------------------------------------------------------- command table

SOFT_PROBLEMS = []


def value_list(v, where):
    """`values` / `valid_for` must be a list of str: `x in <list>` is membership.  A plain str would make it a substring test —
    not what the model implements: kept as a one-element list (so that the generators still work) and reported"""
    if v is None:
        return None
    if isinstance(v, str):
        SOFT_PROBLEMS.append("%s is a str, not a list: `in` is a substring test there" % where)
        return [v]
    if isinstance(v, (list, tuple)) and all(isinstance(x, str) for x in v):
        return list(v)
    raise Unmodelled("%s is %r" % (where, type(v).__name__))


def extract_extra(e):
    t = e.get("type")
    if isinstance(t, str):
        types, is_str = [t], True
    elif isinstance(t, list):
        types, is_str = list(t), False
    else:
        raise Unmodelled("extra_arg type %r" % (t,))
    for x in types:
        if x not in TYPES:
            raise Unmodelled("extra_arg type name %r" % x)
    return {"types": types, "typeIsStr": is_str, "values": value_list(e.get("values"), "extra_arg values"),
            "validFor": value_list(e.get("valid_for"), "extra_arg valid_for")}


def extract_arg(a):
    if not isinstance(a, dict) or "name" not in a or "type" not in a:
        raise Unmodelled("argument definition %r" % (a,))
    for x in a["type"]:
        if x not in TYPES:
            raise Unmodelled("type name %r" % x)
    known = {"name", "type", "required", "values", "extra_arg", "extension", "extension_values"}
    extra_keys = set(a.keys()) - known
    if extra_keys:
        raise Unmodelled("unknown keys %r in argument %r" % (sorted(extra_keys), a["name"]))
    return {
        "name": a["name"],
        "types": list(a["type"]),
        "required": bool(a.get("required", False)),
        "values": value_list(a.get("values"), "values of argument %r" % a["name"]),
        "extValues": sorted(a.get("extension_values", {}).items()) if a.get("extension_values") else [],
        "extension": a.get("extension") or None,
        "extra": extract_extra(a["extra_arg"]) if "extra_arg" in a else None,
    }


def class_def(cname, cls, commands):
    """CmdDef for a class reachable through get_command_instance."""
    key = cname[: -len("Command")]
    name = cls.__name__.replace("Command", "").lower()
    special = "none"
    if cls.complete_cb is not commands.Command.complete_cb:
        if issubclass(cls, commands.RequireCommand) and cls.complete_cb is commands.RequireCommand.complete_cb:
            special = "require"
        else:
            SOFT_PROBLEMS.append("complete_cb override in %s" % cname)      # behaviour the model does not have: the tie is broken, the data still stands
    if cls.reassign_arguments is not commands.Command.reassign_arguments:
        if issubclass(cls, commands.HasflagCommand) and cls.reassign_arguments is commands.HasflagCommand.reassign_arguments:
            special = "hasflag"
        else:
            SOFT_PROBLEMS.append("reassign_arguments override in %s" % cname)
    for meth in ("check_next_arg", "iscomplete", "tosieve", "addchild", "get_type", "has_arguments"):
        if getattr(cls, meth) is not getattr(commands.Command, meth):
            SOFT_PROBLEMS.append("%s override in %s" % (meth, cname))
    try:
        ef = cls.get_expected_first(cls.__new__(cls))
    except Exception as e:  # noqa
        raise Unmodelled("get_expected_first of %s raised %r" % (cname, e))
    if ef is not None:
        for t in ef:
            if t not in TOKS:
                raise Unmodelled("expected-first token %r" % t)
    if cls._type not in ("control", "action", "test"):
        raise Unmodelled("_type %r of %s" % (cls._type, cname))
    return {
        "key": key, "name": name, "kind": cls._type,
        "args": [extract_arg(a) for a in cls.args_definition],
        "acceptChildren": bool(cls.accept_children), "variableArgs": bool(cls.variable_args_nb),
        "nonDet": bool(cls.non_deterministic_args),
        "mustFollow": list(cls.must_follow) if cls.must_follow is not None else None,
        "extension": cls.extension or None,
        "expectedFirst": list(ef) if ef is not None else None,
        "special": special,
    }


def extract_table():
    import sievelib.commands as commands
    table, unreachable = [], []
    for cname, obj in sorted(vars(commands).items()):
        if not cname.endswith("Command"):
            continue
        reachable = (isinstance(obj, type) and issubclass(obj, commands.Command)
                     and getattr(obj, "args_definition", None) is not None
                     and getattr(obj, "_type", None) is not None)
        if cname == "Command":
            continue  # the empty identifier cannot be lexed
        if not reachable:
            unreachable.append(cname)
            continue
        try:
            table.append(class_def(cname, obj, commands))
        except Unmodelled as e:
            SOFT_PROBLEMS.append("%s: %s (definition left out of the table)" % (cname, e))
    return table, unreachable


def render_extra(e):
    return ("{ types := %s, typeIsStr := %s, values := %s, validFor := %s }" % (
        lean_list(e["types"], lambda t: "." + t), "true" if e["typeIsStr"] else "false",
        lean_opt(e["values"], lambda v: lean_list(v, lean_bytes)),
        lean_opt(e["validFor"], lambda v: lean_list(v, lean_bytes))))


def render_arg(a):
    return ("{ name := %s, types := %s, required := %s, values := %s, extValues := %s, extension := %s, extra := %s }" % (
        lean_str(a["name"]), lean_list(a["types"], lambda t: "." + t), "true" if a["required"] else "false",
        lean_opt(a["values"], lambda v: lean_list(v, lean_bytes)),
        lean_list(a["extValues"], lambda kv: "(%s, %s)" % (lean_bytes(kv[0]), lean_bytes(kv[1]))),
        lean_opt(a["extension"], lean_bytes),
        lean_opt(a["extra"], render_extra)))


def render_def(d):
    return ("  { key := %s, name := %s, kind := .%s,\n    args := [%s],\n    acceptChildren := %s, variableArgs := %s, nonDet := %s,\n"
            "    mustFollow := %s, extension := %s,\n    expectedFirst := %s, special := .%s }" % (
                lean_bytes(d["key"]), lean_bytes(d["name"]), d["kind"],
                ",\n      ".join(render_arg(a) for a in d["args"]),
                "true" if d["acceptChildren"] else "false", "true" if d["variableArgs"] else "false",
                "true" if d["nonDet"] else "false",
                lean_opt(d["mustFollow"], lambda v: lean_list(v, lean_bytes)),
                lean_opt(d["extension"], lean_bytes),
                lean_opt(d["expectedFirst"], lambda v: lean_list(v, lambda t: "." + t)), d["special"]))


def render_tables(table, unreachable, problems):
    out = ["import SieveModel.Model.Table", "/-! GENERATED by harness/translate.py from /repo/sievelib/commands.py — do not edit. -/",
           "namespace Generated", ""]
    for p in problems:
        out.append("-- unmodelled: %s" % p)
    out.append("/-- `true` iff the translator met source it cannot interpret -/")
    out.append("def tablesUnmodelled : Bool := %s" % ("true" if problems else "false"))
    out.append("")
    out.append("/-- `*Command` globals that `get_command_instance` must treat as unknown -/")
    out.append("def unreachableClasses : List String := %s" % lean_list(unreachable, lean_str))
    out.append("")
    out.append("def builtinTable : Table := [")
    out.append(",\n".join(render_def(d) for d in table))
    out.append("]")
    out.append("")
    out.append("end Generated")
    return "\n".join(out) + "\n"


# ---------------------------------------------------------------------------------- wire encoding of a table (driver protocol)

def enc_bytes(s):
    b = s.encode("utf-8") if isinstance(s, str) else bytes(s)
    return b.hex() if b else "e"


def enc_opt_list(v):
    return "-" if v is None else ("," .join(enc_bytes(x) for x in v) if v else "e")


TCH = {"tag": "t", "string": "s", "stringlist": "l", "number": "n", "test": "T", "testlist": "L"}


def enc_arg(a):
    ex = a["extra"]
    exs = "-" if ex is None else "%s:%d:%s:%s" % ("".join(TCH[t] for t in ex["types"]), 1 if ex["typeIsStr"] else 0,
                                                   enc_opt_list(ex["values"]), enc_opt_list(ex["validFor"]))
    ev = ",".join("%s=%s" % (enc_bytes(k), enc_bytes(v)) for k, v in a["extValues"]) or "-"
    return "/".join([enc_bytes(a["name"]), "".join(TCH[t] for t in a["types"]) or "e", "1" if a["required"] else "0",
                     enc_opt_list(a["values"]), ev, enc_bytes(a["extension"]) if a["extension"] else "-", exs])


def enc_def(d):
    return " ".join([
        "key=" + enc_bytes(d["key"]), "name=" + enc_bytes(d["name"]), "kind=" + d["kind"][0],
        "ac=%d" % d["acceptChildren"], "va=%d" % d["variableArgs"], "nd=%d" % d["nonDet"],
        "mf=" + enc_opt_list(d["mustFollow"]), "ext=" + (enc_bytes(d["extension"]) if d["extension"] else "-"),
        "ef=" + ("-" if d["expectedFirst"] is None else ",".join(str(TOKS.index(t)) for t in d["expectedFirst"]) or "e"),
        "sp=" + d["special"][0], "args=" + (";".join(enc_arg(a) for a in d["args"]) or "e")])


# ---------------------------------------------------------------------------------- lexer rules

def extract_lexrules():
    from sievelib.parser import Parser
    rules = [(n.decode(), p.decode("latin-1")) for n, p in Parser.lrules]
    return rules


def render_lexrules(rules):
    import translate_ms
    aux = translate_ms.module_patterns(os.path.join(os.environ.get("SIEVELIB_REPO", "/repo"), "sievelib", "parser.py"))
    out = ["import SieveModel.Model.Lexer", "/-! GENERATED by harness/translate.py from Parser.lrules — do not edit. -/", "namespace Generated", "",
           "/-- rule names in source order -/", "def lexRuleNames : List String := %s" % lean_list([r[0] for r in rules], lean_str), "",
           "/-- rule patterns (informational; behaviour is validated by the `lex` suite) -/",
           "def lexRulePatterns : List String := %s" % lean_list([r[1] for r in rules], lean_str), "",
           "/-- the other regular expressions of the module (how the rules are compiled, white space), in source order -/",
           "def parserPatterns : List (String × String) := %s" % lean_list(aux, lambda x: "(%s, %s)" % (lean_str(x[0]), lean_str(x[1]))),
           "", "end Generated"]
    return "\n".join(out) + "\n"


def write_if_changed(path, content):
    try:
        if open(path).read() == content:
            return False
    except OSError:
        pass
    with open(path, "w") as f:
        f.write(content)
    return True


def source_digests():
    out = {}
    for fn in ("parser.py", "commands.py", "factory.py", "managesieve.py", "tools.py", "digest_md5.py"):
        try:
            out[fn] = hashlib.sha256(open(os.path.join(REPO, "sievelib", fn), "rb").read()).hexdigest()
        except OSError:
            out[fn] = None
    return out


def main():
    os.makedirs(GEN, exist_ok=True)
    problems = []
    try:
        table, unreachable = extract_table()
    except Unmodelled as e:
        problems.append(str(e))
        table, unreachable = [], []
    rules = extract_lexrules()
    problems += SOFT_PROBLEMS
    changed = []
    if write_if_changed(os.path.join(GEN, "Tables.lean"), render_tables(table, unreachable, problems)):
        changed.append("Tables.lean")
    if write_if_changed(os.path.join(GEN, "LexRules.lean"), render_lexrules(rules)):
        changed.append("LexRules.lean")
    fp = None
    try:
        import translate_fp
        fp = translate_fp.extract(REPO, table)
        if write_if_changed(os.path.join(GEN, "Footprint.lean"), translate_fp.render(fp, lean_list, lean_str)):
            changed.append("Footprint.lean")
    except Exception as e:  # noqa
        problems.append("footprint: %r" % (e,))
    fd = None
    try:
        import translate_factory
        fd = translate_factory.extract(REPO)
        if write_if_changed(os.path.join(GEN, "FactoryData.lean"), translate_factory.render(fd, lean_list, lean_bytes)):
            changed.append("FactoryData.lean")
    except Exception as e:  # noqa
        problems.append("factory data: %r" % (e,))
        write_if_changed(os.path.join(GEN, "FactoryData.lean"), translate_factory.render({"match_ext": {}, "arg_ext": {}}, lean_list, lean_bytes))
    try:
        import translate_ms
        changed += translate_ms.emit(GEN, write_if_changed, problems)
    except ImportError:
        pass
    gj = {"table": table, "unreachable": unreachable, "lexrules": rules, "problems": problems,
          "footprint": fp, "factory": fd, "table_wire": [enc_def(d) for d in table], "digests": source_digests(), "changed": changed}
    with open(os.path.join(VERIF, ".cache", "generated.json"), "w") as f:
        json.dump(gj, f, indent=1)
    print(json.dumps({"changed": changed, "problems": problems, "commands": len(table), "unreachable": unreachable}))


if __name__ == "__main__":
    os.makedirs(os.path.join(VERIF, ".cache"), exist_ok=True)
    main()
