"""Deep search for crash / hang outcomes of the parser MODEL over a small structural vocabulary (pruned by liveness),
confirmed on the real parser.  Usage: deepsearch.py [depth] [cap]"""
import sys, random
from common import *
import corr_parse, pyref

VOC = [b"if", b"else", b"true", b"not", b"anyof", b"hasflag", b'"a"', b"stop", b"{", b"}", b"[", b"]", b"(", b")", b",", b";", b":is", b"header"]
PRE = b'require ["imap4flags"];\n'


def lean(chunk):
    return run_driver(["parse " + hx(t) for t in chunk])


def main():
    depth = int(sys.argv[1]) if len(sys.argv) > 1 else 8
    cap = int(sys.argv[2]) if len(sys.argv) > 2 else 1500000
    r = random.Random(int(os.environ.get("VERIF_SEED", "0")))
    live = [()]
    bad = []
    for d in range(1, depth + 1):
        cands = [p + (v,) for p in live for v in VOC]
        if len(cands) > cap:
            cands = r.sample(cands, cap)
        texts = [PRE + b" ".join(c) for c in cands]
        cs = corr_parse.chunks(texts, corr_parse.NPROC * 4)
        res = [x for c in corr_parse.pool().map(lean, cs) for x in c]
        live = []
        for c, a in zip(cands, res):
            if a.startswith("crash") or a.startswith("hang"):
                bad.append((c, a))
            elif corr_parse.is_live(a):
                live.append(c)
        print("depth", d, "cands", len(cands), "live", len(live), "bad", len(bad), flush=True)
        if bad:
            break
    for c, a in bad[:10]:
        t = PRE + b" ".join(c)
        print(t, a, "| impl:", pyref.parse_answer(t)[:200])


if __name__ == "__main__":
    main()
