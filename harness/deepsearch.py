"""Deep search for crash / hang outcomes of the parser MODEL over a small structural vocabulary (pruned by liveness),
confirmed on the real parser.  Usage: deepsearch.py [depth] [cap]"""
import sys, random
from common import *
import corr_parse, pyref

VOC = [b"if", b"else", b"true", b"not", b"anyof", b"hasflag", b'"a"', b"stop", b"{", b"}", b"[", b"]", b"(", b")", b",", b";", b":is", b"header"]
PRE = b'require ["imap4flags"];\n'


def live_vocab():
    """structural tokens plus the name of every live command that takes tests, owns a block or re-assigns its arguments"""
    voc = list(VOC)
    exts = {"imap4flags"}
    try:
        table = json.load(open(os.path.join(VERIF, ".cache", "generated.json")))["table"]
        for d in table:
            hosts = any(t in ("test", "testlist") for a in d["args"] for t in a["types"])
            if hosts or d["acceptChildren"] or d["nonDet"]:
                n = d["name"].encode()
                if n not in voc:
                    voc.append(n)
                if d.get("extension"):
                    exts.add(d["extension"])
    except Exception:  # noqa
        pass
    pre = b"require [" + b",".join(b'"%s"' % e.encode() for e in sorted(exts)) + b"];\n"
    return voc[:30], pre


def lean(chunk):
    return run_driver(["parse " + hx(t) for t in chunk])


def search(depth, cap, verbose=False):
    r = random.Random(int(os.environ.get("VERIF_SEED", "0")))
    voc, pre = live_vocab()
    live = [()]
    bad = []
    for d in range(1, depth + 1):
        cands = [p + (v,) for p in live for v in voc]
        if len(cands) > cap:
            cands = r.sample(cands, cap)
        texts = [pre + b" ".join(c) for c in cands]
        cs = corr_parse.chunks(texts, corr_parse.NPROC * 4)
        res = [x for c in corr_parse.pool().map(lean, cs) for x in c]
        live = []
        for c, a in zip(cands, res):
            if a.startswith("crash") or a.startswith("hang"):
                bad.append((c, a))
            elif corr_parse.is_live(a):
                live.append(c)
        if verbose:
            print("depth", d, "cands", len(cands), "live", len(live), "bad", len(bad), flush=True)
        if bad:
            break
    out = []
    for c, a in bad[:10]:
        t = pre + b" ".join(c)
        out.append((t, a, pyref.parse_answer(t)))
    return out


def main():
    depth = int(sys.argv[1]) if len(sys.argv) > 1 else 8
    cap = int(sys.argv[2]) if len(sys.argv) > 2 else 1500000
    for t, a, i in search(depth, cap, verbose=True):
        print(t, a, "| impl:", i[:200])


if __name__ == "__main__":
    main()
