"""Grammar-directed generator of VALID Sieve scripts from the live command table, plus mutations.

A script is produced as a list of token byte strings together with what it needs (`requires`),
so that oracles can compute the expected verdict without asking the parser.
"""
from common import *

STRINGS = [b'"a"', b'"b c"', b'"x@y.z"', b'"\\"q\\""', b'"back\\\\slash"', b'"[br,ack]"', b'"\xc3\xa9t\xc3\xa9"', b'""', b'"INBOX"',
           b'"multi\nline"', b'"#nocomment"', b'"/* no */"', b'"semi;colon"', b'"{brace}"',
           b'"end\\\\"', b'"\\\\\\"x"', b'"]"', b'","', b'"[\\"a\\",\\"b\\"]"', b'"\xe2\x82\xac\xf0\x9f\x98\x80"', b'" lead and trail "', b'"\r\n"', b'"text:\n.\n"', b'"100%"', b'"%s%d%(k)s"',
           # a line break inside AND an escaped quote / backslash at the very end; long items with blanks (what a line-wrapping or
           # a "looks quoted" test would get wrong)
           b'"first line\nthen \\"quoted\\""', b'"\\"\n\\""', b'"x\r\ny\\\\"', b'"travel and expenses for the month of march"',
           b'"a rather long folder name / with several words in it"',
           # a byte order mark that opens a continuation line of a string is text
           b'"line one\n\xef\xbb\xbfline two"', b'"\xef\xbb\xbf"']
NUMBERS = [b"0", b"10", b"1K", b"2M", b"3g", b"100000", b"0K", b"00", b"007", b"010k", b"00G", b"1000000000000"]
MULTI = [b"text:\nhello\n.\n", b"text:\r\nhi $x\r\n.\r\n", b"text:\n.x\n.\n", b"text:\n20% off %s\n.\n", b"text:\rhello\r.\n", b"text:\nline one\r.\r\n", b"text: # c\r\nx\r\n.\r\n", b"text:\n\xef\xbb\xbfbom line\nplain\n\xef\xbb\xbf\xef\xbb\xbftwo\n.\n"]


class Gen:
    def __init__(self, table, r, allow_irregular=False):
        self.T = {d["name"]: d for d in table}
        self.table = table
        self.r = r
        self.allow_irregular = allow_irregular
        self.tests = [d for d in table if d["kind"] == "test"]
        self.actions = [d for d in table if d["kind"] == "action"]
        self.controls = [d for d in table if d["kind"] == "control"]

    # -- values
    def string(self):
        return self.r.choice(STRINGS)

    def strlist(self):
        if self.r.random() < 0.4:
            return [self.string()]
        n = self.r.randint(1, 3) if self.r.random() < 0.9 else self.r.randint(5, 9)     # now and then a list far wider than a line
        items = [self.string() for _ in range(n)]
        if self.r.random() < 0.25:
            items.append(self.r.choice(items))       # the same string twice in one list (last = an earlier one)
        out = [b"["]
        for i, it in enumerate(items):
            if i:
                out.append(b",")
            out.append(it)
        out.append(b"]")
        return out

    def required_value(self, a):
        vals = list(a["values"] or []) + [k for k, _ in a["extValues"]]
        if vals:
            return [self.case(self.r.choice(vals).encode())]
        return self.value_for_types(a["types"])

    def value_for_types(self, types):
        ts = [t for t in types if t in ("string", "stringlist", "number", "tag")]
        t = self.r.choice(ts)
        if t == "string":
            return [self.r.choice(STRINGS + MULTI) if self.r.random() < 0.15 else self.string()]
        if t == "stringlist":
            return self.strlist()
        if t == "number":
            return [self.r.choice(NUMBERS)]
        return [b":x"]

    def case(self, b):
        m = self.r.random()
        if m < 0.7:
            return b
        if m < 0.85:
            return b.upper()
        return bytes((c ^ 0x20) if chr(c).isalpha() and self.r.random() < 0.5 else c for c in b)

    # -- arguments of one command
    def args(self, d, need):
        toks = []
        opts = [a for a in d["args"] if not a["required"]]
        reqs = [a for a in d["args"] if a["required"]]
        has_required = len(reqs) > 0
        chosen = []
        for a in opts:
            if "tag" in a["types"]:
                if not has_required and not self.allow_irregular:
                    continue  # D9: commands without required arguments reject their own tags (known finding)
                if self.r.random() < 0.35:
                    chosen.append(a)
            elif self.r.random() < 0.3:
                chosen.append(a)
        self.r.shuffle(chosen)
        for a in chosen:
            if "tag" not in a["types"]:
                continue
            vals = list(a["values"] or []) + [k for k, _ in a["extValues"]]
            if not vals:
                continue
            v = self.r.choice(vals)
            ext = dict(a["extValues"]).get(v)
            if ext:
                need.add(ext)
            if a["extension"]:
                need.add(a["extension"])
            toks.append(self.case(v.encode()))
            ex = a["extra"]
            if ex and (ex["validFor"] is None or v in ex["validFor"]):
                if ex["values"]:
                    toks.append(self.r.choice(ex["values"]).encode())
                else:
                    types = list(ex["types"])
                    if ex["typeIsStr"] and types == ["stringlist"]:
                        types = ["stringlist", "string"]
                    if ex["typeIsStr"] and types == ["string"]:
                        types = ["string"]
                    toks += self.value_for_types(types)
        # optional positional slots come first in the definition (imap4flags variable name)
        for a in chosen:
            if "tag" in a["types"]:
                continue
            toks += self.value_for_types(["string"])
        return toks, reqs

    def test(self, depth, need):
        cands = self.tests if depth > 0 else [d for d in self.tests if not any(t in ("test", "testlist") for a in d["args"] for t in a["types"])]
        d = self.r.choice(cands)
        if d["extension"]:
            need.add(d["extension"])
        toks = [self.case(d["name"].encode())]
        atoks, reqs = self.args(d, need)
        toks += atoks
        for a in reqs:
            if a["types"] == ["test"]:
                toks += self.test(depth - 1, need)
            elif a["types"] == ["testlist"]:
                n = self.r.randint(1, 3)
                subs = [self.test(depth - 1, need) for _ in range(n)]
                if self.r.random() < 0.3:
                    subs.append(list(self.r.choice(subs)))      # the same test twice in one list (legal; last = an earlier one)
                toks.append(b"(")
                for i, sub in enumerate(subs):
                    if i:
                        toks.append(b",")
                    toks += sub
                toks.append(b")")
            else:
                toks += self.required_value(a)
        return toks

    def command(self, depth, need, prev_if):
        """returns (tokens, is_if_like)"""
        choices = self.actions + [d for d in self.controls if d["name"] != "require"]
        d = self.r.choice(choices)
        if d["mustFollow"] and not (prev_if and prev_if in d["mustFollow"]):
            d = self.T.get("if", d)
        if d["acceptChildren"] and depth <= 0:
            d = self.T.get("stop", d)
        if d["extension"]:
            need.add(d["extension"])
        toks = [self.case(d["name"].encode())]
        atoks, reqs = self.args(d, need)
        toks += atoks
        for a in reqs:
            if a["types"] == ["test"]:
                toks += self.test(2, need)
            elif a["types"] == ["testlist"]:
                toks += [b"(", *self.test(1, need), b")"]
            else:
                toks += self.required_value(a)
        if d["acceptChildren"]:
            toks.append(b"{")
            toks += self.block(depth - 1, need)
            toks.append(b"}")
        else:
            toks.append(b";")
        return toks, d["name"]

    def block(self, depth, need):
        toks = []
        prev = None
        for _ in range(self.r.randint(0, 3)):
            t, name = self.command(depth, need, prev)
            toks += t
            prev = name if name in ("if", "elsif") else None
        return toks

    def script(self, depth=2):
        """(tokens incl. require, set of needed extensions, index of first body token)"""
        need = set()
        body = []
        prev = None
        for _ in range(self.r.randint(1, 4)):
            t, name = self.command(depth, need, prev)
            body += t
            prev = name if name in ("if", "elsif") else None
        req = []
        if need:
            exts = sorted(need)
            self.r.shuffle(exts)
            if len(exts) == 1 and self.r.random() < 0.5:
                req = [b"require", b'"%s"' % exts[0].encode(), b";"]
            else:
                req = [b"require", b"["]
                for i, e in enumerate(exts):
                    if i:
                        req.append(b",")
                    req.append(b'"%s"' % e.encode())
                req += [b"]", b";"]
        return req + body, need, len(req)


SEPS = [b" ", b"\n", b"\r\n", b"\t", b"  ", b" # c\n", b" /* c */ ", b"\n\n"]


def render(tokens, r=None, style="space"):
    """join tokens; style 'space' = one blank, 'rand' = random separators (whitespace, comments, line endings)"""
    if style in ("tight", "tightc"):
        # no white space at all where two tokens cannot run into each other (a word character on both sides of the seam is the only
        # case that needs a separator); 'tightc' glues with a bracket comment instead of nothing / a blank
        word = lambda c: c.isalnum() or c == b"_"
        out = bytearray()
        for i, t in enumerate(tokens):
            if i:
                need = word(bytes(out[-1:])) and word(t[:1])
                out += (b"/*c*/" if style == "tightc" else (b" " if need else b""))
            out += t
        return bytes(out)
    if style == "space" or r is None:
        return b" ".join(tokens)
    out = bytearray()
    for i, t in enumerate(tokens):
        if i:
            out += r.choice(SEPS)
        out += t
    if r.random() < 0.5:
        out += r.choice(SEPS)
    return bytes(out)


def single_edits(tokens, vocab, r, limit=None):
    """delete / duplicate / replace / swap — one token at a time"""
    n = len(tokens)
    out = []
    for i in range(n):
        out.append(("del", i, tokens[:i] + tokens[i + 1:]))
        out.append(("dup", i, tokens[:i + 1] + tokens[i:]))
        if i + 1 < n:
            out.append(("swap", i, tokens[:i] + [tokens[i + 1], tokens[i]] + tokens[i + 2:]))
        t0 = tokens[i]
        if len(t0) > 3 and (t0[:1] == b":" or t0.isalpha()):
            # a tag or a name cut short (`:address` for `:addresses`, `fileint`): a prefix of a legal word is not that word
            for cut in (t0[:-1], t0[:max(2, len(t0) // 2)]):
                out.append(("trunc", i, tokens[:i] + [cut] + tokens[i + 1:]))
        if tokens[i].swapcase() != tokens[i]:
            # letter case: immaterial in identifiers and tags, data in strings (a value from a closed list stops being one)
            out.append(("case", i, tokens[:i] + [tokens[i].swapcase()] + tokens[i + 1:]))
        for v in (vocab if limit is None else r.sample(vocab, min(limit, len(vocab)))):
            if v != tokens[i]:
                out.append(("rep", i, tokens[:i] + [v] + tokens[i + 1:]))
    # the capabilities of a `require` squeezed into ONE string (comma-, blank- or semicolon-separated, padded, prefixed): a
    # capability string is a name, not a list — none of the names in it is thereby required
    for i in range(n):
        if tokens[i].lower() == b"require" and b";" in tokens[i:]:
            end = i + tokens[i:].index(b";")
            names = [t[1:-1] for t in tokens[i + 1:end] if t[:1] == b'"' and len(t) >= 2]
            if names and all(b'"' not in x and b"\\" not in x for x in names):
                forms = [b",".join(names), b", ".join(names), b" ".join(names), b"x," + b",".join(names), b",".join(names) + b",", b" " + names[0], names[0] + b" ",
                         # a name wrapped in ESCAPED quotes is another name
                         b'\\"' + names[0] + b'\\"', b'\\"' + names[0], names[0] + b'\\"', b"\\\\" + names[0]]
                if len(names) == 1:
                    forms = forms[3:]
                for f in forms:
                    out.append(("reqjoin", i, tokens[:i + 1] + [b'"' + f + b'"'] + tokens[end:]))
    return out


SNIPPETS = [[b"else", b"{", b"stop", b";", b"}"], [b"elsif", b"true", b"{", b"keep", b";", b"}"], [b"if", b"true", b"{", b"}"],
            [b"stop", b";"], [b"require", b'"fileinto"', b";"], [b"true"], [b"{", b"}"], [b"(", b"true", b")"], [b"[", b'"a"', b"]"],
            # a value where a command should start, with bytes that are no UTF-8 (the verdict quotes the offending token)
            [b'"caf\xe9"'], [b"text:\n\xff\xfe\n.\n"], [b'"\xed\xa0\x80"', b";"], [b":\xc3"], [b"9\xff"]]


def structural_edits(tokens, r, limit=12):
    """multi-token edits: a snippet (else-block, elsif-block, if-block, command, late require, stray test / block / list)
    inserted at a command start (script start, after `{`, `;` or `}`), a balanced `{…}` group removed or doubled"""
    starts = [0] + [i + 1 for i, t in enumerate(tokens) if t in (b"{", b";", b"}")]
    out = []
    for pos in starts:
        for sn in SNIPPETS:
            out.append(("ins-" + sn[0].decode("latin-1"), pos, tokens[:pos] + sn + tokens[pos:]))
    opens = [i for i, t in enumerate(tokens) if t == b"{"]
    for i in opens:
        d = 0
        for j in range(i, len(tokens)):
            d += tokens[j] == b"{"
            d -= tokens[j] == b"}"
            if d == 0:
                out.append(("del-block", i, tokens[:i] + tokens[j + 1:]))
                out.append(("dup-block", i, tokens[:j + 1] + tokens[i:j + 1] + tokens[j + 1:]))
                break
    if limit is not None and len(out) > limit:
        out = r.sample(out, limit)
    return out


def byte_mutations(text, r, n):
    out = []
    L = len(text)
    for _ in range(n):
        b = bytearray(text)
        k = r.random()
        pos = r.randrange(L + 1) if L else 0
        if k < 0.2:
            b = b[:pos]
        elif k < 0.4 and L:
            b[min(pos, L - 1)] = r.choice([0, 0xFF, 0xC3, 0x80, 0x22, 0x5C, 0x0A, 0x0D, 0x7B, 0x28, 0x23, 0x2F, 0x2A, 0xE2, 0xF0, 0xED])
        elif k < 0.6:
            b[pos:pos] = r.choice([b"\xff", b"\xc3\xa9", b"\xe2\x82\xac", b"\xf0\x9f\x98\x80", b"\x00", b"\r", b"\n", b'"', b"\\", b"/*", b"#", b"text:", b"\xed\xa0\x80", b"\xc0\xaf"])
        elif k < 0.7 and L:
            del b[min(pos, L - 1)]
        elif k < 0.8:
            b = b.replace(b"\n", b"\r\n")
        elif k < 0.9:
            b[pos:pos] = r.choice([b"control", b"action", b"test", b"unknown", b"command", b"Command", b"bad_value", b"parse"]) + b" "
        else:
            j = r.randrange(L + 1) if L else 0
            a, c = sorted((pos, j))
            b[a:c] = b""
        out.append(bytes(b))
    return out
