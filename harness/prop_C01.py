"""C01 — the parser accepts exactly the valid scripts of its supported language."""
from prop_common import *
import re
import pyref, corr_parse, gen_scripts

RULE = ("exhaustive token sequences (61-token vocabulary, with and without a require-everything preamble), grammar-directed valid scripts, "
        "all their single-token edits, byte mutations; each classified valid / invalid / outside-the-claim by the independent recogniser "
        "Spec.wf (Lean, run in the driver) and compared with the parser's verdict; a template family placing elsif / else / require / stray tests at "
        "every nesting position after every kind of predecessor; plus re-rendering of valid scripts with flipped letter "
        "case, CR/LF/CRLF, tabs and comments; non-trivial = classified valid or invalid with ≥ 4 tokens")


def wf_all(texts):
    cs = corr_parse.chunks(texts, corr_parse.NPROC * 2)
    res = corr_parse.pool().map(_wf_worker, cs)
    return [x for c in res for x in c]


def _wf_worker(chunk):
    return run_driver(["wf " + hx(t) for t in chunk])


_VOCAB = json.load(open(os.path.join(VERIF, "spec", "vocabulary.json")))
VOCAB_HEX = {n.encode().hex() for k in ("control", "action", "test") for n in _VOCAB[k]}
_NODE = re.compile(r"\(([0-9a-f]+) A\[")


FROZEN_TAGS = {c: set(ts) for c, ts in _VOCAB.get("tags", {}).items()}
FROZEN_PARAMS = _VOCAB.get("tag_params", {})


def foreign_tags(text, params=True):
    """(command, tag) pairs of the script, by its own token structure, that the frozen vocabulary does not know"""
    import oracle_generic
    try:
        toks = oracle_generic.tokenize(text)
    except oracle_generic.GenericError:
        return []
    out, cur = [], None
    for i, (kind, val) in enumerate(toks):
        if kind == "id":
            cur = val.decode("latin-1").lower()
        elif kind == "tag" and cur is not None:
            t = val.decode("latin-1").lower()
            if t not in FROZEN_TAGS.get(cur, ()):
                out.append((cur, t))
                continue
            pv = FROZEN_PARAMS.get(t) if params else None
            if pv is not None:
                # the token after the tag is its parameter: of an admitted kind and, where the set is closed, an admitted value
                nk, nv = toks[i + 1] if i + 1 < len(toks) else ("end", b"")
                kind_ok = (nk == "str" and "string" in pv["kinds"]) or (nk == "num" and "number" in pv["kinds"]) or (nk == "[" and "stringlist" in pv["kinds"])
                if not kind_ok:
                    out.append((cur, "%s followed by %s %r" % (t, nk, nv[:20])))
                elif pv["values"] is not None and nv.decode("latin-1") not in pv["values"]:
                    out.append((cur, "%s with the value %r" % (t, nv[:30])))
    return out


def judge(text, impl, wf):
    acc = impl.startswith("accept")
    rej = impl.startswith("reject")
    if acc and b":" in text:
        # the frozen tag vocabulary: a tag belongs to the command whose identifier precedes it (arguments come before nested tests)
        # (parameters are judged on scripts the recogniser calls valid: a command cut short after a tag is outside the claim)
        bad = foreign_tags(text, params=(wf == "valid"))
        if bad:
            return "a tag, or a value for a tag's parameter, outside the supported vocabulary is accepted: %s" % ", ".join("%s %s" % x for x in bad[:3])
    if acc:
        # the frozen vocabulary (spec/vocabulary.json, not derived from the code): a node whose name is not a word of the
        # supported language is an unknown command that was accepted
        extra = [bytes.fromhex(n).decode("latin-1") for n in set(_NODE.findall(impl)) if n not in VOCAB_HEX]
        if extra:
            return "unknown command accepted: %s is not a command of the supported language" % ", ".join(sorted(extra))
    if wf == "valid" and not acc:
        return "valid script rejected: " + impl[:140]
    if wf == "invalid" and not rej:
        return "invalid script not rejected: " + impl[:100]
    return None


def matcher(f, v):
    m = f.get("match", {})
    if m.get("kind") == "zero-required-command-with-tag":
        import re
        t = bytes.fromhex(v["input_hex"]).lower()
        return v["what"].startswith("valid script rejected") and any(re.search(rb"\b" + c.encode() + rb"\s+:", t) for c in m["commands"])
    if m.get("kind") == "tag-after-optional-positional":
        if not v["what"].startswith("invalid script not rejected"):
            return False
        return tag_after_optional_positional(bytes.fromhex(v["input_hex"]), m["commands"])
    return False


def variants(ctx, n):
    """valid generated scripts re-rendered: the verdict must not change"""
    r = rng("c01-variants")
    g = gen_scripts.Gen(table_of(ctx), r)
    out = []
    for _ in range(n):
        toks, need, nreq = g.script(2)
        base = gen_scripts.render(toks)
        flipped = [(t.swapcase() if (t[:1].isalpha() or t[:1] == b":") and not t.startswith(b"text:") else t) for t in toks]
        out.append((base, [gen_scripts.render(flipped), gen_scripts.render(toks, r, "rand"), b" \r\n".join(toks),
                           b"\t".join(toks), b" /* x */ ".join(toks) + b" # end", b"\r\n".join(toks) + b"\r\n",
                           gen_scripts.render(toks, None, "tight"), gen_scripts.render(toks, None, "tightc")]))
    return out


def run(ctx):
    rec, info = parser_records(ctx)
    wfs = wf_all(rec.text)
    viol = []
    cls = {"valid": 0, "invalid": 0, "outside": 0}
    nontriv = 0
    for t, a, w in zip(rec.text, rec.impl, wfs):
        cls[w] = cls.get(w, 0) + 1
        if w != "outside" and len(t.split()) >= 4:
            nontriv += 1
        bad = judge(t, a, w)
        if bad:
            viol.append({"input_hex": t.hex(), "input": t.decode("latin-1"), "what": bad, "wf": w})
    # generated "valid" scripts must be classified valid by the recogniser itself (guards the generator)
    gen_valid = [(t, w) for t, m, w in zip(rec.text, rec.meta, wfs) if m.get("valid")]
    info["generated_classified_valid"] = sum(1 for _, w in gen_valid if w == "valid")
    info["generated_total"] = len(gen_valid)
    tmpl = nesting_templates()
    t_impl, t_ys, t_model = corr_parse.eval_both(tmpl)
    t_wf = wf_all(tmpl)
    diffs = rec.diffs()
    for t, a, m, w in zip(tmpl, t_impl, t_model, t_wf):
        cls[w] = cls.get(w, 0) + 1
        nontriv += 1
        if a != m:
            diffs.append({"suite": "parse", "input_hex": t.hex(), "input": t.decode("latin-1"), "impl": a[:300], "model": m[:300]})
        bad = judge(t, a, w)
        if bad:
            viol.append({"input_hex": t.hex(), "input": t.decode("latin-1"), "what": bad, "wf": w})
    var = variants(ctx, 150 if ctx.tier == "quick" else 1500)
    texts = [v for b, vs in var for v in [b] + vs]
    impl, ys, model = corr_parse.eval_both(texts)
    i = 0
    for b, vs in var:
        base = impl[i]
        for k, v in enumerate([b] + vs):
            if impl[i + k] != model[i + k]:
                diffs.append({"suite": "parse", "input_hex": v.hex(), "input": v.decode("latin-1"), "impl": impl[i + k][:300], "model": model[i + k][:300]})
            if impl[i + k].split(" ")[0] != base.split(" ")[0]:
                viol.append({"input_hex": v.hex(), "input": v.decode("latin-1"), "what": "verdict changed under re-rendering (case / whitespace / line endings / comments): %s vs %s" % (base[:60], impl[i + k][:80]), "base_hex": b.hex()})
        i += 1 + len(vs)
    # Parser objects in company: scripts that lack a `require` (invalid) parsed by a Parser that shares the process with others,
    # one of which — or itself — has just parsed the complete script
    import aliasing, prop_C07
    pairs = [(c[0], c[4]) for c in prop_C07.removal_cases(ctx, 25 if ctx.tier == "quick" else 250)][: (60 if ctx.tier == "quick" else 600)]
    for v in aliasing.parser_company(pairs):
        viol.append(dict(v, what="verdict depends on other Parser objects: " + v["what"]))
    fresh, known = split_known("C01", viol, matcher)
    res = std_result(rec, info, fresh, known, RULE, {"wf_classes": cls, "variants": {"evaluations": len(texts)}}, diffs=diffs)
    res["evaluations"] += len(texts) + len(tmpl)
    res["suites"]["nesting_templates"] = {"evaluations": len(tmpl)}
    res["distinct_nontrivial"] = nontriv
    return res


def nesting_templates():
    """misplaced elsif / else / require / stray tests at every nesting position after every kind of predecessor"""
    inner = [b"else { stop; }", b"elsif true { stop; }", b"else { }", b'require "fileinto";', b"true", b"stop; else { keep; }", b"if true { } else { stop; }",
             b"if true { } elsif true { } else { }", b"elsif true { } else { }"]
    pre = [b"", b"if true { stop; } ", b"if true { } elsif false { } ", b"stop; ", b"if true { } else { } ", b"# c\n", b'require "fileinto"; ']
    outer = [b"%s", b"if false { %s }", b"if true { } else { %s }", b"if true { if false { %s } }", b"if true { keep; %s }", b"if true { if true { } %s }",
             b"if true { } elsif true { %s }", b"if true { stop; } if true { %s }"]
    out = []
    for a in pre:
        for o in outer:
            for x in inner:
                out.append(a + (o % x))
                out.append(a + (o % x) + b" keep;")
    # test lists: members of every shape × what stands between and around them
    members = [b"true", b"not true", b"anyof (true)", b"not anyof (true)", b"not not allof (true, false)", b'header "a" "b"', b'exists ["x"]',
               b"allof (not anyof (true), false)"]
    between = [b", ", b" ", b",, ", b" , , ", b") (", b", (", b"), "]
    for a in members:
        for b in members[:5]:
            for sep in between:
                for head in (b"anyof", b"allof"):
                    out.append(b"if " + head + b" (" + a + sep + b + b") { stop; }")
        out.append(b"if allof (" + a + b",) { stop; }")
        out.append(b"if allof (, " + a + b") { stop; }")
        out.append(b"if allof (" + a + b") (" + a + b") { stop; }")
        out.append(b"if not " + a + b" " + a + b" { stop; }")
    return list(dict.fromkeys(out))


def search(ctx, broken):
    """proof obligation or tie broken: look for a script the real parser misjudges — structural edits of many more generated
    scripts, and nesting templates around misplaced elsif/else/require/tests; judged by the recogniser alone"""
    r = rng("c01-search")
    g = gen_scripts.Gen(table_of(ctx), r)
    texts = []
    for _ in range(300):
        toks = g.script(2)[0]
        for kind, pos, mt in gen_scripts.structural_edits(toks, r, limit=None):
            texts.append(gen_scripts.render(mt))
    texts += nesting_templates()
    for b in broken:
        d = b.get("detail")
        if isinstance(d, dict) and "input_hex" in d:
            texts.append(bytes.fromhex(d["input_hex"]))
    texts = list(dict.fromkeys(texts))
    impl, ys, model = corr_parse.eval_both(texts)
    wfs = wf_all(texts)
    out = []
    for t, a, w in zip(texts, impl, wfs):
        bad = judge(t, a, w)
        if bad:
            v = {"input_hex": t.hex(), "input": t.decode("latin-1"), "what": bad, "wf": w}
            if not any(matcher(f, v) for f in findings_for("C01") if f.get("status") == "known"):
                out.append(v)
    out.sort(key=lambda v: len(v["input_hex"]))
    return out


def replay(ctx, payload):
    def oracle(t, impl, y, m):
        w = run_driver(["wf " + hx(t)])[0]
        print("wf      :", w)
        return judge(t, impl, w)
    return replay_parse(ctx, payload, oracle)


def still_fails(ctx, t):
    import pyref
    impl = pyref.parse_answer(t)
    w = run_driver(["wf " + hx(t)])[0]
    bad = judge(t, impl, w)
    if not bad:
        return False
    v = {"input_hex": t.hex(), "what": bad}
    return not any(matcher(f, v) for f in findings_for("C01") if f.get("status") == "known")
