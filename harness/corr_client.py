"""`client` correspondence suite: whole sessions of the real Client against the reference server,
replayed step by step on the Lean model (same reply bytes, same recv schedule)."""
from common import *
import msref, refserver

NAMES = ["a", "b", "main", 'q"uote', "back\\slash", "sp ace", "{5}", "{3+}", "OK", "NO x", "été", "x ACTIVE", "", "cr\r\nlf", "nul\0x", "été\nhiver", "nul\0é€", "\r\n€"]
SAFE_NAMES = ["a", "b", "main", 'q"uote', "back\\slash", "sp ace", "{5}", "OK", "NO x", "été", "BYE", "not active", "x ACTIVE"]
BODIES = ['vacation "a\x0bb\x0cc";\r\n', "# d\u2028e\u2029f\u0085g\r\nkeep;\r\n", "x\x1cy\x1dz\x1e\r\n",
          "keep;", "", "line1\r\nline2\r\n", "OK\r\nNO \"x\"\r\n{3}\r\nBYE\r\n", "no newline at end", "é€😀\r\n", '"quoted"\r\n', "a\nb\rc\r\n",
          "{12}\r\n", "x" * 300, "WARN\r\n", "SYNTAXERROR", "\r\n\r\n", "\ufeffkeep;\r\n\ufeffstop;\r\n"]


def random_schedule(r, n=40):
    k = r.random()
    if k < 0.3:
        return []
    if k < 0.45:
        return [1] * 2000
    if k < 0.6:
        return [r.choice([2, 3, 7, 64])] * 500
    return [r.randint(1, 12) for _ in range(n)]


def new_server(r, **kw):
    scripts = {}
    for nm in r.sample(SAFE_NAMES, r.randint(0, 4)):
        scripts[nm.encode()] = r.choice(BODIES).encode()
    active = r.choice(list(scripts)) if scripts and r.random() < 0.6 else None
    return refserver.RefServer(r, scripts=scripts, active=active, **kw)


class Step:
    def __init__(self, name, args, impl, req, server_snapshot=None, last=None):
        self.name, self.args, self.impl, self.req = name, args, impl, req
        self.server = server_snapshot
        self.last = last


def run_session(r, nops, server_kw=None, connect_kw=None, names=None, allow_faults=False):
    """returns (steps, server) — every step has the impl answer and the model request line"""
    names = names or SAFE_NAMES
    srv = new_server(r, **(server_kw or {}))
    s = msref.Session()
    steps = [Step("new", (), "ok", "c op=new")]
    ck = dict(login="user", pw="pw", authz="", starttls=False, mech=None)
    ck.update(connect_kw or {})
    sched = random_schedule(r)
    greeting = srv.greeting()
    # connect: the greeting is pushed by create_connection in msref (server.greeting)
    impl = s.connect(b"", list(sched), ck["login"], ck["pw"], ck["authz"], ck["starttls"], ck["mech"], server=srv,
                     tlsok=ck.get("tlsok", True), tcp=ck.get("tcp", True))
    req = msref.req_connect(greeting if ck.get("tcp", True) else b"", sched, ck["login"], ck["pw"], ck["authz"], ck["starttls"], ck["mech"],
                            tcp=ck.get("tcp", True), tlsok=ck.get("tlsok", True), later=list(s.wire.segments))
    steps.append(Step("connect", ck, impl, req, snapshot(srv), srv.last))
    for _ in range(nops):
        if "res=error" in steps[-1].impl or "res=crash" in steps[-1].impl or "res=hang" in steps[-1].impl:
            break
        op = r.choice(["listscripts", "getscript", "putscript", "deletescript", "setactive", "havespace", "renamescript", "checkscript",
                       "capability", "listscripts", "getscript", "putscript"])
        if op in ("listscripts", "capability"):
            args = ()
        elif op in ("getscript", "deletescript", "setactive"):
            args = (r.choice(names),)
        elif op == "putscript":
            args = (r.choice(names), r.choice(BODIES))
        elif op == "havespace":
            args = (r.choice(names), r.choice([0, 1, 9999, 10001, 123456789]))
        elif op == "renamescript":
            args = (r.choice(names), r.choice(names))
        else:
            args = (r.choice(BODIES),)
        if allow_faults and r.random() < 0.1:
            srv.faults = {r.choice(list(refserver.RefServer.SCRIPT_VERBS)): r.choice(["NO", "BYE", "SILENT"])}
        else:
            srv.faults = {}
        sched = random_schedule(r)
        nseg = len(s.wire.segments)
        before = snapshot(srv)
        impl = s.op(op, *args, sched=list(sched))
        req = msref.req_op(op, *args, stream=b"", sched=sched, later=list(s.wire.segments[nseg:]))
        st = Step(op, args, impl, req, snapshot(srv), srv.last)
        st.before = before
        st.faults = dict(srv.faults)
        st.writes = [w for w in s.wire.writes]
        steps.append(st)
    return steps, srv, s


def snapshot(srv):
    return {"scripts": dict(srv.scripts), "active": srv.active, "authed": srv.authed, "log": list(srv.log), "ncmd": len(srv.commands)}


def compare(sessions):
    """run all model requests in one driver call; returns diffs"""
    lines = [st.req for steps in sessions for st in steps]
    ans = run_driver(lines, live_table=False)
    diffs = []
    i = 0
    for si, steps in enumerate(sessions):
        for k, st in enumerate(steps):
            a = ans[i]
            i += 1
            if a != st.impl:
                diffs.append({"suite": "client", "session": si, "step": k, "op": st.name, "args": repr(st.args)[:200], "impl": st.impl[:400], "model": a[:400],
                              "requests": [x.req for x in steps[:k + 1]]})
                break
        else:
            continue
        i += len(steps) - k - 1
    return diffs


if __name__ == "__main__":
    import sys
    r = rng("client-main")
    sessions = []
    for i in range(int(sys.argv[1]) if len(sys.argv) > 1 else 200):
        kw = {"version": r.random() < 0.5, "literal_names": False}
        steps, srv, s = run_session(r, r.randint(1, 10), kw, names=NAMES if i % 3 == 0 else SAFE_NAMES, allow_faults=(i % 2 == 0))
        sessions.append(steps)
    d = compare(sessions)
    print("sessions", len(sessions), "steps", sum(len(s) for s in sessions), "diffs", len(d))
    for x in d[:6]:
        print(json.dumps({k: v for k, v in x.items() if k != "requests"}, indent=1)[:1500])
