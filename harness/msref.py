"""Driving the REAL sievelib.managesieve.Client over a fake socket; answers in the driver's `c` format."""
import socket, ssl
from unittest import mock
from common import *
from sievelib import managesieve


class Wire:
    """What the model calls Net, plus the write log. Optionally a reactive server."""

    def __init__(self, stream=b"", sched=None, server=None):
        self.stream = bytearray(stream)
        self.sched = list(sched or [])
        self.writes = []
        self.server = server
        self.recv_calls = 0
        self.segments = []      # what the reactive server released, one entry per sendall / TLS handshake
        self.late = set()       # indices of released segments that reach the client only after one read has timed out
        self.delayed = b""

    def release(self, seg):
        idx = len(self.segments)
        self.segments.append(bytes(seg))
        if idx in self.late:
            self.delayed += seg
        else:
            self.stream += self.delayed + seg
            self.delayed = b""

    def feed(self, b=b"", sched=None):
        self.stream += b
        if sched is not None:
            self.sched = list(sched)


class WouldBlockForever(Hang):
    """a read on a socket without a time-out while the peer is silent: the real call never returns"""


class FakeSocket:
    def __init__(self, wire, tls=False, timeout=None):
        self.wire, self.tls = wire, tls
        self.timeout = timeout      # as a real socket: None = blocking for ever, until settimeout() says otherwise

    def settimeout(self, t):
        self.timeout = t

    def close(self):
        pass

    def sendall(self, b):
        b = bytes(b)
        self.wire.writes.append((self.tls, b))
        if self.wire.server is not None:
            self.wire.release(self.wire.server.receive(b))

    def recv(self, n):
        w = self.wire
        w.recv_calls += 1
        if not w.stream:
            if getattr(w, "eof", False) or (getattr(w.server, "closed", False) and not w.delayed):
                return b""       # the peer has closed the connection (after BYE / LOGOUT, or because the test says so)
            if w.delayed:       # the data was merely slow: it is there for whoever reads next
                w.stream += w.delayed
                w.delayed = b""
            if self.timeout is None:
                raise WouldBlockForever()
            raise socket.timeout("timed out")
        cap = n
        if w.sched:
            cap = min(n, max(w.sched.pop(0), 1))
        out = bytes(w.stream[:cap])
        del w.stream[:cap]
        return out


class FakeCtx:
    def __init__(self, wire, ok):
        self.wire, self.ok = wire, ok

    def load_cert_chain(self, certfile=None, keyfile=None, password=None):
        # as the real SSLContext: a certificate file is required (`None` is a TypeError there)
        if certfile is None:
            raise TypeError("certfile should be a valid filesystem path")
        self.wire.cert = (certfile, keyfile)

    def wrap_socket(self, sock, server_hostname=None):
        if not self.ok:
            raise ssl.SSLError("handshake failed")
        if self.wire.server is not None and hasattr(self.wire.server, "tls_started"):
            self.wire.release(self.wire.server.tls_started())
        return FakeSocket(self.wire, tls=True, timeout=getattr(sock, "timeout", None))


def hexor(b):
    if isinstance(b, str):
        b = b.encode("utf-8", "surrogatepass")
    return b.hex() if b else "e"


def show_value(v):
    if v is True:
        return "b1"
    if v is False:
        return "b0"
    if v is None:
        return "none"
    if isinstance(v, (str, bytes)):
        return "s:" + hexor(v)
    if isinstance(v, tuple) and len(v) == 2 and isinstance(v[1], list):
        return "ls:%s:%s" % ("-" if v[0] is None else hexor(v[0]), ",".join(hexor(x) for x in v[1]))
    return "other:" + repr(v)


_SESSIONS = [0]


class Session:
    """One real Client over one Wire.  Every third session is created with the public `debug=True` flag (trace printed to a
    discarded stdout): tracing must not change what the client does."""

    def __init__(self, debug=None):
        _SESSIONS[0] += 1
        self.debug = (_SESSIONS[0] % 3 == 0) if debug is None else debug
        self.client = managesieve.Client("srv.example", debug=self.debug)
        # the client under test is not alone: every other session, a second Client object is created after it and stays alive
        # (what it is, or what the class remembers of it, must make no difference to this one)
        self.bystander = managesieve.Client("other.example") if _SESSIONS[0] % 2 == 0 else None
        self.wire = Wire()

    def call(self, fn, timeout=3):
        nw = len(self.wire.writes)
        if self.debug:
            import contextlib, io
            with contextlib.redirect_stdout(io.StringIO()):
                st, val = with_watchdog(fn, timeout)
        else:
            st, val = with_watchdog(fn, timeout)
        if st == "hang":
            res = "hang"
        elif st == "exc":
            res = "error" if isinstance(val, managesieve.Error) else "crash " + type(val).__name__
        else:
            res = show_value(val)
            # the caller does as it pleases with what it got back (appends to the list of names, empties it): that is the
            # caller's copy — the client's later answers do not depend on it
            import aliasing
            aliasing.scribble(val)
        if len(self.wire.writes) < nw:
            nw = 0
        ws = ",".join(("t:" if t else "p:") + b.hex() for t, b in self.wire.writes[nw:])
        out = "res=%s writes=%s auth=%s" % (res, ws, "b1" if self.client.authenticated else "b0")
        if st == "ok":
            buf = getattr(self.client, "_Client__read_buffer", None)
            if buf is None:      # the private buffer is no longer where the model was written against: left over bytes = the wire's only
                buf = b""
            ec, em = self.client.errcode, self.client.errmsg
            out += " errcode=%s errmsg=%s left=%s" % (hexor(ec or b""), hexor(em or b""), hexor(bytes(buf) + bytes(self.wire.stream)))
        return out

    def connect(self, stream, sched, login, pw, authz="", starttls=False, mech=None, tcp=True, tlsok=True, server=None, late=()):
        self.wire = Wire(stream, sched, server)
        self.wire.late = set(late)
        wire = self.wire

        def create_connection(addr, *a, **k):
            if not tcp:
                raise socket.error("connection refused")
            if server is not None and hasattr(server, "greeting"):
                wire.stream += server.greeting()
            return FakeSocket(wire)

        def run():
            with mock.patch("socket.create_connection", create_connection), \
                    mock.patch("ssl.create_default_context", lambda *a, **k: FakeCtx(wire, tlsok)):
                return self.client.connect(login, pw, authz, starttls, mech)

        return self.call(run)

    def op(self, name, *args, stream=None, sched=None, eof=False):
        if stream is not None or sched is not None:
            self.wire.feed(stream or b"", sched)
        if eof:
            self.wire.eof = True      # the peer closes once the fed bytes are read: recv returns b""
        return self.call(lambda: getattr(self.client, name)(*args))


def enc_later(segs):
    return "-" if not segs else ";".join(hexor(s) for s in segs)


def req_connect(stream, sched, login, pw, authz="", starttls=False, mech=None, tcp=True, tlsok=True, later=None):
    e = lambda s: hexor(s.encode("utf-8") if isinstance(s, str) else s)
    return "c op=connect tcp=%d tlsok=%d login=%s pw=%s authz=%s starttls=%d mech=%s stream=%s sched=%s later=%s" % (
        tcp, tlsok, e(login), e(pw), e(authz), starttls, "-" if mech is None else e(mech), hexor(stream),
        ",".join(map(str, sched)) if sched else "e", enc_later(later))


def req_op(name, *args, stream=None, sched=None, later=None):
    parts = ["c", "op=" + name]
    keys = ["a", "b"]
    ki = 0
    for a in args:
        if isinstance(a, int):
            parts.append("n=%d" % a)
        else:
            parts.append("%s=%s" % (keys[ki], hexor(a.encode("utf-8") if isinstance(a, str) else a)))
            ki += 1
    parts.append("stream=" + ("-" if stream is None else hexor(stream)))
    parts.append("sched=" + ("-" if sched is None else (",".join(map(str, sched)) or "e")))
    parts.append("later=" + enc_later(later))
    return " ".join(parts)
