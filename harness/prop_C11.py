"""C11 — a filter set survives being saved as a script and loaded back."""
import io
from prop_common import *
import gen_factory, pyref, corr_parse
from sievelib.factory import FiltersSet
from sievelib.parser import Parser
from sievelib import commands

RULE = ("sets reached by sequences of addfilter / updatefilter / replacefilter / disablefilter / enablefilter / movefilter / removefilter "
        "with generated definitions, names and descriptions (single-line text without the marker prefixes, not surrounded by white space, "
        "including non-ASCII, '#', quotes) and default or custom marker prefixes; render → parse → from_parser_result; names, order, "
        "enabled status, descriptions, requires and per-filter trees must be equal and rendering the reloaded set must be a fixed point; "
        "non-trivial = set with ≥ 2 filters or a disabled / described filter")

NAME_PIECES = ["rule", "é", "€", " ", "#", '"', "x", "1", ":", ";", "{", "Filter", "Description", "if false", "\\",
               # characters whose UTF-8 form ends in a byte that is white space in some 8-bit code page (0x85 NEL, 0xA0 NBSP) or is
               # itself an unusual blank: a name must come back whole, whatever its last character
               "à", "Å", "ą", "Ġ", "丠", "\u00a0x", "x\u2003y", "\u0085z", "ı", "ﬀ",
               # text that changes under Unicode normalisation or case folding: it must come back code point for code point
               "e\u0301", "\u212b", "\u2126", "\uf900", "q\u0323\u0307", "q\u0307\u0323", "ǅ", "İ", "ß", "ﬁ",
               "%", "%s", "%(name)s", "{}", "{0}", "%%",
               # a carriage return INSIDE the line (no line feed): still one line of the saved script, and part of the text
               "Lists\rarchive", "old\rkeep;", "a\r#b", "x\r"]
# values of conditions and actions: the safe alphabet plus line ends inside a value (a reason, a rejection text over several
# lines): what is saved must be what the set holds, line ends included
VALUE_PIECES = gen_factory.SAFE_PIECES + ["\r\n", "\n", "\r", "line one\r\nline two"]
PREFIXES = [("# Filter: ", "# Description: "), ("#F:", "#D:"), ("# name = ", "# about = "), ("#§ ", "#¶ "),
            ("# [rule] ", "# (about) "), ("# name? ", "# desc+ "), ("# rule.* ", "# d|x: "), ("# \\d ", "# ^$ "), ("# Rule (auto): ", "# {1} "),
            # text that means something to a string-formatting routine: it is marker text, written and recognised as it stands
            ("# 100% rule: ", "# %s about: "), ("#%% ", "#%(name)s "), ("# {} ", "# {0}{name} "), ("# %d%% ", "# %(description)s")]


LOOKALIKE_NAMES = ["Unnamed rule 7", "Unnamed rule 1", "Unnamed rule 2", "Unnamed rule", "unnamed rule 3", "Unnamed rule 01"]


def plain_line(r, prefixes, used):
    # names that look like the ones the loader invents for rules without a marker: given by the caller they are names like any other
    if r.random() < 0.08:
        cand = [x for x in LOOKALIKE_NAMES if x not in used]
        if cand:
            return r.choice(cand)
    while True:
        s = "".join(r.choice(NAME_PIECES) for _ in range(r.randint(1, 4))).strip()
        if s and s not in used and all(p.strip() not in "# " + s and not ("# " + s).startswith(p) and p[2:] not in s for p in prefixes) and "\n" not in s:
            return s


def canon(c):
    def val(v):
        if isinstance(v, commands.Command):
            return canon(v)
        if isinstance(v, list):
            return [val(x) for x in v]
        return v.strip('"') if isinstance(v, str) and v.startswith('"') else v
    return (c.name, sorted(((k, val(v)) for k, v in c.arguments.items()), key=lambda kv: kv[0]), sorted(((k, val(v)) for k, v in c.extra_arguments.items()), key=lambda kv: kv[0]),
            [canon(ch) for ch in c.children])


def tree_of_render(content):
    t = io.StringIO()
    content.tosieve(target=t)
    p = Parser()
    pre = 'require ["fileinto","reject","envelope","body","vacation","vacation-seconds","date","relational","regex","copy","mailbox","imap4flags","variables"];\n'
    if not p.parse(pre + t.getvalue()):
        return ("unparsable", p.error, t.getvalue())
    return [canon(c) for c in p.result[1:]]


def build(r):
    pref = r.choice(PREFIXES)
    fs = FiltersSet("t", pref[0], pref[1])
    used = set()
    for i in range(r.randint(1, 4)):
        conds, acts, mt, n = gen_factory.gen_filter(r)
        vals = [gen_factory.hostile_value(r, VALUE_PIECES) for _ in range(n)]
        name = plain_line(r, pref, used)
        used.add(name)
        fs.addfilter(name, gen_factory.fill(conds, vals), gen_factory.fill(acts, vals), mt)
        if r.random() < 0.5:
            fs.filters[-1]["description"] = plain_line(r, pref, set())
    names = [f["name"] for f in fs.filters]
    for _ in range(r.randint(0, 5)):
        op = r.choice(["disable", "enable", "up", "down", "remove", "update", "replace", "disable", "observe"])
        nm = r.choice(names)
        if op == "observe":     # read-only accessors must not change what is saved
            for fn in (fs.get_filter_actions, fs.get_filter_conditions, fs.get_filter_matchtype, fs.is_filter_disabled, fs.getfilter):
                try:
                    fn(nm)
                except Exception:  # noqa
                    pass
            try:
                str(fs)
            except Exception:  # noqa — reported by check() below, with the set that provokes it
                pass
            continue
        if op == "disable":
            fs.disablefilter(nm)
        elif op == "enable":
            fs.enablefilter(nm)
        elif op in ("up", "down"):
            fs.movefilter(nm, op)
        elif op == "remove":
            # down to the empty set too: what was required stays required, and survives saving and loading
            fs.removefilter(nm)
            names = [f["name"] for f in fs.filters]
            if not names:
                break
        elif op == "update" and fs.getfilter(nm) is not None:
            conds, acts, mt, n = gen_factory.gen_filter(r)
            vals = [gen_factory.hostile_value(r, VALUE_PIECES) for _ in range(n)]
            fs.updatefilter(nm, nm, gen_factory.fill(conds, vals), gen_factory.fill(acts, vals), mt)
        elif op == "replace" and fs.getfilter(nm) is not None:
            tmp = FiltersSet("x")
            conds, acts, mt, n = gen_factory.gen_filter(r)
            vals = [gen_factory.hostile_value(r, VALUE_PIECES) for _ in range(n)]
            tmp.addfilter("x", gen_factory.fill(conds, vals), gen_factory.fill(acts, vals), mt)
            fs.replacefilter(nm, tmp.getfilter("x"), description=(plain_line(r, pref, set()) if r.random() < 0.3 else None))
            for e in tmp.requires:
                fs.require(e)
    return fs, pref


_BETWEEN = [0]


def check(fs, pref):
    text = str(fs)
    p = Parser()
    # the Parser that reads the saved script may have been used before — on a script it accepted, or on one it refused (a user
    # correcting a script and loading it again): the set that is loaded is the one that was saved
    if _BETWEEN[0] % 5 == 1:
        p.parse(b"keep; stop \"x\";")
    elif _BETWEEN[0] % 5 == 3:
        p.parse(b'require "fileinto"; fileinto "elsewhere";')
    elif _BETWEEN[0] % 5 == 4:
        p.parse(b"# Filter: ghost\nif true { foo")
    if p.parse(text.encode("utf-8")) is not True:
        return "rendered set is rejected: %s" % p.error, text
    # other parsing may happen between parsing a saved script and loading it (several scripts parsed first, loaded later)
    _BETWEEN[0] += 1
    if _BETWEEN[0] % 2 == 0:
        Parser().parse(b"keep;")
    elif _BETWEEN[0] % 3 == 0:
        Parser().parse(b'require ["envelope", "regex"]; if envelope :regex "from" "x" { keep; }')
    fs2 = FiltersSet("t", pref[0], pref[1])
    fs2.from_parser_result(p)
    # loading is reading: the parsed script can be loaded again (into another set) and gives the same set
    fs2b = FiltersSet("t", pref[0], pref[1])
    fs2b.from_parser_result(p)
    if str(fs2b) != str(fs2) or [(f["name"], f.get("description")) for f in fs2b.filters] != [(f["name"], f.get("description")) for f in fs2.filters]:
        return "the same parsed script loaded a second time gives another set: names %r vs %r" % (
            [f["name"] for f in fs2b.filters], [f["name"] for f in fs2.filters]), text
    a = [(f["name"], f["enabled"], f.get("description") or "") for f in fs.filters]
    b = [(f["name"], f["enabled"], f.get("description") or "") for f in fs2.filters]
    if [x[0] for x in a] != [x[0] for x in b]:
        return "names / order differ after reload: %r vs %r" % ([x[0] for x in a], [x[0] for x in b]), text
    if [x[1] for x in a] != [x[1] for x in b]:
        return "enabled status differs after reload: %r vs %r" % ([x[1] for x in a], [x[1] for x in b]), text
    if [x[2] for x in a] != [x[2] for x in b]:
        return "descriptions differ after reload: %r vs %r" % ([x[2] for x in a], [x[2] for x in b]), text
    if sorted(fs.requires) != sorted(fs2.requires):
        return "requires differ after reload: %r vs %r" % (fs.requires, fs2.requires), text
    for f1, f2 in zip(fs.filters, fs2.filters):
        if tree_of_render(f1["content"]) != tree_of_render(f2["content"]):
            return "filter %r renders to a different tree after reload" % f1["name"], text
    text2 = str(fs2)
    p3 = Parser()
    if p3.parse(text2.encode("utf-8")) is not True:
        return "re-rendered reloaded set is rejected: %s" % p3.error, text
    fs3 = FiltersSet("t", pref[0], pref[1])
    fs3.from_parser_result(p3)
    if str(fs3) != text2:
        return "rendering the reloaded set is not a fixed point", text
    return None, text


def run(ctx):
    r = rng("c11")
    n = 300 if ctx.tier == "quick" else 4000
    viol, texts = [], []
    evals = nontriv = 0
    samples = []
    for i in range(n):
        fs, pref = build(r)
        evals += 1
        nontriv += 1 if (len(fs.filters) > 1 or any(not f["enabled"] or f.get("description") for f in fs.filters)) else 0
        try:
            bad, text = check(fs, pref)
        except Exception as e:  # noqa
            try:
                text = str(fs)
            except Exception:  # noqa — rendering itself is what fails: describe the set by what was put into it
                text = "# (rendering raised) filters: %r" % [(f["name"], f.get("description"), f["enabled"]) for f in fs.filters]
            bad = "saving / loading back raised %s: %s" % (type(e).__name__, str(e)[:120])
        texts.append(text.encode("utf-8"))
        if bad:
            viol.append({"what": bad, "input_hex": text.encode("utf-8").hex(), "input": text[:700], "prefixes": pref})
        if len(samples) < 2:
            samples.append(text[:300])
    impl, ys, model = corr_parse.eval_both(texts)
    diffs = [{"suite": "parse", "input_hex": t.hex(), "input": t.decode("latin-1")[:300], "impl": a[:300], "model": m[:300]} for t, a, m in zip(texts, impl, model) if a != m]
    # render → parse → load of one generated filter with generated name / description / marker prefixes: real code against the
    # composed Lean models (serializer, parser, loader `Readback.load`)
    import corr_readback
    rb_diffs, rb_n, rb_classes = corr_readback.run(rng("c11-roundtrip"), 1000 if ctx.tier == "quick" else 15000)
    diffs += rb_diffs
    seen, uv = set(), []
    for v in viol:
        k = v["what"][:50]
        if k not in seen:
            seen.add(k)
            uv.append(v)
    fresh, known = split_known("C11", uv, lambda f, v: False)
    return {"evaluations": evals, "distinct_nontrivial": nontriv, "rule": RULE, "samples": samples,
            "suites": {"factory": {"sets": n}, "factory-roundtrip": {"definitions": rb_n, "outcomes": rb_classes}}, "diffs": diffs, "violations": fresh, "known": known}


def replay(ctx, payload):
    print(json.dumps(payload.get("violation"), indent=1)[:3000])
    return 1
