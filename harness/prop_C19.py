"""C19 — what you put into a filter is what you read back."""
from prop_common import *
import gen_factory
from sievelib.factory import FiltersSet
from sievelib.parser import Parser

RULE = ("definitions from the supported forms (header conditions with string values, exists / notexists with one or more names, size, "
        "envelope with lists, address, body with transform, currentdate with and without relational match, negated variants, several "
        "conditions per filter, anyof / allof; actions with positional strings and value-less tags), values over text with spaces, "
        "brackets, braces, semicolons, '#', non-ASCII (and, as separate classes, commas, quotes and backslashes); read back with "
        "get_filter_conditions / get_filter_actions / get_filter_matchtype on the original set, on the set reloaded from its rendering, "
        "and with the filter disabled; non-trivial = definition with ≥ 2 conditions or a negated / relational form")

VALUE_CLASSES = {
    "plain": ["a", "b1", " ", "é", "€", "x@y.z", "-", "_", ".", "[", "]", "{", "}", ";", "#", "(", ")", "Ab"],
    "comma": ["a", ",", "b", " "],
    "quote": ["a", '"', "\\", "b"],
}
COND_KINDS = ["header", "header", "nothdr", "exists", "notexists", "size", "envelope", "body", "currentdate", "currentdate-value"]


REFUSED_DEFS = [("envelope", ":notfoo", ["to"], ["x"]), ("body", ":text", ":notfoo", "x"), ("notsize", ":big", "10K"), ("Subject", ":notfoo", "x"),
                ("notexists",), ("size", ":over"), ("envelope", ":notis"), ("currentdate", ":zone", "+0100", ":notbar", "date", "x"), ("notbody", ":raw", ":nope", "x")]


def gen_action(t, r):
    k = r.choice(["fileinto", "fileinto-copy", "fileinto-create", "redirect", "redirect-copy", "reject", "keep", "discard", "stop", "setflag", "addflag", "vacation",
                  "removeflag", "setflag-var", "addflag-var", "removeflag-var"])
    if k.endswith("-var"):
        # the two-string form of the flag actions: the name of a variable, then the flag
        return (k[:-4], t.hole(), t.hole())
    if k == "fileinto":
        return ("fileinto", t.hole())
    if k == "fileinto-copy":
        return ("fileinto", ":copy", t.hole())
    if k == "fileinto-create":
        return ("fileinto", ":create", t.hole())
    if k == "redirect":
        return ("redirect", t.hole())
    if k == "redirect-copy":
        return ("redirect", ":copy", t.hole())
    if k in ("keep", "discard", "stop"):
        return (k,)
    if k == "vacation":
        return ("vacation", ":mime", t.hole()) if r.random() < 0.5 else ("vacation", t.hole())
    return (k, t.hole())


def value(r, cls):
    if cls == "plain" and r.random() < 0.08:
        return ""       # the empty string (e.g. the null envelope sender) is a value like any other
    if cls == "plain" and r.random() < 0.1:
        return r.choice(["[SPAM]", "[]", "[a b]", "{x}", "(y)", "[é]", "[x", "y]", "#z", ";", "[[a]]"])   # look-alikes of list / block syntax
    if cls == "plain" and r.random() < 0.12:
        # words that real header names and folder names are made of — among them capitalised look-alikes of the factory's own
        # keywords: a header called Notes, Size or Body is a header (only the exact lower-case keywords select another form)
        return r.choice(["Subject", "Notes", "Notification-Type", "NOTICE-REF", "Nothing", "X-Not", "Size", "Body", "Exists", "Notexists", "True", "False",
                         "Envelope", "Address", "Currentdate", "Header", "Anyof", "Date", "List-Id", "NOT", "Not"])
    while True:
        v = "".join(r.choice(VALUE_CLASSES[cls]) for _ in range(r.randint(1, 4)))
        if not v.startswith(('"', "'", ":", "not")) and v.strip() == v and v:
            if cls == "comma" and "," not in v:
                continue
            if cls == "quote" and not ('"' in v or "\\" in v):
                continue
            return v


def normalise(x):
    if isinstance(x, (list, tuple)):
        return tuple(normalise(y) for y in x)
    return x


def readback(fs, name):
    return (normalise(fs.get_filter_conditions(name)), normalise(fs.get_filter_actions(name)), fs.get_filter_matchtype(name))


def one_case(r, cls, kinds):
    t = gen_factory.Template()
    conds = [gen_factory.gen_condition(t, r, kinds) for _ in range(r.randint(1, 3))]
    if r.random() < 0.15:
        conds.append(r.choice(conds))        # the same condition twice (last = an earlier one): legal, if pointless
    ncond_holes = t.n
    acts = [gen_action(t, r) for _ in range(r.randint(1, 2))]
    mt = r.choice(["anyof", "allof"])
    if cls == "colon":
        # condition values that begin with a colon (an IPv6 address, a smiley, a time): data, not tags — in conditions only
        # (for action arguments a leading colon IS taken as a tag: KF-C06-1)
        vals = [(r.choice(["::1", ":-)", ":30:00", ":is", ":notme"]) if (i < ncond_holes and r.random() < 0.6) else value(r, "plain")) for i in range(t.n)]
    else:
        vals = [value(r, cls) for _ in range(t.n)]
    conds, acts = gen_factory.fill(conds, vals), gen_factory.fill(acts, vals)
    want = (normalise(conds), normalise(acts), mt)
    probs = []
    fs = FiltersSet("t")
    # the set may have REFUSED other definitions before (a mistyped match type, a negated one at that, a size without its
    # number): a refused call leaves nothing behind, what is put in next is what is read back
    if r.random() < 0.35:
        for bad in r.sample(REFUSED_DEFS, 2):
            try:
                fs.addfilter("refused", [bad], [("keep",)], "anyof")
                fs.removefilter("refused")
            except Exception:  # noqa
                pass
    try:
        if r.random() < 0.3:
            # the definition as LISTS (read from JSON, say), and the caller's objects used for a second set afterwards: what was
            # supplied is what both sets give back, and the caller's objects are as they were
            import aliasing, copy
            lc, la = aliasing.listify(conds), aliasing.listify(acts)
            snap = copy.deepcopy((lc, la))
            fs.addfilter("f", lc, la, mt)
            if (lc, la) != snap:
                probs.append("addfilter changed the caller's own definition objects: %r → %r" % (snap, (lc, la)))
            other = FiltersSet("other")
            other.addfilter("f", lc, la, mt)
            got_o = readback(other, "f")
            if got_o != want:
                probs.append("the same definition objects used for a second set: supplied %r, the second set reads %r" % (want, got_o))
        else:
            fs.addfilter("f", conds, acts, mt)
        got = readback(fs, "f")
        if got != want:
            probs.append("direct read-back differs: supplied %r, read %r" % (want, got))
        p = Parser()
        if p.parse(str(fs).encode("utf-8")) is True:
            fs2 = FiltersSet("t")
            fs2.from_parser_result(p)
            got2 = readback(fs2, "f")
            if got2 != want:
                probs.append("read-back after reload differs: supplied %r, read %r" % (want, got2))
        else:
            probs.append("rendering rejected: " + p.error)
        fs.disablefilter("f")
        got3 = readback(fs, "f")
        if got3 != want:
            probs.append("read-back of the disabled filter differs: supplied %r, read %r" % (want, got3))
        fs.enablefilter("f")
        fs.updatefilter("f", "f", conds, acts, mt)
        if readback(fs, "f") != want:
            probs.append("read-back after updatefilter differs")
        # an update to a definition that EXTENDS or SHORTENS the current one (one action or condition more / fewer, the common part
        # unchanged) is an update like any other
        for conds_n, acts_n in ((conds, acts + [("stop",)]), (conds, acts[:-1] or [("keep",)]), (conds + [("exists", "List-Id")], acts),
                                (conds[:-1] or [("exists", "X-Only")], acts), (conds, acts)):
            fs.updatefilter("f", "f", conds_n, acts_n, mt)
            want_n = (normalise(conds_n), normalise(acts_n), mt)
            got_n = readback(fs, "f")
            if got_n != want_n:
                probs.append("read-back after an update that extends / shortens the definition differs: supplied %r, read %r" % (want_n, got_n))
                break
        fs.disablefilter("f")
        # a DIFFERENT definition installed while the filter is disabled must be the one read back
        t2 = gen_factory.Template()
        conds2 = [gen_factory.gen_condition(t2, r, kinds) for _ in range(r.randint(1, 2))]
        acts2 = [gen_action(t2, r) for _ in range(r.randint(1, 2))]
        vals2 = [value(r, "plain" if cls == "colon" else cls) for _ in range(t2.n)]
        conds2, acts2 = gen_factory.fill(conds2, vals2), gen_factory.fill(acts2, vals2)
        want2 = (normalise(conds2), normalise(acts2), mt)
        fs.updatefilter("f", "f", conds2, acts2, mt)
        if readback(fs, "f") != want2:
            probs.append("read-back after updatefilter of a DISABLED filter differs: supplied %r, read %r" % (want2, readback(fs, "f")))
        fs.enablefilter("f")
        if readback(fs, "f") != want2:
            probs.append("read-back after re-enabling the updated filter differs: supplied %r, read %r" % (want2, readback(fs, "f")))
        # the same through renames, disabled and enabled, with a neighbour in the set and a move in between
        fs.addfilter("other", [("Subject", ":is", "o")], [("keep",)])
        fs.disablefilter("f")
        fs.updatefilter("f", "g", conds, acts, mt)
        if readback(fs, "g") != want:
            probs.append("read-back after updatefilter RENAMING a disabled filter differs: supplied %r, read %r" % (want, readback(fs, "g")))
        fs.movefilter("g", "down")
        if readback(fs, "g") != want:
            probs.append("read-back after moving the renamed disabled filter differs: supplied %r, read %r" % (want, readback(fs, "g")))
        fs.enablefilter("g")
        if readback(fs, "g") != want:
            probs.append("read-back after enabling the renamed filter differs: supplied %r, read %r" % (want, readback(fs, "g")))
        fs.updatefilter("g", "h", conds2, acts2, mt)
        if readback(fs, "h") != want2:
            probs.append("read-back after updatefilter renaming an enabled filter differs: supplied %r, read %r" % (want2, readback(fs, "h")))
        tmp = FiltersSet("tmp")
        tmp.addfilter("x", conds, acts, mt)
        fs.disablefilter("h")
        fs.replacefilter("h", tmp.getfilter("x"), "k")
        if readback(fs, "k") != want:
            probs.append("read-back after replacefilter renaming a disabled filter differs: supplied %r, read %r" % (want, readback(fs, "k")))
        if readback(fs, "other") != (normalise([("Subject", ":is", "o")]), normalise([("keep",)]), "anyof"):
            probs.append("the neighbour filter reads back as %r" % (readback(fs, "other"),))
    except Exception as e:  # noqa
        probs.append("raised %s: %s" % (type(e).__name__, str(e)[:80]))
    return conds, acts, mt, probs


def matcher(f, v):
    return f.get("match", {}).get("class") == v.get("class")


def tolist_correspondence(r, n):
    """tools.to_list vs its Lean model (the function the list theorems of Props/C19.lean are about); inputs begin and end with
    an ASCII character, as every rendered list does (`s[1:-1]` drops characters, the model bytes)"""
    from sievelib import tools
    alphabet = ["[", "]", ",", '"', "a", "b c", " ", "é", "\\", "€", "x,y", '""', ""]
    cases = ['[]', '[""]', '["a"]', '["a","b"]', '["a", "b"]', "", "[", "x", '["a,b"]', '["say \\""]']
    while len(cases) < n:
        body = "".join(r.choice(alphabet) for _ in range(r.randint(0, 6)))
        cases.append(r.choice(["[", "(", "x"]) + body + r.choice(["]", ")", "y"]))
    lines, want = [], []
    for c in cases:
        for unq in (True, False):
            b = c.encode("utf-8")
            lines.append("tolist %s %d" % (b.hex(), unq) if b else "tolist %d" % unq)
            want.append(",".join((x.encode("utf-8").hex() or "e") for x in tools.to_list(c, unq)))
    got = run_driver(lines, live_table=False)
    return [{"suite": "to_list", "input": l, "impl": w, "model": g} for l, w, g in zip(lines, want, got) if w != g], len(lines)


def run(ctx):
    r = rng("c19")
    n = 500 if ctx.tier == "quick" else 6000
    viol = []
    evals = nontriv = 0
    samples = []
    classes = [("plain", COND_KINDS)] * 6 + [("comma", COND_KINDS), ("quote", COND_KINDS), ("plain", ["header-list"]), ("plain", ["address"]),
               ("colon", ["header", "nothdr", "body", "currentdate", "envelope"])]
    for i in range(n):
        cls, kinds = classes[i % len(classes)]
        label = cls if (kinds is COND_KINDS or cls == "colon") else kinds[0]
        conds, acts, mt, probs = one_case(r, cls, kinds)
        evals += 1
        nontriv += 1 if len(conds) > 1 or any(isinstance(c[1], str) and c[1].startswith(":not") for c in conds if len(c) > 1) else 0
        for p in probs[:1]:
            viol.append({"class": label, "what": p, "conditions": repr(conds)[:300], "actions": repr(acts)[:200], "matchtype": mt})
        if len(samples) < 3:
            samples.append({"conditions": repr(conds)[:200], "actions": repr(acts)[:120]})
    # integer size limit (documented form in the README / suite)
    fs = FiltersSet("t")
    fs.addfilter("f", [("size", ":over", 100)], [("keep",)])
    p = Parser()
    p.parse(str(fs).encode())
    fs2 = FiltersSet("t")
    fs2.from_parser_result(p)
    if fs2.get_filter_conditions("f") != fs.get_filter_conditions("f") or fs.get_filter_conditions("f") != [("size", ":over", 100)]:
        viol.append({"class": "int-size", "what": "size limit given as int reads back as %r (original) / %r (reloaded)" % (fs.get_filter_conditions("f"), fs2.get_filter_conditions("f"))})
    fs = FiltersSet("t")
    fs.addfilter("f", [("notes", ":is", "x")], [("keep",)])
    if fs.get_filter_conditions("f") != [("notes", ":is", "x")]:
        viol.append({"class": "not-prefixed-header", "what": "header named 'notes' reads back as %r" % (fs.get_filter_conditions("f"),)})
    seen, uv = set(), []
    for v in viol:
        k = (v["class"], v["what"][:40])
        if k not in seen:
            seen.add(k)
            uv.append(v)
    fresh, known = split_known("C19", uv, matcher)
    tl_diffs, tl_n = tolist_correspondence(r, 300 if ctx.tier == "quick" else 3000)
    # the whole pipeline of this property — build, read back, render, parse, load, read back — real code against the composed Lean models
    import corr_readback
    rb_diffs, rb_n, rb_classes = corr_readback.run(rng("c19-roundtrip"), 1500 if ctx.tier == "quick" else 25000)
    tl_diffs = tl_diffs + rb_diffs
    tl_n += rb_n
    return {"evaluations": evals + tl_n, "distinct_nontrivial": nontriv, "rule": RULE, "samples": samples,
            "suites": {"factory": {"definitions": n}, "to_list": {"evaluations": tl_n - rb_n}, "factory-roundtrip": {"definitions": rb_n, "outcomes": rb_classes}}, "diffs": tl_diffs, "violations": fresh, "known": known}


def replay(ctx, payload):
    print(json.dumps(payload.get("violation"), indent=1)[:3000])
    return 1
