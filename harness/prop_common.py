"""Helpers shared by the per-property plugins."""
from common import *
import framework


def table_of(ctx):
    """the command table the input generators draw from: the table of the tree under test, plus every definition of the frozen
    table (the supported language) that the tree no longer has in that form — so that scripts valid in the supported language keep
    being generated when a definition was edited.  When the translator could read no table at all, the frozen one alone."""
    t = list((ctx.generated or {}).get("table", []))
    fz = frozen_table()
    if not t:
        return fz
    return t + [d for d in fz if d not in t]


def frozen_table():
    """the command table of the supported language (spec/command_table.json): what the recogniser judges with"""
    with open(os.path.join(VERIF, "spec", "command_table.json")) as f:
        return json.load(f)["table"]


def findings_for(pid):
    return [f for f in framework.load_findings() if f["property"] == pid]


def split_known(pid, violations, matcher):
    """separate violations that match a `known` finding; `fixed` entries suppress nothing"""
    known_hits, fresh = {}, []
    kfs = [f for f in findings_for(pid) if f.get("status") == "known"]
    for v in violations:
        hit = None
        for f in kfs:
            if matcher(f, v):
                hit = f
                break
        if hit is None:
            fresh.append(v)
        else:
            known_hits.setdefault(hit["id"], {"id": hit["id"], "what": hit["what"], "count": 0})["count"] += 1
    return fresh, list(known_hits.values())


def parser_records(ctx, want=("exh", "gen", "bytes")):
    import corr_parse
    rec, info = corr_parse.run_streams(ctx.tier, table_of(ctx), want)
    return rec, info


def std_result(rec, info, violations, known, rule, extra_suites=None, diffs=None):
    samples = []
    for i in (0, len(rec) // 3, len(rec) // 2, len(rec) - 1):
        if 0 <= i < len(rec):
            samples.append({"input": rec.text[i].decode("latin-1"), "impl": rec.impl[i][:160]})
    suites = {"parse": {"evaluations": len(rec), "classes": rec.classes, "streams": rec.stream_counts, "info": info}}
    suites.update(extra_suites or {})
    return {"evaluations": len(rec), "distinct_nontrivial": rec.nontrivial(), "rule": rule, "samples": samples, "suites": suites,
            "diffs": (diffs if diffs is not None else rec.diffs()), "violations": violations, "known": known}


def replay_parse(ctx, payload, oracle):
    """generic replay for parser properties: re-run the recorded input on the real code and the model"""
    import pyref
    v = payload.get("violation") or {}
    if payload.get("kind") != "failing-input" or "input_hex" not in v:
        print("replay: obligation/tie report — re-running the check itself")
        print(json.dumps(payload.get("broken"), indent=1)[:3000])
        return 1
    t = bytes.fromhex(v["input_hex"])
    impl, y, _ = pyref.parse_answer(t, want_yields=True)
    model = run_driver(["parse " + hx(t)])[0]
    print("input   :", t)
    print("impl    :", impl[:400])
    print("model   :", model[:400])
    bad = oracle(t, impl, y, {"stream": "replay"})
    print("oracle  :", bad or "property holds on this input")
    return 1 if bad else 0


def tag_after_optional_positional(t, cmds):
    """known-finding class KF-C01-2 / KF-C03-1: a tag written after the optional positional argument of one of `cmds`"""
    import pyref
    from sievelib.parser import Parser, Lexer
    toks = []
    try:
        for k, val in pyref._orig_scan(Lexer(Parser.lrules), t):
            if k not in ("hash_comment", "bracket_comment"):
                toks.append((k, val))
    except Exception:  # noqa
        return False
    for i, (k, val) in enumerate(toks):
        if k == "identifier" and val.lower().decode() in cmds:
            seen_pos, depth = False, 0
            for k2, v2 in toks[i + 1:]:
                if k2 == "left_bracket":
                    depth += 1
                elif k2 == "right_bracket":
                    depth -= 1
                    seen_pos = True
                elif k2 in ("string", "multiline"):
                    seen_pos = seen_pos or depth == 0
                elif k2 == "comma" and depth > 0:
                    pass
                elif k2 == "number":
                    pass
                elif k2 == "tag":
                    if seen_pos:
                        return True
                else:
                    break
    return False


def trailing_tag_without_param(t, table):
    """known-finding class KF-C04-1: some command's argument list ENDS with a tag that expects a parameter"""
    import pyref
    from sievelib.parser import Parser, Lexer
    toks = []
    try:
        for k, val in pyref._orig_scan(Lexer(Parser.lrules), t):
            if k not in ("hash_comment", "bracket_comment"):
                toks.append((k, val))
    except Exception:  # noqa
        return False
    T = {d["name"]: d for d in table}
    cur = None
    last_tag = None
    depth = 0
    for k, val in toks:
        if k == "left_bracket":
            depth += 1
            last_tag = None
            continue
        if k == "right_bracket":
            depth -= 1
            continue
        if depth > 0:
            continue
        if k == "identifier":
            if cur is not None and last_tag is not None:
                return True
            cur = T.get(val.lower().decode())
            last_tag = None
        elif k == "tag" and cur is not None:
            last_tag = None
            for a in cur["args"]:
                vals = (a["values"] or []) + [x for x, _ in a["extValues"]]
                low = val.lower().decode()
                if low in vals and a["extra"] and (a["extra"]["validFor"] is None or low in a["extra"]["validFor"]):
                    last_tag = low
        elif k in ("semicolon", "left_cbracket", "right_parenthesis", "comma", "left_parenthesis"):
            if cur is not None and last_tag is not None:
                return True
            last_tag = None
            if k != "left_parenthesis":
                cur = None
        else:
            last_tag = None
    return False
