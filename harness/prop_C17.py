"""C17 — script names and bodies come back exactly as the server holds them."""
from prop_common import *
import msref, refserver, ms_cases

RULE = ("script bodies and name sets biased towards protocol look-alikes (lines 'OK …', 'NO …', 'BYE', '{n}', '\"x\" ACTIVE', quotes), CR / LF / "
        "CRLF variations, empty scripts, missing final newline, multi-byte text; served by the reference server in every encoding RFC 5804 "
        "permits (names quoted with escapes or as literals, bodies as literals or quoted strings) under random recv segmentation; bodies "
        "compared line by line ignoring line-ending style and trailing blank lines; every exchange replayed on the Lean model; "
        "non-trivial = body/name containing a look-alike")

BODIES = [b"keep;\r\n", b"", b"OK\r\n", b"OK \"done\"\r\nkeep;\r\n", b"NO\r\n", b"BYE\r\n", b"{3}\r\nabc\r\n", b"{5}\r\n", b'"x" ACTIVE\r\n', b"no final newline",
          b"a\nb\n", b"a\rb\r", b"mixed\r\nlines\nhere\r", b"\xc3\xa9\xe2\x82\xac \xf0\x9f\x98\x80\r\n", b"\r\n\r\nleading blank\r\n", b"trailing blank\r\n\r\n\r\n",
          b'require "fileinto";\r\nif header :is "a" "OK" {\r\n  fileinto "NO";\r\n}\r\n', b"x" * 5000, b"tab\there\r\n", b"{2+}\r\nOK\r\n", b"\\\"\r\n",
          b"form\x0cfeed\r\nnext\r\n", b"vt\x0bx\r\n", b"fs\x1cgs\x1drs\x1ex\r\n", b"nel \xc2\x85 x\r\n", b"ls \xe2\x80\xa8 ps \xe2\x80\xa9 x\r\n",
          # a byte order mark is text like any other: first in the script, first in a later line, inside a line
          b"\xef\xbb\xbfkeep;\r\n", b"keep;\r\n\xef\xbb\xbfstop;\r\n\xef\xbb\xbf\xef\xbb\xbfx\r\n", b"a\xef\xbb\xbfb\r\n",
          # a script that, as a whole, looks like a quoted string (stored data, served as a literal: it is not one)
          b'"keep;"\r\n', b'"OK"', b'"a \\"b\\" \\\\ c"\r\n', b'""\r\n', b'"two"\r\n"lines"\r\n']
NAMES = [b"a", b"main", b'q"uote', b"back\\slash", b"{5}", b"{3+}", b"OK", b"NO x", b"BYE", b"ACTIVE", b"x ACTIVE", b'"', b"\xc3\xa9t\xc3\xa9", b"sp ace", b"a b c", b"\\\"",
         b'my "best" rules', b'keep "this" ACTIVE', b'two "q" and "r"', b"form\x0cfeed",
         b'"draft', b"it\"s", b'"a\\"b', b" drafts", b"archive ", b"  ", b" OK", b"\ttab"]


def norm(body):
    lines = body.splitlines()
    while lines and lines[-1] == b"":
        lines.pop()
    return lines


def matcher(f, v):
    k = f.get("match", {}).get("kind")
    return k is not None and k == v.get("encoding_class")


def run(ctx):
    r = rng("c17")
    viol, lines, expect = [], [], []
    evals = nontriv = 0
    samples = []
    n = 120 if ctx.tier == "quick" else 1200
    for i in range(n):
        lit_names = (i % 4 == 1)
        q_body = (i % 4 == 2)
        names = r.sample(NAMES, r.randint(1, 6))
        scripts = {nm: r.choice(BODIES) for nm in names}
        active = r.choice(names) if r.random() < 0.7 else None
        srv = refserver.RefServer(r, scripts=scripts, active=active, literal_names=lit_names, quoted_body=q_body)
        s = msref.Session()
        g = srv.greeting()
        outs = ["ok", s.connect(b"", [], "user", "pw", server=srv)]
        reqs = ["c op=new", msref.req_connect(g, [], "user", "pw", later=list(s.wire.segments))]
        if i % 4 == 0:
            # a NEIGHBOUR: another client in the same process, on another connection, loses its peer in the middle of a listing or
            # of a script (Error there) — what this client reads next is its own server's reply and nothing else
            nb = msref.Session()
            nb.connect(ms_cases.GREETING + ms_cases.AUTH_OK, [], "other", "pw")
            if i % 8 == 0:
                nb.op("listscripts", stream=b'"foreign one"\r\n"foreign two" ACTIVE\r\n"fore', sched=[], eof=True)
            else:
                nb.op("getscript", "x", stream=b"{200}\r\n# foreign line 1\r\n# foreign line 2\r\n", sched=[], eof=True)
        sched = r.choice([[], [1] * 9000, [r.randint(1, 9) for _ in range(200)], [7] * 2000])
        nseg = len(s.wire.segments)
        out = s.op("listscripts", sched=list(sched))
        reqs.append(msref.req_op("listscripts", sched=sched, later=list(s.wire.segments[nseg:])))
        outs.append(out)
        evals += 1
        want = "res=ls:%s:%s" % ("-" if active is None else msref.hexor(active), ",".join(msref.hexor(x) for x in names if x != active))
        lits = getattr(srv, "last_listing_literals", [])
        # KF-C17-1 precisely: a literal line is misread when it carries the ACTIVE marker, or when it begins with a complete quoted
        # string (an opening quote AND a closing one) — a name that merely begins with a quote is read correctly
        cls = "literal-name" if any(x == active or refserver.QUOTED_PREFIX.match(x) for x in lits) else None
        if out.split(" ")[0] != want:
            viol.append({"encoding_class": cls, "what": "listing: client %s, server holds %s" % (out.split(" ")[0][:200], want[:200]),
                         "names": [x.decode("latin-1") for x in names], "active": active.decode("latin-1") if active else None})
        for nm in names:
            if "res=error" in outs[-1] or "res=crash" in outs[-1]:
                break
            sched = r.choice([[], [1] * 12000, [r.randint(1, 9) for _ in range(300)], [64] * 500])
            nseg = len(s.wire.segments)
            out = s.op("getscript", nm.decode("utf-8"), sched=list(sched))
            reqs.append(msref.req_op("getscript", nm.decode("utf-8"), sched=sched, later=list(s.wire.segments[nseg:])))
            outs.append(out)
            evals += 1
            nontriv += 1
            res = out.split(" ")[0]
            got = bytes.fromhex(res[6:]) if res.startswith("res=s:") and res[6:] != "e" else (b"" if res == "res=s:e" else None)
            if got is None or norm(got) != norm(scripts[nm]):
                viol.append({"encoding_class": "quoted-body" if q_body else None, "name": nm.decode("latin-1"), "body": scripts[nm][:80].decode("latin-1"),
                             "what": "getscript(%r): client got %r, server holds %r" % (nm, None if got is None else got[:80], scripts[nm][:80])})
        # the store CHANGES (another session deactivates and deletes the active script, activates another one, empties the store)
        # and the same client lists again: the second listing is the server's state now, nothing of the first one
        if not lit_names and "res=error" not in outs[-1] and "res=crash" not in outs[-1]:
            kind = i % 3
            if kind == 0 and active is not None:
                del srv.scripts[active]
                srv.active = None
            elif kind == 1:
                srv.active = next((x for x in srv.scripts if x != srv.active), None)
            else:
                srv.scripts.clear()
                srv.active = None
            nseg = len(s.wire.segments)
            out = s.op("listscripts")
            reqs.append(msref.req_op("listscripts", later=list(s.wire.segments[nseg:])))
            outs.append(out)
            evals += 1
            want2 = "res=ls:%s:%s" % ("-" if srv.active is None else msref.hexor(srv.active), ",".join(msref.hexor(x) for x in srv.scripts if x != srv.active))
            if out.split(" ")[0] != want2:
                viol.append({"encoding_class": None, "what": "second listing on the same client after the store changed: client %s, server holds %s" % (
                    out.split(" ")[0][:200], want2[:200]), "names": [x.decode("latin-1") for x in srv.scripts], "active": srv.active.decode("latin-1") if srv.active else None})
        if srv.log:
            viol.append({"encoding_class": None, "what": "server protocol log %r" % srv.log})
        lines += reqs
        expect += outs
        if len(samples) < 3:
            samples.append({"names": [x.decode("latin-1") for x in names], "literal_names": lit_names, "quoted_body": q_body})
    model = run_driver(lines, live_table=False)
    diffs = [{"suite": "client", "request": l[:300], "impl": e[:300], "model": m[:300]} for l, e, m in zip(lines, expect, model) if e != m]
    seen, uv = set(), []
    for v in viol:
        k = (v.get("encoding_class"), v["what"][:40])
        if k not in seen:
            seen.add(k)
            uv.append(v)
    fresh, known = split_known("C17", uv, matcher)
    return {"evaluations": evals, "distinct_nontrivial": nontriv, "rule": RULE, "samples": samples,
            "suites": {"client": {"servers": n}}, "diffs": diffs, "violations": fresh, "known": known}


def replay(ctx, payload):
    print(json.dumps(payload.get("violation"), indent=1)[:2000])
    return 1
