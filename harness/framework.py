"""The decision pipeline of ./check (DESIGN.md §8): translate → build → audit → correspond → oracle → decide."""
import re, shutil, glob, importlib, traceback
from common import *

ALLOWED_AXIOMS = {"propext", "Classical.choice", "Quot.sound"}
FORBIDDEN = re.compile(r"\b(sorry|admit|native_decide|bv_decide|implemented_by)\b|\bunsafe |^axiom |maxHeartbeats 0", re.M)
PY = "/venv/bin/python"


class Ctx:
    def __init__(self, pid, tier, seed):
        self.pid, self.tier, self.seed = pid, tier, seed
        self.t0 = time.time()
        self.notes = []
        self.generated = None


# ------------------------------------------------------------------------------ stage 1: translate

def translate():
    import gen_spec
    gen_spec.main()      # the frozen tables under /verif/spec rendered into Spec/*.lean (idempotent; not derived from /repo)
    p = subprocess.run([PY, "-W", "ignore", os.path.join(VERIF, "harness", "translate.py")], capture_output=True, text=True,
                       env=dict(os.environ, PYTHONPATH=REPO))
    ok = p.returncode == 0
    info = {}
    if ok:
        try:
            info = json.loads(p.stdout.strip().splitlines()[-1])
        except Exception:  # noqa
            ok = False
    return ok, info, (p.stderr or "")[-2000:]


def generated():
    with open(os.path.join(VERIF, ".cache", "generated.json")) as f:
        return json.load(f)


# ------------------------------------------------------------------------------ stage 2: build + audit

def lake_build(targets, timeout=3000):
    p = subprocess.run(["lake", "build"] + targets, cwd=LEAN, capture_output=True, text=True, timeout=timeout)
    out = p.stdout + p.stderr
    errs = re.findall(r"error: (\S+\.lean):(\d+):(\d+): (.*)", out)
    return p.returncode == 0, errs, out[-6000:]


def strip_comments(src):
    src = re.sub(r"/-.*?-/", "", src, flags=re.S)
    src = re.sub(r"--.*", "", src)
    return src


def theorems_in(path):
    src = strip_comments(open(path).read())
    ns = []
    out = []
    for m in re.finditer(r"^(namespace\s+(\S+)|end\s+(\S+)|theorem\s+(\S+))", src, re.M):
        if m.group(2):
            ns.append(m.group(2))
        elif m.group(3):
            if ns and ns[-1] == m.group(3):
                ns.pop()
        elif m.group(4):
            out.append(".".join(ns + [m.group(4)]))
    return out


def open_statements_in(path):
    """full-strength statements kept as `def …_statement : Prop` that have no proof yet (reported, never hidden)"""
    src = strip_comments(open(path).read())
    return re.findall(r"^def\s+(\S+_statement)\b", src, re.M)


def grep_forbidden():
    hits = []
    for path in glob.glob(os.path.join(LEAN, "SieveModel", "**", "*.lean"), recursive=True) + [os.path.join(LEAN, "Main.lean")]:
        src = strip_comments(open(path).read())
        for m in FORBIDDEN.finditer(src):
            hits.append("%s: %s" % (os.path.relpath(path, LEAN), m.group(0).strip()))
    return hits


def audit(pid, theorems):
    """#print axioms on every property theorem, through a scratch file (not part of the library)."""
    mod = "SieveModel.Props.%s" % pid
    lines = ["import %s" % mod] + ["#print axioms %s" % t for t in theorems]
    path = os.path.join(WORK, "Audit_%s_%d.lean" % (pid, os.getpid()))
    with open(path, "w") as f:
        f.write("\n".join(lines) + "\n")
    try:
        p = subprocess.run(["lake", "env", "lean", path], cwd=LEAN, capture_output=True, text=True, timeout=1200)
    finally:
        os.unlink(path)
    out = p.stdout + p.stderr
    res = {}
    for m in re.finditer(r"'([^']+)' (does not depend on any axioms|depends on axioms: \[([^\]]*)\])", out):
        axs = set(a.strip() for a in (m.group(3) or "").replace("\n", " ").split(",") if a.strip())
        res[m.group(1)] = sorted(axs)
    bad = {t: a for t, a in res.items() if set(a) - ALLOWED_AXIOMS}
    missing = [t for t in theorems if t not in res]
    return res, bad, missing, out[-3000:]


# ------------------------------------------------------------------------------ findings

def load_findings():
    with open(os.path.join(VERIF, "known_findings.json")) as f:
        return json.load(f)["findings"]


# ------------------------------------------------------------------------------ evidence / replay

def write_evidence(ctx, cov, violations, assumptions):
    os.makedirs(os.path.join(VERIF, "evidence"), exist_ok=True)
    ev = {"property_id": ctx.pid, "tier": ctx.tier, "seed": ctx.seed, "level": "proof", "coverage": cov,
          "assumptions": assumptions, "wall_s": round(time.time() - ctx.t0, 2), "violations": violations}
    with open(os.path.join(VERIF, "evidence", "%s.json" % ctx.pid), "w") as f:
        json.dump(ev, f, indent=1, default=str)


def write_replay(pid, payload):
    d = os.path.join(VERIF, "evidence", "replay")
    os.makedirs(d, exist_ok=True)
    h = hashlib.sha256(json.dumps(payload, sort_keys=True, default=str).encode()).hexdigest()[:12]
    path = os.path.join(d, "%s-%s.json" % (pid, h))
    with open(path, "w") as f:
        json.dump(payload, f, indent=1, default=str)
    return os.path.relpath(path, VERIF)


TRUSTED_BASE = [
    "Lean 4.33.0 kernel (thorough tier: leanchecker re-check of the property module)",
    "axioms admitted: propext, Classical.choice, Quot.sound (audited with #print axioms on every property theorem; no sorry/admit/axiom/native_decide/bv_decide)",
    "harness/translate.py for the data regenerated from /repo (command tables, lexer rules, ManageSieve constants, method graph, footprints)",
    "correspondence suites (differential testing of the hand-written model against the real code) for everything hand-modelled",
    "specifications in lean/SieveModel/Spec (hand-written from the RFCs)",
    "CPython re/bytes/str semantics as modelled (validated by the lex/reader suites), the fake socket / fake TLS context of the harness",
]


def ddmin(parts, fails, budget=400):
    """delta debugging over a list of parts; `fails(list)` says whether the property still fails"""
    n = 2
    calls = 0
    while len(parts) >= 2 and calls < budget:
        chunk = max(1, len(parts) // n)
        reduced = False
        for i in range(0, len(parts), chunk):
            cand = parts[:i] + parts[i + chunk:]
            calls += 1
            if cand and fails(cand):
                parts = cand
                n = max(n - 1, 2)
                reduced = True
                break
            if calls >= budget:
                break
        if not reduced:
            if chunk == 1:
                break
            n = min(len(parts), n * 2)
    return parts


def shrink_violation(mod, ctx, v):
    """shrink a failing script token-wise (parts separated by blanks) when the plugin can re-judge an input"""
    if not hasattr(mod, "still_fails") or "input_hex" not in v:
        return v
    try:
        t = bytes.fromhex(v["input_hex"])
        parts = t.split(b" ")
        if len(parts) < 3 or not mod.still_fails(ctx, t):
            return v
        small = ddmin(parts, lambda ps: mod.still_fails(ctx, b" ".join(ps)))
        st = b" ".join(small)
        if len(st) < len(t):
            v = dict(v)
            v["original_input_hex"] = v["input_hex"]
            v["input_hex"] = st.hex()
            v["input"] = st.decode("latin-1")
            v["shrunk"] = True
    except Exception:  # noqa
        traceback.print_exc()
    return v


def main(argv):
    import argparse
    ap = argparse.ArgumentParser()
    ap.add_argument("pid")
    ap.add_argument("--tier", default=os.environ.get("VERIF_TIER", "quick"))
    ap.add_argument("--replay", default=None)
    a = ap.parse_args(argv)
    pid = a.pid
    ctx = Ctx(pid, a.tier if a.tier in ("quick", "thorough") else "quick", SEED)
    try:
        mod = importlib.import_module("prop_%s" % pid)
    except ImportError as e:
        print("no check for %s: %s" % (pid, e))
        return 2
    if a.replay:
        return mod.replay(ctx, json.load(open(a.replay if os.path.isabs(a.replay) else os.path.join(VERIF, a.replay))))

    broken = []          # obligations / ties that no longer check: list of dicts
    # 1 translate
    ok, info, err = translate()
    if not ok:
        broken.append({"kind": "translator", "detail": err})
        ctx.generated = None
    else:
        ctx.generated = generated()
        for pr in ctx.generated.get("problems", []):
            broken.append({"kind": "translator-unmodelled", "detail": pr})
    # 2 build + audit
    props_file = os.path.join(LEAN, "SieveModel", "Props", "%s.lean" % pid)
    theorems = theorems_in(props_file)
    opens = open_statements_in(props_file)
    okb, errs, log = lake_build(["SieveModel.Props.%s" % pid, "driver"])
    discharged = 0
    axioms = {}
    if not okb:
        broken.append({"kind": "lean-build", "detail": [list(e) for e in errs][:10] or log[-1500:]})
    else:
        axioms, bad, missing, alog = audit(pid, theorems)
        forb = grep_forbidden()
        if bad or forb:
            print("AUDIT FAILURE (machinery defect): %r %r" % (bad, forb))
            return 2
        if missing:
            broken.append({"kind": "audit-missing", "detail": missing})
        discharged = len(theorems) - len(missing)
    if ctx.tier == "thorough" and okb:
        p = subprocess.run(["lake", "env", "leanchecker", "SieveModel.Props.%s" % pid], cwd=LEAN, capture_output=True, text=True)
        if p.returncode != 0:
            broken.append({"kind": "leanchecker", "detail": (p.stdout + p.stderr)[-1500:]})
        ctx.notes.append("leanchecker rc=%d" % p.returncode)
    # 3/4 correspondence + oracle (property plugin)
    try:
        res = mod.run(ctx)
    except Exception as e:  # noqa
        traceback.print_exc()
        print("INFRASTRUCTURE FAILURE in plugin: %r" % (e,))
        return 2
    # res: dict(evaluations, distinct_nontrivial, rule, samples, suites, diffs:[...], violations:[...], known:[...])
    for d in res.get("diffs", [])[:5]:
        broken.append({"kind": "correspondence", "detail": d})
    violations = list(res.get("violations", []))
    for k in res.get("known", []):
        print("KNOWN-FINDING: property=%s %s %s" % (pid, k["id"], k["what"]))
    # 5 decide
    rc = 0
    out_lines = []
    if violations:
        violations[0] = shrink_violation(mod, ctx, violations[0])
        v = violations[0]
        path = write_replay(pid, {"property": pid, "kind": "failing-input", "violation": v, "all": violations[:10], "broken": broken})
        out_lines.append("VIOLATION property=%s replay=%s" % (pid, path))
        rc = 1
    elif broken:
        found = []
        try:
            found = mod.search(ctx, broken) if hasattr(mod, "search") else []
        except Exception:  # noqa
            traceback.print_exc()
        if found:
            path = write_replay(pid, {"property": pid, "kind": "failing-input", "violation": found[0], "all": found[:10], "broken": broken})
            out_lines.append("VIOLATION property=%s replay=%s" % (pid, path))
        else:
            path = write_replay(pid, {"property": pid, "kind": "obligation-or-tie-broken", "broken": broken})
            out_lines.append("VIOLATION property=%s replay=%s no-failing-input-found" % (pid, path))
        rc = 1
    cov = {
        "obligations": max(len(theorems), 1), "discharged": discharged,
        "checker_cmd": "cd lean && lake build SieveModel.Props.%s && lake env lean <#print axioms of every theorem in Props/%s.lean>" % (pid, pid),
        "trusted_base": TRUSTED_BASE + ["axioms per theorem: " + json.dumps(axioms, sort_keys=True)],
        "theorems": theorems, "open_statements": opens,
        "evaluations": res.get("evaluations", 0), "distinct_nontrivial": res.get("distinct_nontrivial", 0),
        "rule": res.get("rule", ""), "samples": res.get("samples", []),
        "traces_validated_against_impl": res.get("evaluations", 0),
        "suites": res.get("suites", {}), "known_findings_reconfirmed": [k["id"] for k in res.get("known", [])],
        "broken": broken, "notes": ctx.notes, "translator": info,
    }
    write_evidence(ctx, cov, len(violations) if violations else (1 if rc else 0), res.get("assumptions", []))
    for l in out_lines:
        print(l)
    print("%s %s tier=%s seed=%d theorems=%d/%d evaluations=%d wall=%.1fs" % (
        pid, "OK" if rc == 0 else "FAILED", ctx.tier, ctx.seed, discharged, len(theorems), res.get("evaluations", 0), time.time() - ctx.t0))
    return rc
