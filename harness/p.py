"""quick manual probe: python p.py '<script>' ..."""
import sys, signal
sys.path.insert(0, "/repo")
from sievelib.parser import Parser
class TO(BaseException): pass
def h(*a): raise TO()
signal.signal(signal.SIGALRM, h)
for s in sys.argv[1:]:
    b = s.encode("utf-8").decode("unicode_escape").encode("latin-1")
    p = Parser()
    signal.alarm(2)
    try:
        r = p.parse(b)
        print(repr(b), "->", r, (p.error, p.error_pos) if not r else [ (c.name, c.arguments, c.extra_arguments, [ch.name for ch in c.children]) for c in p.result])
    except TO:
        print(repr(b), "-> HANG")
    except Exception as e:
        print(repr(b), "-> EXC", type(e).__name__, e)
    signal.alarm(0)
