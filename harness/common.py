"""Shared plumbing for the correspondence suites and oracles (see DESIGN.md §7, §8)."""
import os, sys, subprocess, json, time, random, hashlib, signal, tempfile

VERIF = os.path.dirname(os.path.dirname(os.path.abspath(__file__)))
REPO = os.environ.get("SIEVELIB_REPO", "/repo")
LEAN = os.path.join(VERIF, "lean")
DRIVER = os.path.join(LEAN, ".lake", "build", "bin", "driver")
WORK = os.path.join(VERIF, ".cache", "work")
os.makedirs(WORK, exist_ok=True)
if REPO not in sys.path:
    sys.path.insert(0, REPO)

SEED = int(os.environ.get("VERIF_SEED", "0") or 0)
TIER = os.environ.get("VERIF_TIER", "quick")


def rng(tag=""):
    h = hashlib.sha256(("%d/%s" % (SEED, tag)).encode()).digest()
    return random.Random(int.from_bytes(h[:8], "big"))


def hx(b: bytes) -> str:
    return b.hex()


_TABLE_PREFIX = None


def table_prefix():
    """`table-clear` + one `table-add` per live command class (from the translator's last run)."""
    global _TABLE_PREFIX
    if _TABLE_PREFIX is None:
        try:
            with open(os.path.join(VERIF, ".cache", "generated.json")) as f:
                gj = json.load(f)
            # the LIVE table goes to the parser model only; the recogniser (`wf`) keeps judging with the frozen table of the spec
            _TABLE_PREFIX = ["table-live-clear"] + ["table-live-add " + w for w in gj["table_wire"]]
        except Exception:  # noqa
            _TABLE_PREFIX = []
    return _TABLE_PREFIX


def run_driver(lines, timeout=3600, live_table=True):
    """Feed request lines to the compiled Lean driver, return answer lines (same length).
    With live_table the driver first receives the command table extracted from /repo."""
    if not lines:
        return []
    if live_table and table_prefix():
        pre = table_prefix()
        out = run_driver(pre + list(lines), timeout, live_table=False)
        if any(a != "ok" for a in out[:len(pre)]):
            raise RuntimeError("driver refused the live table: %r" % out[:len(pre)])
        return out[len(pre):]
    fd, path = tempfile.mkstemp(dir=WORK, suffix=".req")
    try:
        with os.fdopen(fd, "w") as f:
            for l in lines:
                f.write(l)
                f.write("\n")
        with open(path, "rb") as fin:
            p = subprocess.run([DRIVER], stdin=fin, stdout=subprocess.PIPE, stderr=subprocess.PIPE, timeout=timeout)
        if p.returncode != 0:
            raise RuntimeError("driver failed rc=%s: %s" % (p.returncode, p.stderr.decode()[-2000:]))
        out = p.stdout.decode().split("\n")
        if out and out[-1] == "":
            out.pop()
        if len(out) != len(lines):
            raise RuntimeError("driver answered %d lines for %d requests" % (len(out), len(lines)))
        return out
    finally:
        try:
            os.unlink(path)
        except OSError:
            pass


class Hang(BaseException):
    """Raised by the watchdog. BaseException: socket.timeout is TimeoutError and is caught by the client."""


def _alarm(*a):
    raise Hang()


def with_watchdog(fn, seconds=2):
    """Run fn() under a SIGALRM watchdog; returns ('ok', value) | ('hang', None) | ('exc', ExceptionInstance)."""
    old = signal.signal(signal.SIGALRM, _alarm)
    signal.setitimer(signal.ITIMER_REAL, seconds)
    try:
        try:
            return ("ok", fn())
        except Hang:
            return ("hang", None)
        except Exception as e:  # noqa
            return ("exc", e)
        finally:
            signal.setitimer(signal.ITIMER_REAL, 0)
    finally:
        signal.signal(signal.SIGALRM, old)
