"""Shared plumbing for the correspondence suites and oracles (see DESIGN.md §7, §8)."""
import os, sys, subprocess, json, time, random, hashlib, signal, tempfile

VERIF = os.path.dirname(os.path.dirname(os.path.abspath(__file__)))
REPO = os.environ.get("SIEVELIB_REPO", "/repo")
LEAN = os.path.join(VERIF, "lean")
DRIVER = os.path.join(LEAN, ".lake", "build", "bin", "driver")
WORK = os.path.join(VERIF, ".cache", "work")
os.makedirs(WORK, exist_ok=True)
if REPO not in sys.path:
    sys.path.insert(0, REPO)

SEED = int(os.environ.get("VERIF_SEED", "0") or 0)
TIER = os.environ.get("VERIF_TIER", "quick")


def rng(tag=""):
    h = hashlib.sha256(("%d/%s" % (SEED, tag)).encode()).digest()
    return random.Random(int.from_bytes(h[:8], "big"))


def hx(b: bytes) -> str:
    return b.hex()


def run_driver(lines, timeout=3600):
    """Feed request lines to the compiled Lean driver, return answer lines (same length)."""
    if not lines:
        return []
    fd, path = tempfile.mkstemp(dir=WORK, suffix=".req")
    try:
        with os.fdopen(fd, "w") as f:
            for l in lines:
                f.write(l)
                f.write("\n")
        with open(path, "rb") as fin:
            p = subprocess.run([DRIVER], stdin=fin, stdout=subprocess.PIPE, stderr=subprocess.PIPE, timeout=timeout)
        if p.returncode != 0:
            raise RuntimeError("driver failed rc=%s: %s" % (p.returncode, p.stderr.decode()[-2000:]))
        out = p.stdout.decode().split("\n")
        if out and out[-1] == "":
            out.pop()
        if len(out) != len(lines):
            raise RuntimeError("driver answered %d lines for %d requests" % (len(out), len(lines)))
        return out
    finally:
        try:
            os.unlink(path)
        except OSError:
            pass


class Hang(BaseException):
    """Raised by the watchdog. BaseException: socket.timeout is TimeoutError and is caught by the client."""


def _alarm(*a):
    raise Hang()


def with_watchdog(fn, seconds=2):
    """Run fn() under a SIGALRM watchdog; returns ('ok', value) | ('hang', None) | ('exc', ExceptionInstance)."""
    old = signal.signal(signal.SIGALRM, _alarm)
    signal.setitimer(signal.ITIMER_REAL, seconds)
    try:
        try:
            return ("ok", fn())
        except Hang:
            return ("hang", None)
        except Exception as e:  # noqa
            return ("exc", e)
        finally:
            signal.setitimer(signal.ITIMER_REAL, 0)
    finally:
        signal.signal(signal.SIGALRM, old)
