"""C16 — SASL: the right mechanism, carrying exactly the caller's credentials."""
import base64, itertools, re
from prop_common import *
import msref, refserver

RULE = ("subsets and orderings of announced mechanisms (including none, unknown ones, look-alike names, SASL capability missing or empty) × "
        "preferred-mechanism argument × credentials over unicode text (non-ASCII, commas, equals signs, quotes, spaces, empty or non-empty "
        "authorisation id) × server verdict; the AUTHENTICATE exchange is decoded by the strict command decoder, base64 and a per-mechanism "
        "message parser and compared with the credentials passed in; connect must return True iff the server accepted; every connect is "
        "replayed on the Lean model; non-trivial = a mechanism was selected")

SUPPORTED = ["DIGEST-MD5", "PLAIN", "LOGIN", "OAUTHBEARER"]
ANNOUNCE = ["PLAIN", "LOGIN", "OAUTHBEARER", "DIGEST-MD5", "SCRAM-SHA-1", "GSSAPI", "XOAUTH2", "PLAIN-CLIENTTOKEN", "X-LOGIN-TICKET", "XOAUTHBEARER2", "plain"]
CREDS = [("user", "pw", ""), ("üser@exämple.org", "pässwörd€", ""), ("Doe, John", "a=b,c", "admin"), ("a=b", "tok en", ""), ('q"uote', 'p"w\\', "authz id"),
         ("", "", ""), ("u" * 70, "p" * 90, "z"), ("user", "tok=en==", ""),
         # coinciding fields: each must still be sent, in its own place
         ("user", "pw", "user"), ("same", "same", "same"), ("User", "pw", "user"), ("u", "pw", "pw"), ("üser", "üser", "")]


def expected_mech(authmech, announced):
    lst = [authmech] if (authmech is not None and authmech in SUPPORTED) else SUPPORTED
    for m in lst:
        if m in announced:
            return m
    return None


def decode_exchange(writes, mech):
    """returns (login, password, authz or None) as bytes, or raises"""
    data = b"".join(b for t, b in writes)
    first, _, rest = data.partition(b"\r\n")
    cmds = refserver.decode_commands(first + b"\r\n")
    if len(cmds) != 1 or cmds[0][0] != "AUTHENTICATE":
        raise ValueError("not one AUTHENTICATE command: %r" % (cmds,))
    args = cmds[0][1]
    if args[0] != ("str", mech.encode()):
        raise ValueError("mechanism on the wire %r, expected %r" % (args[0], mech))
    if mech == "PLAIN":
        if len(args) != 2 or rest:
            raise ValueError("PLAIN: unexpected shape %r / trailing %r" % (args, rest[:40]))
        authz, u, p = base64.b64decode(args[1][1], validate=True).split(b"\0")
        return u, p, authz
    if mech == "LOGIN":
        if len(args) != 1:
            raise ValueError("LOGIN: unexpected arguments")
        l = rest.split(b"\r\n")
        if len(l) != 3 or l[2] != b"" or not all(x.startswith(b'"') and x.endswith(b'"') for x in l[:2]):
            raise ValueError("LOGIN: continuation lines malformed %r" % (rest[:80],))
        return base64.b64decode(l[0][1:-1], validate=True), base64.b64decode(l[1][1:-1], validate=True), None
    if mech == "OAUTHBEARER":
        if len(args) != 2 or rest:
            raise ValueError("OAUTHBEARER: unexpected shape")
        raw = base64.b64decode(args[1][1], validate=True)
        m = re.fullmatch(rb"n,a=((?:[^,=]|=2C|=3D)*),\x01auth=Bearer ([^\x01]*)\x01\x01", raw, re.S)
        if not m:
            raise ValueError("OAUTHBEARER: malformed message %r" % raw[:80])
        return m.group(1).replace(b"=2C", b",").replace(b"=3D", b"="), m.group(2), None
    raise ValueError("unexpected mechanism")


def matcher(f, v):
    return f.get("match", {}).get("kind") == "mech_selected" and v.get("mech") == f["match"]["value"]


def run(ctx):
    r = rng("c16")
    viol, lines, expect = [], [], []
    evals = nontriv = 0
    samples = []
    combos = []
    for k in range(0, 4):
        for sub in itertools.combinations(ANNOUNCE, k):
            combos.append(list(sub))
    r.shuffle(combos)
    combos = combos[: (70 if ctx.tier == "quick" else 700)] + [["DIGEST-MD5", "PLAIN"], ["PLAIN"], ["LOGIN"], ["OAUTHBEARER"], []]
    cases = []
    # every credential triple through every working mechanism, forced and unforced (directed, independent of the seed)
    for cred in CREDS:
        for m in ("PLAIN", "LOGIN", "OAUTHBEARER"):
            cases.append(([m], m, cred))
            cases.append(([m, "GSSAPI"], None, cred))
    # two or three implemented mechanisms announced, none named by the caller, credentials REFUSED: the mechanism chosen is the
    # first of the preference order, and its refusal ends the attempt (directed; `accept` is forced below)
    forced_refusal = set()
    for ann in (["PLAIN", "LOGIN"], ["LOGIN", "PLAIN"], ["LOGIN", "OAUTHBEARER"], ["OAUTHBEARER", "PLAIN"], ["PLAIN", "LOGIN", "OAUTHBEARER"],
                ["OAUTHBEARER", "LOGIN", "GSSAPI", "PLAIN"]):
        for cred in CREDS[:3]:
            forced_refusal.add(len(cases))
            cases.append((ann, None, cred))
    for ann in combos:
        r.shuffle(ann)
        for authmech in r.sample([None, "PLAIN", "LOGIN", "OAUTHBEARER", "DIGEST-MD5", "GSSAPI", "plain"], 3):
            cases.append((ann, authmech, r.choice(CREDS)))
    for ci, (ann, authmech, cred) in enumerate(cases):
        if True:
            login, pw, authz = cred
            accept = r.random() < 0.7 and ci not in forced_refusal
            sasl = " ".join(ann).encode()
            variant = r.random()
            if variant < 0.08:
                sasl_cap = None       # no SASL line at all
            else:
                sasl_cap = sasl
            users = {login.encode(): pw.encode()} if accept else {b"someone": b"else"}
            srv = refserver.RefServer(r, sasl=sasl_cap, users=users)
            s = msref.Session()
            g = srv.greeting()
            out = s.connect(b"", [], login, pw, authz, False, authmech, server=srv)
            lines += ["c op=new", msref.req_connect(g, [], login, pw, authz, False, authmech, later=list(s.wire.segments))]
            expect += ["ok", out]
            evals += 1
            res = out.split(" ")[0][4:]
            want = expected_mech(authmech, ann) if sasl_cap is not None else None
            v = {"announced": ann, "authmech": authmech, "login": login, "password": pw, "authz": authz, "server_accepts": accept, "result": out[:100], "mech": want}
            if sasl_cap is None:
                if "res=error" not in out or s.wire.writes:
                    viol.append(dict(v, what="SASL capability missing: expected Error and no write, got %s / %d writes" % (res, len(s.wire.writes))))
                continue
            if want is None:
                if res != "b0" or s.wire.writes:
                    viol.append(dict(v, what="no implemented mechanism is announced: expected False and nothing sent, got %s, wrote %r" % (res, [b[:40] for t, b in s.wire.writes])))
                continue
            nontriv += 1
            if want == "DIGEST-MD5":
                if "res=b1" not in out and "res=b0" not in out:
                    viol.append(dict(v, what="DIGEST-MD5 selected: %s" % out[:60]))
                continue
            try:
                u, p, z = decode_exchange(s.wire.writes, want)
            except Exception as e:  # noqa
                viol.append(dict(v, what="AUTHENTICATE exchange does not decode as %s: %s" % (want, e)))
                continue
            if u != login.encode() or p != pw.encode() or (z is not None and z != authz.encode()):
                viol.append(dict(v, what="%s carries (%r, %r, %r), caller gave (%r, %r, %r)" % (want, u, p, z, login.encode(), pw.encode(), authz.encode())))
            nauth = sum(1 for t, b in s.wire.writes if b.upper().startswith(b"AUTHENTICATE"))
            if nauth != 1:
                viol.append(dict(v, what="%d AUTHENTICATE commands written during one connect (the credentials go out once, by the one mechanism selected): %r" % (
                    nauth, [b[:30] for t, b in s.wire.writes])))
            if (res == "b1") != accept or ("auth=b1" in out) != accept:
                viol.append(dict(v, what="server %s the credentials but connect returned %s (authenticated flag %s)" % (
                    "accepted" if accept else "refused", res, "auth=b1" in out)))
            if srv.log:
                viol.append(dict(v, what="server protocol log: %r" % srv.log))
            if len(samples) < 3:
                samples.append({"announced": ann, "authmech": authmech, "selected": want, "login": login})
    # the same Client connecting again (a retry after a refused password, a new login after logout): every connect selects its
    # mechanism afresh from what THAT server announces, and sends the credentials of THAT call
    for ann in (["PLAIN", "LOGIN"], ["PLAIN"], ["LOGIN", "OAUTHBEARER"], ["OAUTHBEARER", "PLAIN", "LOGIN"]):
        for first_ok in (False, True):
            s = msref.Session()
            hist_reqs, hist_outs = ["c op=new"], ["ok"]
            attempts = [("user", "wrong" if not first_ok else "pw1", "pw1"), ("user", "pw2", "pw2"), ("other", "pw3", "pw3")]
            for login_, pw_, real_ in attempts:
                srv = refserver.RefServer(r, sasl=" ".join(ann).encode(), users={login_.encode(): real_.encode()})
                g = srv.greeting()
                nw = len(s.wire.writes)
                out = s.connect(b"", [], login_, pw_, "", False, None, server=srv)
                hist_reqs.append(msref.req_connect(g, [], login_, pw_, "", False, None, later=list(s.wire.segments)))
                hist_outs.append(out)
                evals += 1
                nontriv += 1
                want = expected_mech(None, ann)
                v = {"announced": ann, "authmech": None, "login": login_, "password": pw_, "history": "connect number %d on one Client" % (attempts.index((login_, pw_, real_)) + 1), "result": out[:100], "mech": want}
                try:
                    u, p, z = decode_exchange(s.wire.writes, want)
                except Exception as e:  # noqa
                    viol.append(dict(v, what="AUTHENTICATE exchange of a later connect on the same Client does not decode as %s: %s" % (want, e)))
                    continue
                if u != login_.encode() or p != pw_.encode():
                    viol.append(dict(v, what="%s carries (%r, %r), this connect was given (%r, %r)" % (want, u, p, login_, pw_)))
                ok_ = pw_ == real_
                if ("res=b1" in out) != ok_:
                    viol.append(dict(v, what="server %s the credentials but connect returned %s" % ("accepted" if ok_ else "refused", out.split(" ")[0])))
                if ok_:
                    s.op("logout")
            lines += hist_reqs
            expect += hist_outs
    # the announcement that counts is the one made on the channel the credentials travel on: after STARTTLS the list sent
    # with the greeting is void — a missing SASL line, an empty one, or only unknown / look-alike names mean "nothing announced"
    for pre in (b"PLAIN LOGIN", b"PLAIN", b"DIGEST-MD5 PLAIN LOGIN OAUTHBEARER"):
        for post, want in ((False, None), (b"", None), (b"GSSAPI", None), (b"PLAIN-CLIENTTOKEN X-LOGIN", None), (b"LOGIN", "LOGIN"), (b"OAUTHBEARER", "OAUTHBEARER")):
            for authmech in (None, "PLAIN"):
                login, pw, authz = r.choice(CREDS)
                srv = refserver.RefServer(r, starttls=True, sasl=pre, post_tls_sasl=post, users={login.encode(): pw.encode()})
                s = msref.Session()
                g = srv.greeting()
                out = s.connect(b"", [], login, pw, authz, True, authmech, server=srv)
                lines += ["c op=new", msref.req_connect(g, [], login, pw, authz, True, authmech, later=list(s.wire.segments))]
                expect += ["ok", out]
                evals += 1
                nontriv += 1
                exp = want if (authmech is None or authmech == want) else None
                auths = [b for t, b in s.wire.writes if b.upper().startswith(b"AUTHENTICATE")]
                v = {"announced_before_tls": pre.decode(), "announced_after_tls": (post.decode() if post is not False else "(no SASL line)"), "authmech": authmech, "result": out[:100]}
                if exp is None and auths:
                    viol.append(dict(v, what="nothing the client may use is announced after STARTTLS, yet it authenticated with %r" % auths[0][:40]))
                if exp is not None and not (auths and exp.encode() in auths[0].upper()):
                    viol.append(dict(v, what="expected %s after STARTTLS, AUTHENTICATE lines: %r" % (exp, [a[:40] for a in auths])))
                if any("unannounced" in l for l in srv.log):
                    viol.append(dict(v, what="server protocol log: %r" % srv.log))
    # what the accessors hand out belongs to the caller: a caller that adds mechanism names to the list `get_sasl_mechanisms()`
    # gave it (or empties it) changes nothing about what the next connection — of this client or another — announces and uses
    for sasl_first in (b"", b"PLAIN", None):
        for later_sasl in (b"", None, b"LOGIN"):
            for same_client in (False, True):
                srv1 = refserver.RefServer(r, starttls=False, sasl=sasl_first)
                s1 = msref.Session()
                s1.connect(b"", [], "user", "pw", server=srv1)
                try:
                    got = s1.client.get_sasl_mechanisms()
                    if isinstance(got, list):
                        got.extend(["PLAIN", "LOGIN", "DIGEST-MD5"])
                except Exception:  # noqa
                    pass
                srv2 = refserver.RefServer(r, starttls=False, sasl=later_sasl)
                s2 = s1 if same_client else msref.Session()
                nw = len(s2.wire.writes) if same_client else 0
                out = s2.connect(b"", [], "user", "pw", server=srv2)
                evals += 1
                auths = [b for _, b in s2.wire.writes if b.upper().startswith(b"AUTHENTICATE")]
                announced = (later_sasl or b"").split()
                bad = [a for a in auths if not any(b'"' + m + b'"' in a.upper() for m in announced)]
                if bad:
                    viol.append({"what": "credentials sent with a mechanism the server did not announce (%r announced) after the caller had added names to the list "
                                         "get_sasl_mechanisms() returned on an earlier connection: %r" % (later_sasl, bad[0][:50]), "mechanism": None})
    model = run_driver(lines, live_table=False)
    diffs = [{"suite": "client", "request": l[:300], "impl": e[:300], "model": m[:300]} for l, e, m in zip(lines, expect, model) if e != m]
    fresh, known = split_known("C16", viol, matcher)
    return {"evaluations": evals, "distinct_nontrivial": nontriv, "rule": RULE, "samples": samples,
            "suites": {"client": {"connects": evals}}, "diffs": diffs, "violations": fresh, "known": known}


def replay(ctx, payload):
    print(json.dumps(payload.get("violation"), indent=1)[:2000])
    return 1
