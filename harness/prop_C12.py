"""C12 — filter-set editing operations behave like an ordered, uniquely named list."""
import itertools, io
from prop_common import *
from sievelib.factory import FiltersSet, FilterAlreadyExists
from sievelib import commands

RULE = ("operation sequences over a pool of 3 names and 3 definitions: every sequence up to length 3 (quick) / 4 (thorough) exhaustively, "
        "random sequences up to length 40; after every step the real FiltersSet (names, order, enabled flag, is_filter_disabled, wrapped "
        "rendering, getfilter content) is compared with a reference ordered uniquely-named list and with the Lean list model; "
        "non-trivial = sequence with a repeat (disable twice, collision, boundary move)")

NAMES = ["a", "b", ""]      # the empty string is a name like any other (and the falsy one)


def definition(i):
    """definition number i; each number needs its own extra extension, so that a refused operation that touched the set's
    requirements shows in the rendering"""
    conds = [[("Subject", ":is", "s%d" % i)], [("envelope", ":is", ["from"], ["s%d" % i])], [("body", ":raw", ":contains", "s%d" % i)]][i % 3]
    acts = [[("fileinto", "F%d" % i)], [("fileinto", ":copy", "F%d" % i)], [("fileinto", ":create", "F%d" % i)]][i % 3]
    return conds, acts


def _P_fresh(text):
    from sievelib.parser import Parser
    p = Parser()
    assert p.parse(text.encode("utf-8")) is True
    return p


def core_of(content):
    """which definition a content was built from (fileinto target), through any number of `if false` wrappers"""
    for n in content.walk():
        if isinstance(n, commands.FileintoCommand):
            return int(n.arguments["mailbox"].strip('"')[1:])
    return -1


def depth_of(content):
    d = 0
    # an `if false` wrapper is recognised by what it SAYS (the command names), not by the classes of the objects
    while getattr(content, "name", None) == "if" and getattr(content.arguments.get("test"), "name", None) == "false" and content.children:
        d += 1
        content = content.children[0]
    return d


def observe(fs):
    return ",".join("%s:%d:%d:%d" % (f["name"].encode().hex() or "e", 1 if f["enabled"] else 0, depth_of(f["content"]), core_of(f["content"])) for f in fs.filters)


OPS = []
for n in NAMES:
    OPS += [("add", n, 0), ("add", n, 1), ("remove", n), ("enable", n), ("disable", n), ("move", n, "up"), ("move", n, "down"), ("isdis", n), ("get", n)]
    for m in NAMES:
        OPS.append(("update", n, m, 2))
    OPS += [("replace", n, "-", 1), ("replace", n, NAMES[(NAMES.index(n) + 1) % 3], 2)]
    # a content that is not an `if` command (a bare action taken from a parsed script): a filter's content is whatever command it was given
    OPS += [("replace", n, "-", 9)]
    # contents taken from a parsed script whose own test is a constant or a negation: `if true { … }`, `if not false { … }` are
    # rules like any other — enabled, and not a wrapper
    OPS += [("replace", n, "-", 8), ("replace", n, "-", 7)]
    # the content of ANOTHER filter of the same set installed as this one's (`replacefilter(n, fs.getfilter(m))`, the call the
    # documentation shows): afterwards the two filters have equal content, and remain two filters
    OPS += [("replacefrom", n, m) for m in NAMES if m != n]


def fresh_content(i):
    if i in (7, 8, 9):
        from sievelib.parser import Parser
        p = Parser()
        assert p.parse({9: b'require "fileinto"; fileinto "F9";', 8: b'require "fileinto"; if true { fileinto "F8"; stop; }',
                        7: b'require "fileinto"; if not false { fileinto "F7"; }'}[i])
        return p.result[1]
    tmp = FiltersSet("tmp")
    tmp.addfilter("x", *definition(i))
    return tmp.getfilter("x")


_BN = [0]


def nm(x):
    """names may be given as str or as UTF-8 bytes (every method converts): every third name argument goes in as bytes"""
    _BN[0] += 1
    return x.encode("utf-8") if (_BN[0] % 3 == 0 and isinstance(x, str)) else x


def apply_real(fs, op):
    before = str(fs)
    out = _apply_real(fs, op)
    res = out.split(" ")[0]
    if res in ("res=exists", "res=b0", "res=none") or op[0] in ("isdis", "get"):
        after = str(fs)
        if after != before:
            out += " RENDERING-CHANGED-BY-A-REFUSED-OR-READ-ONLY-OPERATION"
    return out


def _apply_real(fs, op):
    op = tuple(nm(x) if (i in (1, 2) and isinstance(x, str) and x not in ("-", "up", "down")) else x for i, x in enumerate(op))
    try:
        k = op[0]
        if k == "add":
            fs.addfilter(op[1], *definition(op[2]))
            r = "b1"
        elif k == "update":
            r = "b1" if fs.updatefilter(op[1], op[2], *definition(op[3])) else "b0"
        elif k == "replace":
            r = "b1" if fs.replacefilter(op[1], fresh_content(op[3]), None if op[2] == "-" else op[2]) else "b0"
        elif k == "replacefrom":
            c = fs.getfilter(op[2])
            r = "none" if c is None else ("b1" if fs.replacefilter(op[1], c) else "b0")
        elif k == "remove":
            r = "b1" if fs.removefilter(op[1]) else "b0"
        elif k == "enable":
            r = "b1" if fs.enablefilter(op[1]) else "b0"
        elif k == "disable":
            r = "b1" if fs.disablefilter(op[1]) else "b0"
        elif k == "move":
            r = "b1" if fs.movefilter(op[1], op[2]) else "b0"
        elif k == "isdis":
            r = "b1" if fs.is_filter_disabled(op[1]) else "b0"
        elif k == "get":
            c = fs.getfilter(op[1])
            r = "none" if c is None else "c:%d:%d" % (depth_of(c), core_of(c))
    except FilterAlreadyExists:
        r = "exists"
    except Exception as e:  # noqa
        r = "crash"
    return "res=%s state=%s" % (r, observe(fs))


def req(op):
    h = lambda s: s.encode().hex() or "e"
    k = op[0]
    if k == "add":
        return "fs add %s %d" % (h(op[1]), op[2])
    if k == "update":
        return "fs update %s %s %d" % (h(op[1]), h(op[2]), op[3])
    if k == "replace":
        return "fs replace %s %s %d" % (h(op[1]), "-" if op[2] == "-" else h(op[2]), op[3])
    if k == "replacefrom":
        return "fs replacefrom %s %s" % (h(op[1]), h(op[2]))
    if k == "move":
        return "fs move %s %s" % (h(op[1]), op[2])
    return "fs %s %s" % (k, h(op[1]))


class RefList:
    """the specification: an ordered list of uniquely named items"""

    def __init__(self):
        self.items = []   # [name, enabled, core]

    def idx(self, n):
        for i, it in enumerate(self.items):
            if it[0] == n:
                return i
        return None

    def apply(self, op):
        k = op[0]
        i = self.idx(op[1])
        if k == "add":
            if i is not None:
                return "exists"
            self.items.append([op[1], True, op[2]])
            return "b1"
        if k in ("update", "replace"):
            if i is None:
                return "b0"
            new = op[1] if op[2] == "-" else op[2]
            if new != op[1] and self.idx(new) is not None:
                return "exists"
            self.items[i][0] = new
            self.items[i][2] = op[3]
            return "b1"
        if k == "replacefrom":
            j = self.idx(op[2])
            if j is None:
                return "none"
            if i is None:
                return "b0"
            self.items[i][2] = self.items[j][2]
            return "b1"
        if k == "remove":
            if i is None:
                return "b0"
            del self.items[i]
            return "b1"
        if k == "enable":
            if i is None or self.items[i][1]:
                return "b0"
            self.items[i][1] = True
            return "b1"
        if k == "disable":
            if i is None:
                return "b0"
            self.items[i][1] = False
            return "b1"
        if k == "move":
            if i is None:
                return "b0"
            j = i - 1 if op[2] == "up" else i + 1
            if j < 0 or j >= len(self.items):
                return "b0"
            self.items.insert(j, self.items.pop(i))
            return "b1"
        if k == "isdis":
            return "b1" if (i is None or not self.items[i][1]) else "b0"
        if k == "get":
            return "none" if i is None else "c:0:%d" % self.items[i][2]

    def observe(self):
        return ",".join("%s:%d:%d:%d" % (n.encode().hex() or "e", 1 if e else 0, 0 if e else 1, c) for n, e, c in self.items)


def rendered_flags(fs):
    """per filter: is its rendering wrapped in `if false {`"""
    out = []
    for f in fs.filters:
        t = io.StringIO()
        f["content"].tosieve(target=t)
        out.append(t.getvalue().lstrip().startswith("if false"))
    return out


def run(ctx):
    r = rng("c12")
    depth = 3 if ctx.tier == "quick" else 4
    seqs = []
    for L in range(1, depth + 1):
        # the longest length is thinned out (every third sequence in the quick tier, every fourth in the thorough one: 45^4 = 4.1 M
        # sequences would take the thorough tier past half an hour); all shorter lengths are complete
        seqs += list(itertools.product(OPS, repeat=L)) if L < depth else [s for s in itertools.product(OPS, repeat=L)][:: (3 if ctx.tier == "quick" else 4)]
    for _ in range(300 if ctx.tier == "quick" else 5000):
        seqs.append(tuple(r.choice(OPS) for _ in range(r.randint(5, 40))))
    viol, lines, expect = [], [], []
    evals = nontriv = 0
    for seq in seqs:
        fs = FiltersSet("t")
        ref = RefList()
        lines.append("fs new")
        expect.append("res=ok state=")
        names_seen = set()
        repeat = False
        for k, op in enumerate(seq):
            out = apply_real(fs, op)
            want = "res=%s state=%s" % (ref.apply(op), ref.observe())
            lines.append(req(op))
            expect.append(out)
            evals += 1
            repeat = repeat or (op[:2] in names_seen)
            names_seen.add(op[:2])
            if out != want:
                viol.append({"sequence": [list(x) for x in seq[:k + 1]], "what": "step %d %r: FiltersSet gives %s, an ordered uniquely-named list gives %s" % (k, op, out, want)})
                break
            flags = rendered_flags(fs)
            for f, wrapped in zip(fs.filters, flags):
                if wrapped == f["enabled"] or fs.is_filter_disabled(f["name"]) == f["enabled"]:
                    viol.append({"sequence": [list(x) for x in seq[:k + 1]], "what": "filter %r: enabled=%s, is_filter_disabled=%s, rendered wrapped=%s disagree" % (
                        f["name"], f["enabled"], fs.is_filter_disabled(f["name"]), wrapped)})
                    break
        nontriv += 1 if repeat else 0
    model = run_driver(lines, live_table=False)
    diffs = []
    for l, e, m in zip(lines, expect, model):
        if e != m:
            diffs.append({"suite": "factory-list", "request": l, "impl": e[:300], "model": m[:300]})
            if len(diffs) > 20:
                break
    # two sets side by side, loaded from ONE parsed script (some of its filters disabled in the source): each is an ordered list
    # of its own — editing one leaves the other as it was, and the other can still be edited
    from sievelib.parser import Parser as _P
    src = FiltersSet("src")
    for k_, nm_ in enumerate(("a", "b", "c")):
        src.addfilter(nm_, *definition(k_))
    src.disablefilter("a")
    src.disablefilter("c")
    pp = _P()
    assert pp.parse(str(src).encode("utf-8")) is True
    for ops_on_first in (("enable", "a"), ("disable", "b")), (("enable", "c"), ("remove", "a")), (("remove", "b"), ("enable", "a"), ("disable", "a")), (("move", "c", "up"), ("enable", "c")):
        one, two = FiltersSet("one"), FiltersSet("two")
        one.from_parser_result(pp)
        two.from_parser_result(pp)
        before = (observe(two), str(two))
        for op in ops_on_first:
            _apply_real(one, op)
        after = (observe(two), str(two))
        evals += 1
        if after != before:
            viol.append({"what": "two sets loaded from one parsed script — editing the first (%r) changed the second: %s → %s" % (ops_on_first, before[0], after[0])})
            continue
        # … and the second set still behaves like the list it is
        ref = FiltersSet("ref")
        ref.from_parser_result(_P_fresh(str(src)))
        for op in (("enable", "a"), ("get", "c"), ("isdis", "c"), ("enable", "c"), ("disable", "b")):
            got, want = _apply_real(two, op), _apply_real(ref, op)
            if got != want:
                viol.append({"what": "two sets loaded from one parsed script — after the first was edited (%r), %r on the second gives %s, on a set loaded alone %s" % (
                    ops_on_first, op, got[:80], want[:80])})
                break
    seen, uv = set(), []
    for v in viol:
        k = v["what"].split(":")[0][:40] + v["what"][-60:]
        if k not in seen:
            seen.add(k)
            uv.append(v)
    fresh, known = split_known("C12", uv, lambda f, v: False)
    return {"evaluations": evals, "distinct_nontrivial": nontriv, "rule": RULE, "samples": [[list(x) for x in seqs[len(seqs) // 2]][:6]],
            "suites": {"factory-list": {"sequences": len(seqs), "exhaustive_depth": depth, "ops": len(OPS)}}, "diffs": diffs, "violations": fresh, "known": known,
            "exhaustive_note": "all sequences up to length %d over %d operations" % (depth - 1, len(OPS))}


def replay(ctx, payload):
    v = payload.get("violation") or {}
    fs = FiltersSet("t")
    ref = RefList()
    for op in v.get("sequence", []):
        op = tuple(op)
        print(op, apply_real(fs, op), "| spec:", ref.apply(op), ref.observe())
    return 1
