import Toy.Basic

theorem run_append (s : St) (a b : List Tok) : run s (a ++ b) = run (run s a) b := by
  simp [run, List.foldl_append]

@[simp] theorem run_cons (s : St) (a : Tok) (b : List Tok) : run s (a :: b) = run (step s a) b := rfl
@[simp] theorem run_nil (s : St) : run s [] = s := rfl

mutual
theorem complete_t (t : T) (h : WF t) (stk : List Frame) (rest : List Tok) :
    run ⟨stk, .expTest⟩ (flatten t ++ rest) = run (up t stk) rest := by
  match t with
  | .leaf n =>
    obtain ⟨h1, h2⟩ := h
    simp [flatten, step, h1, h2]
  | .not t =>
    have ih := complete_t t h (.notF :: stk) rest
    simp [flatten, step, ih, up]
  | .anyof ts =>
    obtain ⟨hne, hl⟩ := h
    have ih := complete_l ts hl hne [] stk rest
    simp [flatten, step]
    simpa using ih
theorem complete_l (ts : List T) (h : WFList ts) (hne : ts ≠ []) (d : List T)
    (stk : List Frame) (rest : List Tok) :
    run ⟨.anyofF d :: stk, .expTest⟩ (flattenList ts ++ rest)
      = run (up (.anyof (d.reverse ++ ts)) stk) rest := by
  match ts with
  | [] => exact absurd rfl hne
  | [t] =>
    obtain ⟨ht, _⟩ := h
    have ih := complete_t t ht (.anyofF d :: stk) ([.rp] ++ rest)
    simp [flattenList] at ih ⊢
    rw [ih]; simp [up, step]
  | t :: t' :: ts =>
    obtain ⟨ht, hl⟩ := h
    have ih := complete_t t ht (.anyofF d :: stk) (.comma :: flattenList (t' :: ts) ++ rest)
    have ih2 := complete_l (t' :: ts) hl (by simp) (t :: d) stk rest
    simp [flattenList] at ih ⊢
    rw [ih]; simp [up, step]
    simpa using ih2
end

theorem complete (t : T) (h : WF t) : accepts (flatten t) = some t := by
  have := complete_t t h [] []
  simp at this
  simp [accepts, this, up]
