import Toy.Basic

/-- done elements (in source order); `closed` = last one already followed by its comma -/
def sepList : List T → Bool → List Tok
  | [], _ => []
  | [t], closed => flatten t ++ (if closed then [.comma] else [])
  | t :: t' :: ts, closed => flatten t ++ .comma :: sepList (t' :: ts) closed

def framePrefix : Frame → Bool → List Tok
  | .notF, _ => [.ident "not"]
  | .anyofF d, closed => .ident "anyof" :: .lp :: sepList d.reverse closed

/-- tokens consumed by a stack all of whose frames are waiting for a child test -/
def below : List Frame → List Tok
  | [] => []
  | f :: rest => below rest ++ framePrefix f true

def frameWF : Frame → Prop
  | .notF => True
  | .anyofF d => WFList d

def stackWF : List Frame → Prop
  | [] => True
  | f :: rest => frameWF f ∧ stackWF rest

def PInv (s : St) (consumed : List Tok) : Prop :=
  match s.mode with
  | .expTest => stackWF s.stack ∧ consumed = below s.stack
  | .expLp => ∃ rest, s.stack = .anyofF [] :: rest ∧ stackWF rest ∧ consumed = below rest ++ [.ident "anyof"]
  | .expSep => ∃ d rest, s.stack = .anyofF d :: rest ∧ d ≠ [] ∧ WFList d ∧ stackWF rest ∧
      consumed = below rest ++ framePrefix (.anyofF d) false
  | .fin t => WF t ∧ consumed = flatten t
  | .err => True

theorem sepList_snoc (l : List T) (t : T) :
    sepList (l ++ [t]) false = sepList l true ++ flatten t := by
  induction l with
  | nil => simp [sepList]
  | cons a l ih =>
    cases l with
    | nil => simp [sepList]
    | cons b l => simp [sepList] at ih ⊢; exact ih

theorem sepList_closed (l : List T) (h : l ≠ []) :
    sepList l true = sepList l false ++ [.comma] := by
  induction l with
  | nil => exact absurd rfl h
  | cons a l ih =>
    cases l with
    | nil => simp [sepList]
    | cons b l => simp [sepList] at ih ⊢; exact ih

theorem flattenList_eq (l : List T) (h : l ≠ []) :
    flattenList l = sepList l false ++ [.rp] := by
  induction l with
  | nil => exact absurd rfl h
  | cons a l ih =>
    cases l with
    | nil => simp [sepList, flattenList]
    | cons b l => simp [sepList, flattenList] at ih ⊢; exact ih

theorem WFList_reverse_aux (l acc : List T) (h1 : WFList l) (h2 : WFList acc) :
    WFList (l.reverseAux acc) := by
  induction l generalizing acc with
  | nil => simpa [List.reverseAux]
  | cons a l ih => exact ih _ h1.2 ⟨h1.1, h2⟩

theorem WFList_reverse (l : List T) (h : WFList l) : WFList l.reverse :=
  WFList_reverse_aux l [] h trivial

theorem up_inv (t : T) (ht : WF t) (stk : List Frame) (hs : stackWF stk) :
    PInv (up t stk) (below stk ++ flatten t) := by
  induction stk generalizing t with
  | nil => simp [up, PInv, below, ht]
  | cons f rest ih =>
    cases f with
    | notF =>
      have := ih (.not t) ht hs.2
      simpa [up, below, framePrefix, flatten] using this
    | anyofF d =>
      refine ⟨t :: d, rest, rfl, by simp, ⟨ht, hs.1⟩, hs.2, ?_⟩
      simp [below, framePrefix, sepList_snoc]

theorem step_inv (s : St) (c : List Tok) (tok : Tok) (h : PInv s c) :
    PInv (step s tok) (c ++ [tok]) := by
  obtain ⟨stk, mode⟩ := s
  cases mode with
  | err => cases tok <;> simp [step, PInv]
  | fin t => cases tok <;> simp [step, PInv]
  | expLp =>
    obtain ⟨rest, hstk, hw, hc⟩ := h
    cases tok <;> simp [step, PInv]
    simp only at hstk; subst hstk
    exact ⟨⟨trivial, hw⟩, by simp [hc, below, framePrefix, sepList]⟩
  | expTest =>
    obtain ⟨hw, hc⟩ := h
    simp only at hw hc
    cases tok with
    | ident n =>
      simp only [step]
      split
      · next hn => subst hn; exact ⟨⟨trivial, hw⟩, by simp [hc, below, framePrefix]⟩
      · split
        · next hn => subst hn; exact ⟨stk, rfl, hw, by simp [hc]⟩
        · next h1 h2 =>
          have := up_inv (.leaf n) ⟨h1, h2⟩ stk hw
          simpa [hc, flatten] using this
    | lp => simp [step, PInv]
    | rp => simp [step, PInv]
    | comma => simp [step, PInv]
  | expSep =>
    obtain ⟨d, rest, hstk, hne, hd, hw, hc⟩ := h
    simp only at hstk; subst hstk
    cases tok with
    | ident n => simp [step, PInv]
    | lp => simp [step, PInv]
    | comma =>
      refine ⟨⟨hd, hw⟩, ?_⟩
      simp [step, hc, below, framePrefix, sepList_closed d.reverse (by simpa using hne)]
    | rp =>
      simp only [step]
      have hne' : d.reverse ≠ [] := by simpa using hne
      have := up_inv (.anyof d.reverse) ⟨hne', WFList_reverse d hd⟩ rest hw
      simpa [hc, flatten, framePrefix, flattenList_eq d.reverse hne'] using this

theorem run_inv (s : St) (c toks : List Tok) (h : PInv s c) : PInv (run s toks) (c ++ toks) := by
  induction toks generalizing s c with
  | nil => simpa [run] using h
  | cons t ts ih =>
    have := ih (step s t) (c ++ [t]) (step_inv s c t h)
    simpa [run] using this

theorem sound (toks : List Tok) (t : T) (h : accepts toks = some t) : flatten t = toks ∧ WF t := by
  have hi := run_inv ⟨[], .expTest⟩ [] toks ⟨trivial, rfl⟩
  unfold accepts at h
  split at h
  · next t' heq =>
    cases h
    simp [PInv, heq] at hi
    exact ⟨hi.2.symm, hi.1⟩
  · cases h
