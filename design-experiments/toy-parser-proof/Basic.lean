/-! Toy calibration: stack machine for `not` / `anyof(...)` test expressions,
    proved complete and sound against tree + unparser. -/

inductive Tok where
  | ident (s : String) | lp | rp | comma
  deriving DecidableEq, Repr

inductive T where
  | leaf (n : String)
  | not (t : T)
  | anyof (ts : List T)
  deriving Repr

mutual
def flatten : T → List Tok
  | .leaf n => [.ident n]
  | .not t => .ident "not" :: flatten t
  | .anyof ts => .ident "anyof" :: .lp :: flattenList ts
/-- elements separated by commas, closed by `)` ; the empty list is not well formed -/
def flattenList : List T → List Tok
  | [] => [.rp]
  | [t] => flatten t ++ [.rp]
  | t :: t' :: ts => flatten t ++ .comma :: flattenList (t' :: ts)
end

mutual
def WF : T → Prop
  | .leaf n => n ≠ "not" ∧ n ≠ "anyof"
  | .not t => WF t
  | .anyof ts => ts ≠ [] ∧ WFList ts
def WFList : List T → Prop
  | [] => True
  | t :: ts => WF t ∧ WFList ts
end

inductive Frame where
  | notF
  | anyofF (done : List T)   -- reversed

inductive Mode where
  | expTest | expLp | expSep
  | fin (t : T)
  | err

structure St where
  stack : List Frame
  mode : Mode

def up (t : T) : List Frame → St
  | [] => ⟨[], .fin t⟩
  | .notF :: rest => up (.not t) rest
  | .anyofF d :: rest => ⟨.anyofF (t :: d) :: rest, .expSep⟩

def step (s : St) (tok : Tok) : St :=
  match s.mode, tok with
  | .expTest, .ident n =>
      if n = "not" then ⟨.notF :: s.stack, .expTest⟩
      else if n = "anyof" then ⟨.anyofF [] :: s.stack, .expLp⟩
      else up (.leaf n) s.stack
  | .expLp, .lp => ⟨s.stack, .expTest⟩
  | .expSep, .comma => ⟨s.stack, .expTest⟩
  | .expSep, .rp =>
      match s.stack with
      | .anyofF d :: rest => up (.anyof d.reverse) rest
      | _ => ⟨s.stack, .err⟩
  | _, _ => ⟨s.stack, .err⟩

def run (s : St) (toks : List Tok) : St := toks.foldl step s

def accepts (toks : List Tok) : Option T :=
  match (run ⟨[], .expTest⟩ toks).mode with
  | .fin t => some t
  | _ => none
