import socket
from unittest import mock
from sievelib import managesieve
from sievelib.parser import Parser
p = Parser()
for s in ['if header "ééééééééééééééé" "a" "b" { keep; }', 'keep; \ud800']:
    try: print(repr(s), p.parse(s), getattr(p,'error',None))
    except Exception as e: print(repr(s), "EXC", type(e).__name__, e)

class FS:
    def __init__(self, chunks): self.chunks=list(chunks); self.sent=[]
    def settimeout(self,t): pass
    def close(self): pass
    def sendall(self,b): self.sent.append(b)
    def recv(self,n):
        if not self.chunks: raise socket.timeout()
        c=self.chunks.pop(0)
        if len(c)>n: self.chunks.insert(0,c[n:]); c=c[:n]
        return c
CAPS = b'"IMPLEMENTATION" "x"\r\n"SASL" "PLAIN"\r\n"SIEVE" "fileinto"\r\nOK\r\n'
c = managesieve.Client("h")
s1 = FS([CAPS, b'OK\r\n'])
with mock.patch("socket.create_connection", return_value=s1): print("connect1", c.connect("u","p"))
s2 = FS([CAPS, b'NO "bad"\r\n', b'OK\r\n'])
with mock.patch("socket.create_connection", return_value=s2): print("connect2", c.connect("u","bad"))
print("authenticated after failed reconnect:", c.authenticated)
print(c.deletescript("x"), s2.sent)
# emulated rename onto active script
s3 = FS([CAPS, b'OK\r\n'])
c = managesieve.Client("h")
with mock.patch("socket.create_connection", return_value=s3): c.connect("u","p")
s3.chunks = [b'"old"\r\n"main" ACTIVE\r\nOK\r\n', b'{5}\r\nkeep;\r\nOK\r\n', b'OK\r\n', b'OK\r\n']
s3.sent=[]
print("rename old->main(active):", c.renamescript("old","main"), s3.sent)
# short literal with CRLF + OK inside
s4 = FS([CAPS, b'OK\r\n']); c = managesieve.Client("h")
with mock.patch("socket.create_connection", return_value=s4): c.connect("u","p")
s4.chunks=[b'{12}\r\nx\r\n', b'OK\r\nkeep;\r\nOK "done"\r\n', b'OK "second"\r\n']; s4.sent=[]
print("getscript split:", repr(c.getscript("a")))
print("next op:", c.deletescript("b"), c._Client__read_buffer, s4.chunks)
