import socket, signal
from unittest import mock
from sievelib import managesieve
class FS:
    def __init__(self, chunks): self.chunks=list(chunks); self.sent=[]
    def settimeout(self,t): pass
    def close(self): pass
    def sendall(self,b): self.sent.append(b)
    def recv(self,n):
        if not self.chunks: return b""
        return self.chunks.pop(0)
CAPS = b'"IMPLEMENTATION" "x"\r\n"SASL" "PLAIN"\r\nOK\r\n'
s = FS([CAPS, b'OK\r\n']); c = managesieve.Client("h")
with mock.patch("socket.create_connection", return_value=s): c.connect("u","p")
def h(*a): raise TimeoutError("HANG")
signal.signal(signal.SIGALRM, h); signal.alarm(2)
try: print(c.deletescript("x"))
except Exception as e: print("EXC", type(e).__name__, e)
