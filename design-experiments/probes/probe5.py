import signal, io
from sievelib.parser import Parser
class TO(Exception): pass
def h(*a): raise TO()
signal.signal(signal.SIGALRM, h)
def run(s):
    p = Parser()
    signal.alarm(2)
    try:
        r = p.parse(s); signal.alarm(0)
        if r:
            out = io.StringIO()
            try:
                for c in p.result: c.tosieve(target=out)
                ser = out.getvalue()
            except Exception as e: ser = "SER-EXC %r" % e
            print(repr(s), "-> True |", repr(ser))
        else:
            print(repr(s), "-> False |", p.error, p.error_pos)
    except TO: print(repr(s), "-> HANG")
    except Exception as e:
        signal.alarm(0); print(repr(s), "-> EXC", type(e).__name__, e)
for s in [
 b'stop {}', b'stop { }  keep;', b'if header "a" {}', b'if header "a" {} keep;',
 b'keep {} ', b'if true {} {}', b'if true { stop; } {}',
 '"éééé" ;', 'keep; "ééééééé"', b'if true { keep; } else', b'if true { keep; } else;', b'else;',
 b'if true { keep; } elsif true;', b'require "a" "b";', b'require 5;', b'require :tag;', b'require ["a" "b"];',
 b'require ["a",,"b"];', b'require [["a"]];', b'require ["a"]];', b'keep; require "fileinto"; fileinto "x";',
 b'if true { require "fileinto"; }', b'require "fileinto"; FileInto "x";', b'require "FILEINTO"; fileinto "x";',
 b'require "fileinto";\r\nfileinto "x";\r\n', b'keep;\r\nfoo;', b'keep;\rfoo;', b'keep;\n\n\nfoo;',
 b'if size :over 1k { keep; }', b'if size :over 1kk { keep; }', b'if size :over 1 k { keep; }',
 b'keep;#c', b'keep;#c\r\nfoo;', b'/* */keep;/*', b'keep/**/;', b'if true{keep;}',
 b'if anyof(true,true){keep;}', b'if not(true){keep;}', b'if anyof(anyof(true)){keep;}',
 b'if anyof(true)) {keep;}', b'if anyof((true)) {keep;}', b'if anyof(true {keep;}',
 b'if header ("a") "b" {keep;}', b'if header ["a") "b" {keep;}', b'if anyof(true] {keep;}',
 b'if true [keep;]', b'if true { keep; ]', b'require "vacation"; vacation :subject :days 1 "r";',
 b'require "vacation"; vacation :subject ["a"] "r";', b'require "vacation"; vacation :addresses 1 "r";',
 b'require "vacation"; vacation "r" :days 1;', b'require "vacation"; vacation :days 1;', b'require "vacation"; vacation :days;',
 b'require "vacation"; vacation;', b'require "vacation"; vacation "r" "s";', b'require "vacation"; vacation ["r"];',
 b'redirect;', b'redirect 5;', b'redirect :copy "a";', b'redirect :foo "a";', b'redirect "a" :copy;',
 b'require "date"; if date :zone :is "a" "b" "c" {keep;}', b'require "body"; if body :raw ["x"] :contains "y" {keep;}',
 b'require "body"; if body :content :contains "y" {keep;}',
 b'if header :count "gt" "a" "b" {keep;}', b'if header :regex "a" "b" {keep;}',
 b'require "relational"; if header :value "a" "b" {keep;}', b'require "relational"; if header :value "gt" :comparator "i;octet" "a" "b" {keep;}',
 b'if header :comparator :is "a" "b" {keep;}',
 b'if not not true {keep;} elsif not false {stop;} else {discard;}',
 b'if true {keep;} keep; else {stop;}', b'if true { if true {keep;} } else {stop;}', b'if true { if true {keep;} else {stop;} }',
 b'if true { else {stop;} }', b'if true { keep; else {stop;} }', b'if true { if false {} keep; else {stop;} }',
 b'text:\n.\n;', b'require "reject"; reject text:\n.\n;', b'require "reject"; reject text:\n.', b'require "reject"; reject text:  \nabc\n.\n;', b'require "reject"; reject text:abc\n.\n;',
 b'require "reject"; reject text:\nabc\n.x\n.\n;', b'require "reject"; reject text:\na\n.\n; reject text:\nb\n.\n;',
 b'keep; \x00', b'keep;\x0b\x0c', b'keep;\xc2\xa0', b'k\xc3\xa9ep;', b'keep_1;', b'_;', b'9;', b':a;',
 b'require "imap4flags"; if hasflag "a" , {keep;}', b'require "imap4flags"; if hasflag , {keep;}', b'require "imap4flags"; if anyof(hasflag "a") {keep;}',
 b'require "imap4flags"; if hasflag "a" "b" "c" {keep;}', b'require "imap4flags"; if hasflag :is {keep;}',
 b'if exists "a" "b" {keep;}', b'if exists 5 {keep;}', b'if true 5 {keep;}', b'if true "x" {keep;}', b'if true :x {keep;}', b'if true ["x"] {keep;}',
 b'if anyof(true "x") {keep;}', b'if anyof(true, "x") {keep;}', b'if anyof "x" (true) {keep;}',
 b'discard "x";', b'discard :x;', b'discard 5;', b'else "x" {}', b'if true {} else "x" {}', b'if true {} else true {}',
]:
    run(s)
