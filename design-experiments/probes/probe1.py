import signal, sys, io
from sievelib.parser import Parser
from sievelib import commands
class TO(Exception): pass
def h(*a): raise TO()
signal.signal(signal.SIGALRM, h)
def run(s):
    p = Parser()
    signal.alarm(2)
    try:
        r = p.parse(s)
        signal.alarm(0)
        out = io.StringIO()
        if r:
            try:
                for c in p.result: c.tosieve(target=out)
                ser = out.getvalue()
            except Exception as e:
                ser = "SER-EXC %r" % e
            print(repr(s), "->", r, "|", repr(ser))
        else:
            print(repr(s), "->", r, "|", p.error, p.error_pos)
    except TO:
        print(repr(s), "-> HANG")
    except Exception as e:
        signal.alarm(0)
        print(repr(s), "-> EXC", type(e).__name__, e)
for s in [
 b'require "imap4flags"; if hasflag {',
 b'require;',
 b'control;',
 b'command;',
 b'test;',
 b'action;',
 b'keep "\xff";',
 b'if true { \xc3\xa9\xc3\xa9\xc3\xa9 stop }',
 'éééé stop }',
 b'require "reject"; reject text:\r\nfoo\r\n.\r\n;',
 b'require "reject"; reject text:\nfoo $5\n.\n;',
 b'require "reject"; reject;',
 b'stop [',
 b'stop',
 b'keep; stop (',
 b'stop true;',
 b'stop ["a"];',
 b'if true { stop; } stop {',
 b'if true',
 b'if',
 b'"abc"',
 b'require "fileinto" ;;',
 b';',
 b'{',
 b'require ["imap4flags"]; addflag "MyFlags" "Big";',
 b'require ["imap4flags"]; addflag "MyFlags" ["a","b"];',
 b'if not true, { stop; }',
 b'if anyof (true) (false) { stop; }',
 b'if anyof (true), { stop; }',
 b'if anyof true { stop; }',
 b'if anyof () { stop; }',
 b'if true { } else { } else { }',
 b'if true { } elsif true { } else { } elsif true {}',
 b'keep; else { }',
 b'IF TRUE { STOP; }',
 b'if header :IS "a" "b" { stop; }',
 b'if header :comparator "I;OCTET" "a" "b" { stop; }',
 b'if size :over 1 { stop; }',
 b'if size 1 :over { stop; }',
 b'if size :over 1 2 { stop; }',
 b'if header "a" "b" "c" { stop; }',
 b'if header "a" { stop; }',
 b'if exists { stop; }',
 b'keep :flags;',
 b'require "imap4flags"; keep :flags;',
 b'require "imap4flags"; keep :flags "a" "b";',
 b'require "imap4flags"; keep :flags "a" :flags "b";',
 b'require "vacation"; vacation :days "x" "r";',
 b'require "vacation"; vacation :days 1 :days 2 "r";',
 b'require "vacation"; vacation :mime :mime "r";',
 b'if true { stop; } "x"',
 b'if true { stop; } 5',
 b'if true { stop; } :tag',
 b'if true { stop; } ,',
 b'if true { stop; } )',
 b'if true { stop; } ]',
 b'if true { stop; } true',
 b'if true stop; ',
 b'if true; ',
 b'if true {} ;',
 b'stop; ;',
 b'if anyof(true, not) {}',
 b'if anyof(not true) {}',
 b'if not anyof(true) {}',
 b'if not not {}',
 b'if allof(true,false) stop;',
]:
    run(s)
