import socket, traceback
from unittest import mock
from sievelib import managesieve

class FakeSock:
    def __init__(self, chunks, maxrecv=None):
        self.data = b"".join(chunks) if maxrecv else None
        self.chunks = list(chunks)
        self.maxrecv = maxrecv
        self.sent = []
    def settimeout(self, t): pass
    def close(self): pass
    def sendall(self, b): self.sent.append(b)
    def recv(self, n):
        if self.maxrecv:
            k = min(n, self.maxrecv)
            out, self.data = self.data[:k], self.data[k:]
            if not out: raise socket.timeout()
            return out
        if not self.chunks: raise socket.timeout()
        c = self.chunks.pop(0)
        if len(c) > n:
            self.chunks.insert(0, c[n:]); c = c[:n]
        return c

CAPS = b'"IMPLEMENTATION" "x"\r\n"SASL" "PLAIN LOGIN"\r\n"SIEVE" "fileinto"\r\n"STARTTLS"\r\nOK\r\n'
def client(chunks, maxrecv=None, **kw):
    fs = FakeSock(chunks, maxrecv)
    with mock.patch("socket.create_connection", return_value=fs):
        c = managesieve.Client("h")
        try:
            r = c.connect("user", "pw", **kw)
        except Exception as e:
            r = "EXC %s %s" % (type(e).__name__, e)
    return c, fs, r

def t(label, f):
    try:
        print(label, "=>", f())
    except Exception as e:
        print(label, "EXC", type(e).__name__, e)

c, fs, r = client([CAPS, b'OK "ok"\r\n'])
print("connect", r, fs.sent)
def op(reply, f, maxrecv=None):
    c, fs, r = client([CAPS, b'OK "ok"\r\n'])
    fs.chunks = list(reply) if not maxrecv else []
    fs.maxrecv = maxrecv
    fs.data = b"".join(reply)
    fs.sent = []
    try:
        res = f(c)
    except Exception as e:
        res = "EXC %s %s" % (type(e).__name__, e)
    return res, c.errcode, c.errmsg, fs.sent, (fs.chunks if not maxrecv else fs.data)

print(op([b'NO\r\n'], lambda c: c.deletescript("a")))
print(op([b'NO (NONEXISTENT) "nope"\r\n'], lambda c: c.deletescript("a")))
print(op([b'NO "nope"\r\n'], lambda c: c.deletescript("a")))
print(op([b'NO (QUOTA/MAXSIZE) {4}\r\nnope\r\n'], lambda c: c.deletescript("a")))
print(op([b'NO {4}\r\nnope\r\n'], lambda c: c.deletescript("a")))
print(op([b'NO {4}\r\n', b'no', b'pe\r\n'], lambda c: c.deletescript("a")))
print(op([b'NO (TAG {3}\r\nabc) "x"\r\n'], lambda c: c.deletescript("a")))
print(op([b'BYE "bye"\r\n'], lambda c: c.deletescript("a")))
print(op([b'OK (WARNINGS) "w"\r\n'], lambda c: c.putscript("a", "keep;")))
print(op([b'ok\r\n'], lambda c: c.deletescript("a")))
print("-- getscript")
print(op([b'{6}\r\nkeep;\n\r\nOK\r\n'], lambda c: c.getscript("a")))
print(op([b'{6}\r\nke', b'ep;\n\r\nOK\r\n'], lambda c: c.getscript("a")))
print(op([b'{6}\r\nkeep;\n\r\nOK\r\n'], lambda c: c.getscript("a"), maxrecv=1))
print(op([b'{6}\r\nkeep;\n\r\nOK\r\n'], lambda c: c.getscript("a"), maxrecv=3))
print(op([b'{12}\r\nOK\r\nkeep;\r\n\r\nOK\r\n'], lambda c: c.getscript("a")))
print(op([b'{9}\r\n{3}\r\nab\r\n\r\nOK\r\n'], lambda c: c.getscript("a")))
print(op([b'{0}\r\n\r\nOK\r\n'], lambda c: c.getscript("a")))
print(op([b'{5}\r\nkeep;\r\nOK\r\n'], lambda c: c.getscript("a")))
print(op([b'"keep;"\r\nOK\r\n'], lambda c: c.getscript("a")))
print(op([b'{10}\r\nNOT\r\nkeep;\r\nOK\r\n'], lambda c: c.getscript("a")))
print("-- listscripts")
print(op([b'"a"\r\n"b" ACTIVE\r\nOK\r\n'], lambda c: c.listscripts()))
print(op([b'"a"\r\n{1}\r\nb ACTIVE\r\nOK\r\n'], lambda c: c.listscripts()))
print(op([b'"a\\"q"\r\n"OK"\r\n"b" active\r\nOK\r\n'], lambda c: c.listscripts()))
print(op([b'"ACTIVE"\r\n"x" ACTIVEX\r\nOK\r\n'], lambda c: c.listscripts()))
print(op([b'{2}\r\nOK\r\nOK\r\n'], lambda c: c.listscripts()))
print(op([b'NO "x"\r\n'], lambda c: c.listscripts()))
print(op([b'NO "x"\r\n'], lambda c: c.renamescript("a","b")))
print("-- send")
print(op([b'OK\r\n'], lambda c: c.putscript('a"b\r\nLOGOUT', "é")))
print(op([b'OK\r\n'], lambda c: c.setactive('{5}')))
print(op([b'OK\r\n'], lambda c: c.havespace('a', 10)))
print(op([b'OK\r\n'], lambda c: c.capability()))
