import io, traceback
from sievelib.parser import Parser
from sievelib.factory import FiltersSet, FilterAlreadyExists
from sievelib import commands

def show(label, f):
    try:
        fs = FiltersSet("t")
        f(fs)
        s = str(fs)
        p = Parser()
        ok = p.parse(s)
        print(label, "=>", repr(s), "PARSE", ok, (p.error if not ok else ""))
        if ok:
            fs2 = FiltersSet("t"); fs2.from_parser_result(p)
            s2 = str(fs2)
            print("    reload fixed point:", s2 == s, "" if s2==s else repr(s2))
            for flt in fs.filters:
                n = flt["name"]
                try:
                    print("    readback", n, fs.get_filter_conditions(n), fs.get_filter_actions(n), fs.get_filter_matchtype(n))
                except Exception as e:
                    print("    readback EXC", repr(e))
                try:
                    print("    readback2", n, fs2.get_filter_conditions(n), fs2.get_filter_actions(n), fs2.get_filter_matchtype(n))
                except Exception as e:
                    print("    readback2 EXC", repr(e))
    except Exception as e:
        print(label, "EXC", type(e).__name__, e)

show("quote in value", lambda fs: fs.addfilter("r", [("Subject", ":is", 'a"b')], [("fileinto", "X")]))
show("backslash end", lambda fs: fs.addfilter("r", [("Subject", ":is", 'ab\\')], [("fileinto", "X")]))
show("comma value", lambda fs: fs.addfilter("r", [("Subject", ":is", 'a,b')], [("fileinto", "X,Y")]))
show("flags", lambda fs: fs.addfilter("r", [("Subject", ":is", 'a')], [("fileinto", ":flags", ["\\Seen"], "X")]))
show("flags str", lambda fs: fs.addfilter("r", [("Subject", ":is", 'a')], [("fileinto", ":flags", "\\Seen", "X")]))
show("vac seconds", lambda fs: fs.addfilter("r", [("Subject", ":is", 'a')], [("vacation", ":seconds", 5, "gone")]))
show("vac addresses", lambda fs: fs.addfilter("r", [("Subject", ":is", 'a')], [("vacation", ":addresses", ["a@b","c@d"], "gone")]))
show("setflag", lambda fs: fs.addfilter("r", [("Subject", ":is", 'a')], [("setflag", "\\Seen")]))
show("addflag list", lambda fs: fs.addfilter("r", [("Subject", ":is", 'a')], [("addflag", ["\\Seen", "x"])]))
show("reject", lambda fs: fs.addfilter("r", [("Subject", ":is", 'a')], [("reject", "no")]))
show("keep/discard/stop", lambda fs: fs.addfilter("r", [("Subject", ":is", 'a')], [("keep",),("discard",),("stop",)]))
show("redirect", lambda fs: fs.addfilter("r", [("Subject", ":matches", 'a')], [("redirect", "a@b")]))
show("true", lambda fs: fs.addfilter("r", [("true",)], [("keep",)]))
show("false", lambda fs: fs.addfilter("r", [("false",)], [("keep",)]))
show("size", lambda fs: fs.addfilter("r", [("size", ":over", "100K")], [("keep",)]))
show("size int", lambda fs: fs.addfilter("r", [("size", ":over", 100)], [("keep",)]))
show("envelope", lambda fs: fs.addfilter("r", [("envelope", ":contains", ["to"], ["a,b"])], [("keep",)]))
show("address notis", lambda fs: fs.addfilter("r", [("address", ":notis", "from", "a@b")], [("keep",)]))
show("body", lambda fs: fs.addfilter("r", [("body", ":text", ":contains", "a", "b")], [("keep",)]))
show("currentdate value", lambda fs: fs.addfilter("r", [("currentdate", ":zone", "+0100", ":value", "ge", "date", "2020-01-01")], [("keep",)]))
show("currentdate notvalue", lambda fs: fs.addfilter("r", [("currentdate", ":zone", "+0100", ":notvalue", "ge", "date", "2020-01-01")], [("keep",)]))
show("currentdate count", lambda fs: fs.addfilter("r", [("currentdate", ":zone", "+0100", ":count", "ge", "date", "2")], [("keep",)]))
show("regex", lambda fs: fs.addfilter("r", [("Subject", ":regex", "^a")], [("keep",)]))
show("header count", lambda fs: fs.addfilter("r", [("Subject", ":count", "3")], [("keep",)]))
show("newline in val", lambda fs: fs.addfilter("r", [("Subject", ":is", "a\nb")], [("keep",)]))
show("name newline", lambda fs: fs.addfilter("r\nkeep;", [("Subject", ":is", "a")], [("keep",)]))
show("two conds allof", lambda fs: fs.addfilter("r", [("Subject", ":is", "a"), ("notexists","X"), ("size",":under","1M")], [("keep",)], "allof"))
show("header lists", lambda fs: fs.addfilter("r", [(["A","B"], ":contains", ["x","y"])], [("keep",)]))
def hist(fs):
    fs.addfilter("a", [("Subject", ":is", "a")], [("fileinto","A")])
    fs.addfilter("b", [("Subject", ":is", "b")], [("redirect",":copy", "B")])
    print("disable", fs.disablefilter("a"), fs.disablefilter("a"))
    print("enable", fs.enablefilter("a"), fs.is_filter_disabled("a"), fs.filters[0]["enabled"], fs.enablefilter("a"), fs.is_filter_disabled("a"), fs.filters[0]["enabled"])
    fs.removefilter("b")
show("hist", hist)
def hist2(fs):
    fs.addfilter("a", [("Subject", ":is", "a")], [("fileinto","A")])
    fs.disablefilter("a")
    print(fs.updatefilter("a", "a2", [("Subject", ":is", "z")], [("keep",)]))
    fs.replacefilter("a2", fs.getfilter("a2"), description="desc")
show("hist2", hist2)
def hist3(fs):
    fs.addfilter("a", [("false",)], [("keep",)])
    print("isdisabled", fs.is_filter_disabled("a"), fs.filters[0]["enabled"])
show("hist3", hist3)
