import io, traceback
from sievelib.parser import Parser
from sievelib.factory import FiltersSet, FilterAlreadyExists
from sievelib import commands

def ser(cmds):
    out = io.StringIO()
    for c in cmds: c.tosieve(target=out)
    return out.getvalue()

def rt(s):
    p = Parser()
    if not p.parse(s):
        print("REJ", repr(s), p.error); return
    try:
        t1 = ser(p.result)
    except Exception as e:
        print("SER-EXC", repr(s), repr(e)); return
    p2 = Parser()
    if not p2.parse(t1):
        print("RT-REJ", repr(s), "=>", repr(t1), p2.error); return
    t2 = ser(p2.result)
    print("OK " if t1==t2 else "NOFIX", repr(s), "=>", repr(t1), ("" if t1==t2 else repr(t2)))

for s in [
 'require "fileinto"; fileinto "a\\"";',
 'require "fileinto"; fileinto "a\\\\";',
 'if header ["a\\"b", "c"] "d" { stop; }',
 'if header ["\\"a\\"", "c"] "d" { stop; }',
 'if header ["a,b", "c]"] "d" { stop; }',
 'if header [" a "] "d" { stop; }',
 'require "reject"; if true { reject text:\nhello\n.\n; }',
 'require "reject"; reject text:\nhello\n.\n;',
 'require "reject"; reject text: # c\nhello\n..x\n.\n;',
 'require "vacation"; vacation :addresses ["a","b"] :subject "s" :days 3 :mime :handle "h" :from "f" "r";',
 'require ["vacation","vacation-seconds"]; vacation :seconds 3 "r";',
 'require ["fileinto","imap4flags"]; fileinto :flags ["a","b"] "x";',
 'require ["fileinto","imap4flags"]; fileinto :flags "a" "x";',
 'require ["body"]; if body :content ["text"] :contains "x" { stop; }',
 'require ["body"]; if body :content "text" :contains "x" { stop; }',
 'require ["date"]; if date :zone "+0100" :is "date" "hour" "09" { stop; }',
 'require ["date"]; if date :originalzone :is "date" "hour" "09" { stop; }',
 'require ["date"]; if date :originalzone "date" "hour" "09" { stop; }',
 'require ["relational"]; if header :count "gt" "a" "3" { stop; }',
 'require ["relational"]; if header :count "GT" "a" "3" { stop; }',
 'if header :is "a" "3" { stop; }',
 'if header :is :is "a" "3" { stop; }',
 'if header :is "gt" "a" "3" { stop; }',
 'require ["imap4flags"]; if hasflag :contains "a" "b" { stop; }',
 'require ["imap4flags"]; if hasflag ["b"] { stop; }',
 'require ["imap4flags"]; if anyof(hasflag "b", true) { stop; }',
 'require ["imap4flags"]; if anyof(hasflag "a" "b", true) { stop; }',
 'require ["imap4flags"]; if not hasflag "a" { stop; }',
 'require ["imap4flags"]; setflag "a";  removeflag "v" "a";',
 'require ["variables"]; set "a" "b";',
 'if anyof(true, allof(false, not true)) { if true { keep; } elsif false { discard; } else { stop; } }',
 'if size :over 10K { redirect "a@b"; }',
 'if address :localpart :comparator "i;octet" :matches "from" "x" { stop; }',
 'require "envelope"; if envelope :domain "from" "x" { stop; }',
 'if exists ["a","b"] { }',
 'if true { /* c */ stop; # x\n }',
 'if header "é" "ü" { stop; }',
 'if header "a\nb" "c" { stop; }',
]:
    rt(s)
