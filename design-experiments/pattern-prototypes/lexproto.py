import itertools, sys
from sievelib.parser import Parser, Lexer, ParseError
WS = b" \t\n\r\x0b\x0c"
def isw(c): return (48<=c<=57) or (65<=c<=90) or (97<=c<=122) or c==95
def isalpha_(c): return (65<=c<=90) or (97<=c<=122) or c==95
def one(t, p):
    """return (kind, length) or None, mimicking ordered alternation of Parser.lrules at p"""
    n=len(t); c=t[p]
    single={91:"left_bracket",93:"right_bracket",40:"left_parenthesis",41:"right_parenthesis",123:"left_cbracket",125:"right_cbracket",59:"semicolon",44:"comma"}
    if c in single: return (single[c],1)
    if c==35: # '#' .* up to before next \n
        q=p
        while q<n and t[q]!=10: q+=1
        return ("hash_comment", q-p)
    if c==47 and p+1<n and t[p+1]==42:
        q=t.find(b"*/", p+2)
        if q>=0: return ("bracket_comment", q+2-p)
        return None  # '/' matches nothing else
    if t[p:p+5]==b"text:":
        # first k>=p+6 with t[k-1] in CRLF, t[k]=='.', (k+1==n or t[k+1]==10), and no '$' in t[p+5:k]
        k=p+6
        while k<n:
            if t[k-1]==36: break          # a '$' at k-1 blocks everything later  (k-1 >= p+5)
            if t[k-1] in (10,13) and t[k]==46 and (k+1==n or t[k+1]==10):
                return ("multiline", k+1-p)
            k+=1
        # fallthrough to identifier
    if c==34:
        q=p+1
        while q<n:
            if t[q]==34: return ("string", q+1-p)
            if t[q]==92:
                if q+1<n and t[q+1]!=10: q+=2; continue   # '\\.' : dot does not match \n
                return None
            q+=1
        return None
    if isalpha_(c):
        q=p+1
        while q<n and isw(t[q]): q+=1
        return ("identifier", q-p)
    if c==58 and p+1<n and isalpha_(t[p+1]):
        q=p+2
        while q<n and isw(t[q]): q+=1
        return ("tag", q-p)
    if 48<=c<=57:
        q=p+1
        while q<n and 48<=t[q]<=57: q+=1
        if q<n and t[q] in b"KMGkmg": q+=1
        return ("number", q-p)
    return None
def lex(t):
    out=[]; p=0; n=len(t)
    while p<n:
        if t[p] in WS:
            while p<n and t[p] in WS: p+=1
            continue
        r=one(t,p)
        if r is None:
            q=p
            while q<n and t[q] not in WS: q+=1
            return out, ("ERR", p, t[p:q])
        out.append((r[0], p, r[1])); p+=r[1]
    return out, None
def ref(t):
    L=Lexer(Parser.lrules); out=[]
    try:
        for k,v in L.scan(t): out.append((k, L.pos, len(v)))
    except ParseError as e:
        tok=t[L.pos:]; 
        import re
        m=re.compile(rb"\s+", re.M).search(tok)
        if m: tok=tok[:m.start()]
        return out, ("ERR", L.pos, tok)
    return out, None
alpha=[b'"', b'\\', b'#', b'/', b'*', b':', b'.', b'$', b'\r', b'\n', b' ', b'a', b'5', b'\xc3', b'K', b'[', b';']
N=int(sys.argv[1]); bad=0; cnt=0
for L in range(1,N+1):
    for tup in itertools.product(alpha, repeat=L):
        t=b"".join(tup); cnt+=1
        if lex(t)!=ref(t):
            bad+=1
            if bad<10: print("DIFF", t, lex(t), ref(t))
# targeted: text: prefixes
for L in range(0,6):
    for tup in itertools.product([b'.', b'$', b'\r', b'\n', b'a', b' ', b';'], repeat=L):
        t=b"text:"+b"".join(tup); cnt+=1
        if lex(t)!=ref(t):
            bad+=1
            if bad<20: print("DIFF", t, lex(t), ref(t))
        t=b'"'+b"".join(tup)+b'"'
print(cnt, "strings,", bad, "differences")
