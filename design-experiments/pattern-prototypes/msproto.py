import re, itertools
WS = b" \t\n\r\x0b\x0c"
def isw(c): return (48<=c<=57) or (65<=c<=90) or (97<=c<=122) or c==95
# 1. size_expr.match:  \{(\d+)\+?\}
def size(t):
    if not t.startswith(b"{"): return None
    q=1
    while q<len(t) and 48<=t[q]<=57: q+=1
    if q==1: return None
    d=t[1:q]
    if q<len(t) and t[q]==43: q+=1
    if q<len(t) and t[q]==125: return int(d)
    return None
# 2. respcode.match: (OK|NO|BYE)\s*(.+)?   -> (code, data|None)
def resp(t):
    for c in (b"OK", b"NO", b"BYE"):
        if t.startswith(c):
            q=len(c)
            r=q
            while r<len(t) and t[r] in WS: r+=1
            e=r
            while e<len(t) and t[e]!=10: e+=1
            if e>r: return (c, t[r:e])
            return (c, None)
    return None
# 3. error_expr.match: (\([\w/-]+\))?\s*(".+")
def err(t):
    def tail(p):  # \s*(".+") at p ; returns group2 or None
        r=p
        while r<len(t) and t[r] in WS: r+=1
        # \s* cannot usefully backtrack: '"' is not whitespace
        if r<len(t) and t[r]==34:
            # ".+" greedy: .+ to end of line (no \n), then backtrack to last '"' with at least one char between
            e=r+1
            while e<len(t) and t[e]!=10: e+=1
            k=e-1
            while k>=r+2:
                if t[k]==34: return t[r:k+1]
                k-=1
        return None
    g1=None
    if t.startswith(b"("):
        q=1
        while q<len(t) and (isw(t[q]) or t[q] in b"/-"): q+=1
        if q>1 and q<len(t) and t[q]==41:
            g=tail(q+1)
            if g is not None: return (t[:q+1], g)
    g=tail(0)
    if g is not None: return (None, g)
    return None
# 4. listscripts line: "([^"]+)"\s*(.+)
def lsline(t):
    if not t.startswith(b'"'): return None
    q=t.find(b'"',1)
    if q<=1: return None
    r=q+1
    while r<len(t) and t[r] in WS: r+=1
    pos=r
    while pos>=q+1:
        e=pos
        while e<len(t) and t[e]!=10: e+=1
        if e>pos: return (t[1:q], t[pos:e])
        pos-=1
    return None
R1=re.compile(rb"\{(\d+)\+?\}"); R2=re.compile(rb"(OK|NO|BYE)\s*(.+)?"); R3=re.compile(rb'(\([\w/-]+\))?\s*(".+")'); R4=re.compile(rb'"([^"]+)"\s*(.+)')
alpha=[b'{',b'}',b'+',b'1',b'0',b'O',b'K',b'N',b'B',b'Y',b'E',b' ',b'\n',b'\r',b'"',b'(',b')',b'/',b'a',b'\\',b'-']
bad=0; cnt=0
for L in range(0,6):
    for tup in itertools.product(alpha, repeat=L):
        t=b"".join(tup); cnt+=1
        m=R1.match(t); a=(int(m.group(1)) if m else None)
        if a!=size(t): bad+=1; print("SIZE",t,a,size(t)) if bad<10 else 0
for pre in (b"OK",b"NO",b"BYE",b"O",b"NOK"):
  for L in range(0,6):
    for tup in itertools.product([b' ',b'\n',b'\r',b'\t',b'a',b'"',b'('], repeat=L):
        t=pre+b"".join(tup); cnt+=1
        m=R2.match(t); a=((m.group(1),m.group(2)) if m else None)
        if a!=resp(t): bad+=1; print("RESP",t,a,resp(t)) if bad<20 else 0
for L in range(0,8):
    for tup in itertools.product([b' ',b'\n',b'"',b'(',b')',b'a',b'/'], repeat=L):
        t=b"".join(tup); cnt+=1
        m=R3.match(t); a=((m.group(1),m.group(2)) if m else None)
        if a!=err(t): bad+=1; print("ERR",t,a,err(t)) if bad<30 else 0
        m=R4.match(t); a=((m.group(1),m.group(2)) if m else None)
        if a!=lsline(t): bad+=1; print("LS",t,a,lsline(t)) if bad<40 else 0
print(cnt,"strings",bad,"differences")
