import Proj.Args

/-- optional slots that do not take this argument are skipped -/
theorem scan_skip (loaded : List String) (ce : Bool) (t : AType) (v : Val) (st : CState)
    (opts rest : List ArgDef) (pos : Nat)
    (h : ∀ d ∈ opts, d.required = false ∧ (t ∉ d.types ∨ validValue d v loaded ce = .ok false)) :
    scan loaded ce t v st (opts ++ rest) pos = scan loaded ce t v st rest (pos + opts.length) := by
  induction opts generalizing pos with
  | nil => simp
  | cons d opts ih =>
    have hd := h d (by simp)
    have ih' := ih (pos + 1) (fun d' hd' => h d' (by simp [hd']))
    have e : pos + 1 + opts.length = pos + (opts.length + 1) := by omega
    rcases hd with ⟨hr, hc | hv⟩
    · simp [scan, hr, hc, ih', e]
    · by_cases hct : t ∈ d.types
      · simp [scan, hr, hct, hv, ih', e, bind, Except.bind]
      · simp [scan, hr, hct, ih', e]

/-- a positional argument lands in the first required slot -/
theorem scan_required (loaded : List String) (ce : Bool) (t : AType) (v : Val) (st : CState)
    (opts reqs : List ArgDef) (r : ArgDef)
    (hopts : ∀ d ∈ opts, d.required = false ∧ d.types = [.tag]) (ht : t ≠ .tag)
    (hr : r.required = true) (hty : validType t r.types = true)
    (hval : validValue r v loaded ce = .ok true) :
    scan loaded ce t v st (opts ++ r :: reqs) 0 =
      .ok { st with curarg := some r, rargsCnt := st.rargsCnt + 1, nextargpos := opts.length + 1,
                    arguments := assocSet st.arguments r.name v } := by
  rw [scan_skip loaded ce t v st opts (r :: reqs) 0]
  · simp [scan, hr, hty, hval, bind, Except.bind, pure, Except.pure]
  · intro d hd
    obtain ⟨h1, h2⟩ := hopts d hd
    refine ⟨h1, Or.inl ?_⟩
    simp [h2, ht]

/-- a tag lands in the first optional slot that admits it -/
theorem scan_tag (loaded : List String) (raw : String) (st : CState)
    (pre post : List ArgDef) (d : ArgDef)
    (hpre : ∀ d' ∈ pre, d'.required = false ∧ (AType.tag ∉ d'.types ∨ validValue d' (.s raw) loaded true = .ok false))
    (hr : d.required = false) (hty : AType.tag ∈ d.types)
    (hval : validValue d (.s raw) loaded true = .ok true)
    (hext : ∀ e, d.extension = some e → e ∈ loaded) :
    scan loaded true .tag (.s raw) st (pre ++ d :: post) 0 =
      .ok { st with
        curarg := curargAfterTag d (.s raw) st.curarg,
        arguments := assocSet st.arguments d.name (.s raw) } := by
  rw [scan_skip loaded true .tag (.s raw) st pre (d :: post) 0 hpre]
  cases hx : d.extension with
  | none => simp [scan, hr, hty, hval, hx, bind, Except.bind, pure, Except.pure]
  | some e =>
    have := hext e hx
    simp [scan, hr, hty, hval, hx, this, bind, Except.bind, pure, Except.pure]
