/-! Faithful transliteration of sievelib.commands.Command.check_next_arg / iscomplete
    (non-test part), for a design-time feasibility experiment. -/

inductive AType where
  | tag | string | stringlist | number
  deriving DecidableEq, Repr

inductive Val where
  | s (raw : String)
  | l (items : List String)
  deriving DecidableEq, Repr

structure ExtraDef where
  types : List AType
  /-- Python `type` given as one str: `atype in "stringlist"` is substring search -/
  typeIsStr : Bool
  values : Option (List String)
  validFor : Option (List String)
  deriving DecidableEq, Repr

structure ArgDef where
  name : String
  types : List AType
  required : Bool
  values : Option (List String)
  extValues : List (String × String)
  extension : Option String
  extra : Option ExtraDef
  deriving DecidableEq, Repr

inductive Err where
  | badValue (arg : String)
  | badArgument
  | extNotLoaded (e : String)
  | crash
  deriving DecidableEq, Repr

structure CState where
  nextargpos : Nat := 0
  rargsCnt : Nat := 0
  curarg : Option ArgDef := none
  arguments : List (String × Val) := []
  extraArgs : List (String × Val) := []
  deriving Repr

def assocSet (l : List (String × Val)) (k : String) (v : Val) : List (String × Val) :=
  if l.any (·.1 == k) then l.map (fun p => if p.1 == k then (k, v) else p) else l ++ [(k, v)]

def atypeIn (a : AType) (e : ExtraDef) : Bool :=
  e.types.contains a || (e.typeIsStr && a == .string && e.types.contains .stringlist)

def valNotIn (v : Val) (l : List String) : Bool :=
  match v with
  | .s r => !l.contains r
  | .l _ => true

def requiredCount (defs : List ArgDef) : Nat := (defs.filter (·.required)).length

def isComplete (defs : List ArgDef) (st : CState) (a : Option (AType × Val)) : Bool :=
  (match st.curarg with
   | none => true
   | some c => match c.extra with
     | none => true
     | some e => match e.validFor, a with
       | some vf, some (t, v) => atypeIn t e && valNotIn v vf
       | _, _ => false)
  && st.rargsCnt == requiredCount defs

def validType (t : AType) (ts : List AType) : Bool :=
  ts.contains t || (t == .string && ts.contains .stringlist)

/-- `__is_valid_value_for_arg`; `.lower()` on a list value is a crash -/
def validValue (d : ArgDef) (v : Val) (loaded : List String) (checkExt : Bool) : Except Err Bool :=
  if d.values.isNone && d.extValues.isEmpty then pure true else
  match v with
  | .l _ => throw .crash
  | .s raw =>
    let low := raw.toLower
    if (d.values.getD []).contains low then pure true else
    match d.extValues.find? (·.1 == low) with
    | some (_, ext) => if checkExt && !loaded.contains ext then throw (.extNotLoaded ext) else pure true
    | none => pure false

def extraAppliesTo (e : ExtraDef) (v : Val) : Bool :=
  match e.validFor with
  | none => true
  | some vf => !valNotIn v vf

def curargAfterTag (d : ArgDef) (v : Val) (old : Option ArgDef) : Option ArgDef :=
  match d.extra with
  | some e => if extraAppliesTo e v then some d else old
  | none => old

/-- the `while pos < len(args_definition)` loop; `rest` = args_definition[pos:] -/
def scan (loaded : List String) (checkExt : Bool) (t : AType) (v : Val) (st : CState) :
    List ArgDef → Nat → Except Err CState
  | [], _ => pure st                       -- falls off the end: argument silently ignored, returns True
  | d :: rest, pos =>
    if d.required then
      if !validType t d.types then throw .badArgument else do
        let ok ← validValue d v loaded checkExt
        if !ok then throw .badArgument
        else pure { st with curarg := some d, rargsCnt := st.rargsCnt + 1, nextargpos := pos + 1,
                            arguments := assocSet st.arguments d.name v }
    else if d.types.contains t then do
      let ok ← validValue d v loaded checkExt
      if ok then
        match d.extension with
        | some ext => if checkExt && !loaded.contains ext then throw (.extNotLoaded ext) else pure ()
        | none => pure ()
        pure { st with curarg := curargAfterTag d v st.curarg, arguments := assocSet st.arguments d.name v }
      else scan loaded checkExt t v st rest (pos + 1)
    else scan loaded checkExt t v st rest (pos + 1)

/-- returns `none` for Python's `return False` -/
def checkNextArg (defs : List ArgDef) (loaded : List String) (st : CState) (t : AType) (v : Val) :
    Except Err (Option CState) :=
  if defs.isEmpty then pure none
  else if isComplete defs st (some (t, v)) then pure none
  else
    match st.curarg.bind (fun c => c.extra.map (fun e => (c, e))) with
    | some (c, e) =>
      if atypeIn t e && (match e.values with | none => true | some vs => !valNotIn v vs) then
        pure (some { st with extraArgs := assocSet st.extraArgs c.name v, curarg := none })
      else throw (.badValue c.name)
    | none => do
      let st' ← scan loaded true t v st (defs.drop st.nextargpos) st.nextargpos
      pure (some st')
