import Proj.Lemmas

structure Regular (defs opts reqs : List ArgDef) : Prop where
  split : defs = opts ++ reqs
  optsOK : ∀ d ∈ opts, d.required = false ∧ d.types = [.tag]
  reqsOK : ∀ d ∈ reqs, d.required = true ∧ d.extra = none
  reqsNe : reqs ≠ []

theorem requiredCount_regular {defs opts reqs} (h : Regular defs opts reqs) :
    requiredCount defs = reqs.length := by
  have h1 : opts.filter (·.required) = [] := by
    simp only [List.filter_eq_nil_iff]; intro d hd; simp [(h.optsOK d hd).1]
  have h2 : reqs.filter (·.required) = reqs := by
    simp only [List.filter_eq_self]; intro d hd; simp [(h.reqsOK d hd).1]
  simp [requiredCount, h.split, List.filter_append, h1, h2]

def noPending (st : CState) : Prop := ∀ c, st.curarg = some c → c.extra = none

structure TagPhase (st : CState) : Prop where
  pos0 : st.nextargpos = 0
  cnt0 : st.rargsCnt = 0
  np : noPending st

def needsParam (d : ArgDef) (raw : String) : Bool :=
  match d.extra with
  | some e => extraAppliesTo e (.s raw)
  | none => false

theorem curargAfterTag_noParam (d : ArgDef) (raw : String) (old : Option ArgDef)
    (h : needsParam d raw = false) : curargAfterTag d (.s raw) old = old := by
  unfold needsParam at h; unfold curargAfterTag
  cases hx : d.extra with
  | none => rfl
  | some e => simp only [hx] at h; simp [h]

theorem curargAfterTag_param (d : ArgDef) (raw : String) (old : Option ArgDef)
    (h : needsParam d raw = true) : curargAfterTag d (.s raw) old = some d ∧ d.extra.isSome := by
  unfold needsParam at h; unfold curargAfterTag
  cases hx : d.extra with
  | none => simp [hx] at h
  | some e => simp only [hx] at h; simp [h]

/-- a tag WITHOUT parameter, in the tag phase, is recorded under its slot's name and nothing else changes -/
theorem tag_step_noParam {defs opts reqs : List ArgDef} (hreg : Regular defs opts reqs)
    (loaded : List String) (st : CState) (hph : TagPhase st) (raw : String)
    (pre post : List ArgDef) (d : ArgDef) (hopts : opts = pre ++ d :: post)
    (hpre : ∀ d' ∈ pre, validValue d' (.s raw) loaded true = .ok false)
    (hval : validValue d (.s raw) loaded true = .ok true)
    (hext : ∀ e, d.extension = some e → e ∈ loaded)
    (hnp : needsParam d raw = false) :
    checkNextArg defs loaded st .tag (.s raw) =
      .ok (some { st with arguments := assocSet st.arguments d.name (.s raw) }) := by
  have hne : defs.isEmpty = false := by
    have := hreg.reqsNe
    cases hr : reqs with
    | nil => exact absurd hr this
    | cons a b => simp [hreg.split, hr]
  have hcnt := requiredCount_regular hreg
  have hlen : reqs.length ≠ 0 := by
    intro h; exact hreg.reqsNe (List.eq_nil_of_length_eq_zero h)
  have hic : isComplete defs st (some (.tag, .s raw)) = false := by
    simp [isComplete, hcnt, hph.cnt0]; intro _; omega
  have hcur : st.curarg.bind (fun c => c.extra.map (fun e => (c, e))) = none := by
    cases hc : st.curarg with
    | none => rfl
    | some c => simp [hph.np c hc]
  have hd : d ∈ opts := by simp [hopts]
  have hscan := scan_tag loaded raw st pre (post ++ reqs) d
    (fun d' hd' => ⟨(hreg.optsOK d' (by simp [hopts, hd'])).1, Or.inr (hpre d' hd')⟩)
    (hreg.optsOK d hd).1 (by simp [(hreg.optsOK d hd).2]) hval hext
  have hdefs : defs = pre ++ d :: (post ++ reqs) := by simp [hreg.split, hopts]
  unfold checkNextArg
  simp only [hne, hic, hcur, hph.pos0, List.drop_zero]
  rw [hdefs, hscan]
  simp [bind, Except.bind, pure, Except.pure, curargAfterTag_noParam d raw _ hnp, hph.pos0]
