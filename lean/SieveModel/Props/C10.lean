import SieveModel.Model.Client
import SieveModel.Generated.ClientMethods
import SieveModel.Generated.MsConsts
/-!
# C10 — No script command before authentication; no credentials before TLS
-/
namespace C10
open Client

def scriptVerbs : List String :=
  ["HAVESPACE", "LISTSCRIPTS", "GETSCRIPT", "PUTSCRIPT", "CHECKSCRIPT", "DELETESCRIPT", "RENAMESCRIPT", "SETACTIVE"]

/-- static half, on the method table regenerated from `class Client` on every run: every method
    that sends a script-management verb carries `@authentication_required` -/
theorem every_script_sender_is_guarded :
    ∀ m ∈ Generated.clientMethods, (∃ v ∈ m.verbs, v ∈ scriptVerbs) → m.guarded = true := by decide

/-- a non-literal command name is sent only by the (pinned) DIGEST-MD5 exchange -/
theorem dynamic_verbs_only_in_digest :
    ∀ m ∈ Generated.clientMethods, "<dynamic>" ∈ m.verbs → m.name = "_digest_md5_authentication" := by decide

/-- `authenticated = True` is assigned in exactly one place -/
theorem authenticated_set_only_by_authenticate :
    Generated.authenticatedSetTrueIn = ["__authenticate"] ∧ "connect" ∈ Generated.authenticatedSetOtherIn := by decide

/-- dynamic half: a guarded operation in an unauthenticated state raises `Error` and neither
    writes nor reads anything -/
theorem guarded_refuses_unauthenticated {α : Type} (c : Client) (f : Client → Res α)
    (h : c.authenticated = false) : guarded c f = (.error .error, c) := by
  simp [guarded, h]

example : (havespace { r := { buf := [], net := { stream := [], sched := [] } } } (sb "n") 1).1 = .error .error := rfl

end C10
