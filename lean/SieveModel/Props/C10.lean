import SieveModel.Lemmas.ClientState
import SieveModel.Lemmas.Session
import SieveModel.Lemmas.AuthWrites
import SieveModel.Generated.ClientMethods
import SieveModel.Generated.MsConsts
/-!
# C10 — No script command before authentication; no credentials before TLS
-/
namespace C10
open Client

def scriptVerbs : List String :=
  ["HAVESPACE", "LISTSCRIPTS", "GETSCRIPT", "PUTSCRIPT", "CHECKSCRIPT", "DELETESCRIPT", "RENAMESCRIPT", "SETACTIVE"]

/-- static half, on the method table regenerated from `class Client` on every run: every method
    that sends a script-management verb carries `@authentication_required` -/
theorem every_script_sender_is_guarded :
    ∀ m ∈ Generated.clientMethods, (∃ v ∈ m.verbs, v ∈ scriptVerbs) → m.guarded = true := by decide

/-- a non-literal command name is sent only by the (pinned) DIGEST-MD5 exchange -/
theorem dynamic_verbs_only_in_digest :
    ∀ m ∈ Generated.clientMethods, "<dynamic>" ∈ m.verbs → m.name = "_digest_md5_authentication" := by decide

/-- `authenticated = True` is assigned in exactly one place -/
theorem authenticated_set_only_by_authenticate :
    Generated.authenticatedSetTrueIn = ["__authenticate"] ∧ "connect" ∈ Generated.authenticatedSetOtherIn := by decide

/-- dynamic half: a guarded operation in an unauthenticated state raises `Error` and neither
    writes nor reads anything -/
theorem guarded_refuses_unauthenticated {α : Type} (c : Client) (f : Client → Res α)
    (h : c.authenticated = false) : guarded c f = (.error .error, c) := by
  simp [guarded, h]

/-- `connect` marks the client authenticated only when it returned True, i.e. only when the
    AUTHENTICATE exchange on THIS connection ended with OK (the flag is cleared first) -/
theorem authenticated_only_after_successful_connect (c : Client) (env : ConnEnv) (net : Net)
    (l p z : Bytes) (useTls : Bool) (m : Option Bytes)
    (h : (connect c env net l p z useTls m).2.authenticated = true) :
    (connect c env net l p z useTls m).1 = .ok true :=
  (Client.connect_spec c env net l p z useTls m).1 h

/-- with STARTTLS requested, the only bytes ever written on the plain channel are the STARTTLS
    command: no AUTHENTICATE and no credentials before the handshake has succeeded — whatever the
    server answers at any step, whether the handshake fails, whatever is announced -/
theorem nothing_but_starttls_in_plaintext (c : Client) (env : ConnEnv) (net : Net)
    (l p z : Bytes) (m : Option Bytes) :
    ∀ w ∈ (connect c env net l p z true m).2.writes, w.1 = false → w.2 = commandBytes (sb "STARTTLS") [] :=
  (Client.connect_spec c env net l p z true m).2.1 rfl

/-- a refused, failed or unavailable STARTTLS makes connect fail: success implies the TLS channel -/
theorem connect_success_implies_tls (c : Client) (env : ConnEnv) (net : Net) (l p z : Bytes) (m : Option Bytes)
    (h : (connect c env net l p z true m).1 = .ok true) :
    (connect c env net l p z true m).2.tls = true ∧ env.tlsOk = true :=
  (Client.connect_spec c env net l p z true m).2.2 rfl h

/-- the capabilities used for mechanism selection are read after the handshake: the wrapped
    client starts with an empty capability map and an empty buffer -/
theorem capabilities_reset_at_handshake (c : Client) :
    (tlsWrapped c).caps = [] ∧ (tlsWrapped c).r.buf = [] ∧ (tlsWrapped c).tls = true := ⟨rfl, rfl, rfl⟩

example : (havespace { r := { buf := [], net := { stream := [], sched := [] } } } (sb "n") 1).1 = .error .error := rfl

/-! ## over whole sessions -/

/-- **an unauthenticated client sends no script command, whatever is tried and however often**: every script
    operation of any session raises Error and the client — its write log included — stays exactly what it was -/
theorem unauthenticated_sessions_write_nothing (ops : List Op) (c : Client) (h : c.authenticated = false)
    (hs : ∀ op ∈ ops, op.onScripts = true) :
    (runOps c ops).2 = c ∧ ∀ r ∈ (runOps c ops).1, r = .error .error :=
  unauthenticated_session ops c h hs

/-- **no operation authenticates, secures or reconnects the client behind the caller's back**: after any session the
    authenticated, TLS and connected flags are what they were, and everything written during it went out on the channel
    the session started on (so after `connect` with STARTTLS — `connect_success_implies_tls` — every later command of the
    session travels on the secured channel) -/
theorem sessions_keep_the_connection_state (ops : List Op) (c : Client) :
    (runOps c ops).2.authenticated = c.authenticated ∧ (runOps c ops).2.tls = c.tls ∧
    (runOps c ops).2.connected = c.connected ∧
    ∃ ws : List Bytes, (runOps c ops).2.writes = c.writes ++ ws.map (fun b => (c.tls, b)) := by
  have h := runOps_keeps ops c
  exact ⟨h.auth, h.tls, h.conn, h.writes⟩

/-- **everything `connect` ever writes**: at most one STARTTLS line in plaintext — only when TLS was asked for — followed by
    nothing or by the lines of ONE authentication exchange, which travel on the secured channel whenever TLS was asked for.
    No script command, no second mechanism, no credentials in plaintext after a request for TLS — whatever the server says -/
theorem connect_complete_write_log (c : Client) (env : ConnEnv) (net : Net) (l p z : Bytes) (useTls : Bool) (m : Option Bytes) :
    ∃ (pre : List (Bool × Bytes)) (auth : List Bytes),
      (connect c env net l p z useTls m).2.writes = pre ++ auth.map (fun b => (useTls, b)) ∧
      (pre = [] ∨ (useTls = true ∧ pre = [(false, commandBytes (sb "STARTTLS") [])])) ∧
      (auth = [] ∨ ∃ mech, auth = authLines mech l p z) :=
  connect_write_log c env net l p z useTls m

/-- the regular expressions `sievelib/managesieve.py` uses now are the ones the model implements -/
theorem client_patterns_are_the_modelled_ones : Generated.clientPatterns = Client.patterns := by decide

end C10
