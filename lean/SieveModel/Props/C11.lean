import SieveModel.Generated.LexRules
import SieveModel.Model.Lexer
import SieveModel.Model.Machine
import SieveModel.Lemmas.Comments
import SieveModel.Lemmas.Readback
/-!
# C11 — A filter set survives being saved and loaded back

* `hash_comment_is_the_rest_of_the_line`: what is written behind a marker is exactly the comment token.
* `marker_comments_reach_the_next_top_level_command` (every table, every state, every token): a hash
  comment is added to the pending comments and nothing else changes; any other token either leaves
  pending comments and result alone or finishes exactly one top-level command, which is appended to the
  result carrying exactly the pending comments, after which the pending list is empty.  Hence the name
  and description markers the factory writes in front of a filter are delivered with that filter's
  command and with no other.
* `markers_give_back_name_and_description` / `name_marker_gives_back_the_name` (loader model `Readback.nameDescL`, the
  `for comment in f.hash_comments` loop of `from_parser_result`): for non-empty prefixes neither of which begins a line
  written with the other, and a name / description in which the prefixes do not occur, the two marker comments give
  back exactly the name and the description (`(pre + s).replace(pre, "") = s.replace(pre, "")` for every `s`);
  `text_without_the_first_prefix_byte_is_safe`: a text without the prefix's first byte (no `#`) contains no occurrence.
* `written_name_marker_comes_back` / `written_markers_come_back`: the three steps composed — the line the renderer writes
  (`prefix + text + "\n"`) lexes as one hash comment of that length, the parser's `strip()` leaves it alone (text not ending
  in white space, as the property's quantifier says), and the loader returns the text.
* set level (`load_is_specLoad`, `loaded_contents_are_the_commands_in_order`, `loaded_filter_depends_on_its_own_command_only`,
  `command_without_comments_loads_bare`): `from_parser_result` yields one filter per top-level command that is not a
  `require`, in the order of the script, each with that very command as content, enabled unless the command is an `if false`
  wrapper, and with name and description computed from that command's own comments (and its ordinal) alone — nothing is
  carried over from a neighbouring filter; `loaded_requirements_are_the_require_commands`: the requirement list is
  exactly what the `require` commands of the script name, added in order, and nothing else.
The loader and the renderer are tied to the code by the `factory-roundtrip` correspondence (build → render → parse → load
→ read back, real code against the composed Lean models); the rest of the construction and loading logic of `factory.py`
is decided by the render → parse → reload oracle.
-/
namespace C11
/-- a hash comment token runs to the end of its line and never beyond: the name / description
    written behind a marker is exactly what the parser hands to the loader -/
theorem hash_comment_is_the_rest_of_the_line (line rest : Bytes) (h : ∀ c ∈ line, c ≠ 10) :
    Lex.one (35 :: line ++ 10 :: rest) = some (.hash_comment, 1 + line.length) := by
  have hs : Lex.spanLen (· != 10) (line ++ 10 :: rest) = line.length := by
    induction line with
    | nil => simp [Lex.spanLen]
    | cons c cs ih =>
      have hc : c ≠ 10 := h c (by simp)
      simp only [List.cons_append, Lex.spanLen]
      have : (c != 10) = true := by simpa using hc
      simp [this, ih (fun x hx => h x (by simp [hx]))]
  simp [Lex.one, Lex.single, hs]
open Machine in
/-- comments written in front of a top-level command reach that command's node and no other -/
theorem marker_comments_reach_the_next_top_level_command (T : Table) (s s' : PState) (tok : Tok)
    (h : deliver T s tok = .ok s') :
    (tok.kind = .hash_comment ∧ s'.comments = s.comments ++ [stripWs tok.text] ∧ s'.result = s.result) ∨
    (tok.kind ≠ .hash_comment ∧
      ((s'.comments = s.comments ∧ s'.result = s.result) ∨
       (∃ n, s'.result = s.result ++ [n] ∧ Node.comments n = s.comments ∧ s'.comments = []))) :=
  Comments.deliver_comments T s tok s' h
/-- the marker comments give back name and description -/
theorem markers_give_back_name_and_description (npre dpre name desc dflt : Bytes) (hn : npre ≠ []) (hd : dpre ≠ [])
    (h1 : Readback.removeAll npre name = name) (h2 : Readback.removeAll dpre desc = desc)
    (h3 : B.startsWith (npre ++ name) dpre = false) (h4 : B.startsWith (dpre ++ desc) npre = false) :
    Readback.nameDescL npre dpre [npre ++ name, dpre ++ desc] (dflt, []) = (name, desc) :=
  Readback.markers_give_back_name_and_description npre dpre name desc dflt hn hd h1 h2 h3 h4

theorem name_marker_gives_back_the_name (npre dpre name dflt : Bytes) (hn : npre ≠ [])
    (h1 : Readback.removeAll npre name = name) (h3 : B.startsWith (npre ++ name) dpre = false) :
    Readback.nameDescL npre dpre [npre ++ name] (dflt, []) = (name, []) :=
  Readback.name_marker_gives_back_the_name npre dpre name dflt hn h1 h3

theorem text_without_the_first_prefix_byte_is_safe (p : UInt8) (ps s : Bytes) (h : ∀ c ∈ s, c ≠ p) :
    Readback.removeAll (p :: ps) s = s :=
  Readback.removeAll_of_absent_head p ps s h

open Machine in
/-- **renderer → lexer → parser → loader for the name marker**: the line the renderer writes (`prefix + name + "\n"`, the prefix
    beginning with `#`, a single-line name not ending in white space) is read as ONE hash comment of exactly that length,
    `strip()` (what the parser applies before storing it) removes nothing, and the loader gives back exactly the name -/
theorem written_name_marker_comes_back (p dpre name dflt rest : Bytes)
    (hnl : ∀ c ∈ p ++ name, c ≠ 10) (hne : name ≠ []) (hlast : B.isWs (name.getLast hne) = false)
    (h1 : Readback.removeAll (35 :: p) name = name) (h3 : B.startsWith ((35 :: p) ++ name) dpre = false) :
    Lex.one ((35 :: p) ++ name ++ 10 :: rest) = some (.hash_comment, (35 :: p).length + name.length) ∧
    stripWs ((35 :: p) ++ name) = (35 :: p) ++ name ∧
    Readback.nameDescL (35 :: p) dpre [stripWs ((35 :: p) ++ name)] (dflt, []) = (name, []) := by
  have hs : stripWs ((35 :: p) ++ name) = (35 :: p) ++ name := by
    apply Comments.strip_keeps _ (by simp)
    · simp [B.isWs]
    · have : ((35 :: p) ++ name).getLast (by simp) = name.getLast hne := by
        rw [List.getLast_append_of_ne_nil]
      rw [this]; exact hlast
  refine ⟨?_, hs, ?_⟩
  · have := hash_comment_is_the_rest_of_the_line (p ++ name) rest hnl
    simp only [List.cons_append, List.append_assoc, List.length_cons, List.length_append] at this ⊢
    rw [this]; congr 2; omega
  · rw [hs]
    exact name_marker_gives_back_the_name (35 :: p) dpre name dflt (by simp) h1 h3

open Machine in
/-- the same for both markers: the two lines the renderer writes in front of a filter are two hash comments which, stored
    stripped, give back name and description -/
theorem written_markers_come_back (p q name desc dflt : Bytes)
    (hne : name ≠ []) (hde : desc ≠ [])
    (hln : B.isWs (name.getLast hne) = false) (hld : B.isWs (desc.getLast hde) = false)
    (h1 : Readback.removeAll (35 :: p) name = name) (h2 : Readback.removeAll (35 :: q) desc = desc)
    (h3 : B.startsWith ((35 :: p) ++ name) (35 :: q) = false) (h4 : B.startsWith ((35 :: q) ++ desc) (35 :: p) = false) :
    Readback.nameDescL (35 :: p) (35 :: q) [stripWs ((35 :: p) ++ name), stripWs ((35 :: q) ++ desc)] (dflt, []) = (name, desc) := by
  have hs : ∀ (r x : Bytes) (hx : x ≠ []), B.isWs (x.getLast hx) = false → stripWs ((35 :: r) ++ x) = (35 :: r) ++ x := by
    intro r x hx hl
    apply Comments.strip_keeps _ (by simp)
    · simp [B.isWs]
    · have : ((35 :: r) ++ x).getLast (by simp) = x.getLast hx := by
        rw [List.getLast_append_of_ne_nil]
      rw [this]; exact hl
  rw [hs p name hne hln, hs q desc hde hld]
  exact markers_give_back_name_and_description (35 :: p) (35 :: q) name desc dflt (by simp) (by simp) h1 h2 h3 h4

/-- non-vacuity: the default markers with a non-ASCII name -/
example : Lex.one (sb "# Filter: café orders\nif true { keep; }") = some (.hash_comment, 21) ∧
    Machine.stripWs (sb "# Filter: café orders") = sb "# Filter: café orders" := by decide

/-- non-vacuity with the default prefixes; and a name that contains the prefix is damaged (why the quantifier excludes it) -/
example : Readback.nameDescL (sb "# Filter: ") (sb "# Description: ") [sb "# Filter: spam rule", sb "# Description: drop it"] (sb "Unnamed rule 1", [])
    = (sb "spam rule", sb "drop it") := by decide
example : Readback.nameDescL (sb "# Filter: ") (sb "# Description: ") [sb "# Filter: a # Filter: b"] (sb "Unnamed rule 1", [])
    = (sb "a b", []) := by decide

/-! ## the loader at set level (`from_parser_result`): one filter per non-`require` command, in order, each made from
    its own command alone -/
section SetLevel
open Readback

/-- what the loader makes of ONE top-level command: name and description from that command's own comments (the number
    only names an unnamed rule), the command itself as content, enabled unless it is an `if false` wrapper -/
def loadedOf (np dp : Bytes) (cpt : Nat) (f : Node) : Loaded :=
  { name := (nameDescL np dp f.comments (sb "Unnamed rule " ++ B.natToDec cpt, [])).1,
    description := (nameDescL np dp f.comments (sb "Unnamed rule " ++ B.natToDec cpt, [])).2,
    content := f, enabled := !isDisabled f }

/-- the loader as a specification: one filter per top-level command that is not a `require`, in order -/
def specLoad (np dp : Bytes) : List Node → Nat → List Loaded
  | [], _ => []
  | f :: r, cpt => if f.name == sb "require" then specLoad np dp r cpt else loadedOf np dp cpt f :: specLoad np dp r (cpt + 1)

theorem load_is_specLoad (np dp : Bytes) (ns : List Node) (cpt : Nat) (reqs : List Bytes) (acc : List Loaded) :
    (load np dp ns cpt reqs acc).2 = acc.reverse ++ specLoad np dp ns cpt := by
  induction ns generalizing cpt reqs acc with
  | nil => simp [load, specLoad]
  | cons f r ih =>
    unfold load specLoad
    by_cases h : (f.name == sb "require") = true
    · simp only [h, if_true]
      exact ih _ _ _
    · have h' : (f.name == sb "require") = false := by simpa using h
      simp only [h', Bool.false_eq_true, ↓reduceIte]
      rw [ih]
      simp [loadedOf]

theorem loaded_contents_are_the_commands_in_order (np dp : Bytes) (ns : List Node) (cpt : Nat) (reqs : List Bytes) :
    ((load np dp ns cpt reqs []).2.map (·.content)) = ns.filter (fun f => !(f.name == sb "require")) := by
  rw [load_is_specLoad]
  simp only [List.reverse_nil, List.nil_append]
  induction ns generalizing cpt with
  | nil => simp [specLoad]
  | cons f r ih =>
    unfold specLoad
    by_cases h : (f.name == sb "require") = true
    · simp [h, ih]
    · simp [h, ih, loadedOf]

theorem loaded_filter_depends_on_its_own_command_only (np dp : Bytes) (ns : List Node) (cpt : Nat) (reqs : List Bytes)
    (l : Loaded) (h : l ∈ (load np dp ns cpt reqs []).2) :
    ∃ k, l = loadedOf np dp k l.content ∧ l.enabled = !isDisabled l.content := by
  rw [load_is_specLoad] at h
  simp only [List.reverse_nil, List.nil_append] at h
  induction ns generalizing cpt with
  | nil => simp [specLoad] at h
  | cons f r ih =>
    unfold specLoad at h
    by_cases hr : (f.name == sb "require") = true
    · simp only [hr, if_true] at h; exact ih _ h
    · have hr' : (f.name == sb "require") = false := by simpa using hr
      simp only [hr', Bool.false_eq_true, ↓reduceIte, List.mem_cons] at h
      rcases h with h | h
      · exact ⟨cpt, by subst h; simp [loadedOf], by subst h; simp [loadedOf]⟩
      · exact ih _ h

/-- a command that carries no marker comment is loaded without description and under its ordinal, whatever the commands
    before it carried: nothing is inherited from a neighbour -/
theorem command_without_comments_loads_bare (np dp : Bytes) (k : Nat) (f : Node) (h : f.comments = []) :
    (loadedOf np dp k f).description = [] ∧ (loadedOf np dp k f).name = sb "Unnamed rule " ++ B.natToDec k := by
  simp [loadedOf, h, nameDescL]

/-- the extension names a `require` command carries (string or list form) -/
def capsOf (f : Node) : List Bytes :=
  match assocGet f.args "capabilities" with
  | some (.strs _ l) => l
  | some (.str _ v) => [v]
  | _ => []

/-- the requirement list after loading: every name of every `require` command, added in script order through the set's own
    `require` (which skips names already present); no other command contributes and the filters loaded so far do not matter -/
theorem loaded_requirements_are_the_require_commands (np dp : Bytes) (ns : List Node) (cpt : Nat) (reqs : List Bytes)
    (acc : List Loaded) :
    (load np dp ns cpt reqs acc).1 =
      (ns.filter (fun f => f.name == sb "require")).foldl (fun r f => (capsOf f).foldl Factory.require r) reqs := by
  induction ns generalizing cpt reqs acc with
  | nil => simp [load]
  | cons f r ih =>
    unfold load
    by_cases h : (f.name == sb "require") = true
    · simp only [h, if_true, List.filter_cons_of_pos, List.foldl_cons]
      rw [ih]
      rfl
    · have h' : (f.name == sb "require") = false := by simpa using h
      simp only [h', Bool.false_eq_true, ↓reduceIte]
      rw [ih]
      simp [h']
/-- `getfilter` on a loaded set: an enabled filter gives its command, a disabled one what stands inside its `if false`
    wrapper — decided by the command itself, not by anything remembered from before the reload -/
theorem loaded_filter_body (np dp : Bytes) (ns : List Node) (cpt : Nat) (reqs : List Bytes)
    (l : Loaded) (h : l ∈ (load np dp ns cpt reqs []).2) :
    filterBody l = if isDisabled l.content then l.content.children.head? else some l.content := by
  obtain ⟨k, _, he⟩ := loaded_filter_depends_on_its_own_command_only np dp ns cpt reqs l h
  unfold filterBody
  rw [he]
  cases isDisabled l.content <;> simp
end SetLevel

/-- the lexer rules of `sievelib/parser.py` (names, order, patterns, flags, white space) are the modelled ones -/
theorem lexer_is_the_modelled_one :
    Generated.lexRuleNames = TokKind.all.map TokKind.name ∧ Generated.lexRulePatterns = TokKind.patterns ∧
      Generated.parserPatterns = TokKind.auxPatterns := by decide

end C11
