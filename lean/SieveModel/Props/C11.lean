import SieveModel.Model.Lexer
import SieveModel.Model.Machine
/-! # C11 — comment-marker lemmas (theorems follow) -/
namespace C11
/-- a hash comment token runs to the end of its line and never beyond: the name / description
    written behind a marker is exactly what the parser hands to the loader -/
theorem hash_comment_is_the_rest_of_the_line (line rest : Bytes) (h : ∀ c ∈ line, c ≠ 10) :
    Lex.one (35 :: line ++ 10 :: rest) = some (.hash_comment, 1 + line.length) := by
  have hs : Lex.spanLen (· != 10) (line ++ 10 :: rest) = line.length := by
    induction line with
    | nil => simp [Lex.spanLen]
    | cons c cs ih =>
      have hc : c ≠ 10 := h c (by simp)
      simp only [List.cons_append, Lex.spanLen]
      have : (c != 10) = true := by simpa using hc
      simp [this, ih (fun x hx => h x (by simp [hx]))]
  simp [Lex.one, Lex.single, hs]
end C11
