import SieveModel.Model.Lexer
import SieveModel.Model.Machine
import SieveModel.Lemmas.Comments
/-!
# C11 — A filter set survives being saved and loaded back

* `hash_comment_is_the_rest_of_the_line`: what is written behind a marker is exactly the comment token.
* `marker_comments_reach_the_next_top_level_command` (every table, every state, every token): a hash
  comment is added to the pending comments and nothing else changes; any other token either leaves
  pending comments and result alone or finishes exactly one top-level command, which is appended to the
  result carrying exactly the pending comments, after which the pending list is empty.  Hence the name
  and description markers the factory writes in front of a filter are delivered with that filter's
  command and with no other.
The construction and loading logic of `factory.py` is decided by the render → parse → reload oracle.
-/
namespace C11
/-- a hash comment token runs to the end of its line and never beyond: the name / description
    written behind a marker is exactly what the parser hands to the loader -/
theorem hash_comment_is_the_rest_of_the_line (line rest : Bytes) (h : ∀ c ∈ line, c ≠ 10) :
    Lex.one (35 :: line ++ 10 :: rest) = some (.hash_comment, 1 + line.length) := by
  have hs : Lex.spanLen (· != 10) (line ++ 10 :: rest) = line.length := by
    induction line with
    | nil => simp [Lex.spanLen]
    | cons c cs ih =>
      have hc : c ≠ 10 := h c (by simp)
      simp only [List.cons_append, Lex.spanLen]
      have : (c != 10) = true := by simpa using hc
      simp [this, ih (fun x hx => h x (by simp [hx]))]
  simp [Lex.one, Lex.single, hs]
open Machine in
/-- comments written in front of a top-level command reach that command's node and no other -/
theorem marker_comments_reach_the_next_top_level_command (T : Table) (s s' : PState) (tok : Tok)
    (h : deliver T s tok = .ok s') :
    (tok.kind = .hash_comment ∧ s'.comments = s.comments ++ [stripWs tok.text] ∧ s'.result = s.result) ∨
    (tok.kind ≠ .hash_comment ∧
      ((s'.comments = s.comments ∧ s'.result = s.result) ∨
       (∃ n, s'.result = s.result ++ [n] ∧ Node.comments n = s.comments ∧ s'.comments = []))) :=
  Comments.deliver_comments T s tok s' h
end C11
