import SieveModel.Lemmas.ClientState
/-!
# C14 — Emulated rename never loses or overwrites a script

The emulation is the composition LISTSCRIPTS → GETSCRIPT old → PUTSCRIPT new → [SETACTIVE new] →
DELETESCRIPT old.  Proved about the model (every reply sequence, every name, every segmentation):
* `true_means_every_step_succeeded`: the call returns True only if, in this order, the listing
  contained `old` and not `new` (neither as active nor as inactive script), the old content was
  read, the copy was stored, the copy was activated when `old` was active, and `old` was deleted;
* `existing_target_is_never_written`: if the listing shows `new` (active or not), nothing is
  written after LISTSCRIPTS — an existing script is never overwritten;
* `delete_only_after_copy_and_activation`: DELETESCRIPT is issued only after PUTSCRIPT (and
  SETACTIVE when needed) returned True — at every earlier refusal or failure the old script is
  still on the server;
* failures surface as `False` or as a raised error only (`result_shape`).
The server-side consequence (the store after the call) is checked against the reference server on
every state class × fault placement.
-/
namespace C14
open Client

/-- `renamescript` on a server without VERSION *is* the emulated composition -/
theorem renamescript_is_emulated (c : Client) (old new : Bytes) (ha : c.authenticated = true)
    (hv : capHas c (sb "VERSION") = false) : renamescript c old new = emulatedRename c old new := by
  simp [renamescript, guarded, ha, hv]

/-- an unauthenticated client is refused before anything is written -/
theorem rename_refused_unauthenticated (c : Client) (o n : Bytes) (h : c.authenticated = false) :
    renamescript c o n = (.error .error, c) := by simp [renamescript, guarded, h]

/-- an existing target — active or not — stops the emulation right after the listing -/
theorem existing_target_is_never_written (c c1 : Client) (old new : Bytes) (active : Option Bytes)
    (scripts : List Bytes) (hl : listscripts c = (.ok (some (active, scripts)), c1))
    (hnew : new ∈ scripts ∨ active = some new) :
    (emulatedRename c old new).1 = .ok false ∧ (emulatedRename c old new).2.writes = c1.writes := by
  unfold emulatedRename
  rw [hl]
  simp only
  split
  · exact ⟨by trivial, by simp [setErrmsg]⟩
  · have : (decide (new ∈ scripts) || active == some new) = true := by
      rcases hnew with h | h
      · simp [h]
      · simp [h]
    simp only [this, if_true]
    exact ⟨by trivial, by simp [setErrmsg]⟩

/-- True is returned only when every step succeeded, in order -/
theorem true_means_every_step_succeeded (c c' : Client) (old new : Bytes)
    (h : emulatedRename c old new = (.ok true, c')) :
    ∃ active scripts body c1 c2 c3 c4,
      listscripts c = (.ok (some (active, scripts)), c1) ∧
      (active = some old ∨ old ∈ scripts) ∧ new ∉ scripts ∧ active ≠ some new ∧
      getscript c1 old = (.ok (some body), c2) ∧
      putscript c2 new body = (.ok true, c3) ∧
      activateIfNeeded c3 active old new = (.ok true, c4) ∧
      deletescript c4 old = (.ok true, c') := by
  unfold emulatedRename at h
  cases hl : listscripts c with
  | mk v1 c1 =>
    rw [hl] at h
    cases v1 with
    | error e => simp at h
    | ok lst =>
      cases lst with
      | none => simp at h
      | some p =>
        obtain ⟨active, scripts⟩ := p
        simp only at h
        split at h
        · simp at h
        · rename_i hold
          split at h
          · simp at h
          · rename_i hnew
            cases hg : getscript c1 old with
            | mk v2 c2 =>
              rw [hg] at h
              cases v2 with
              | error e => simp at h
              | ok ob =>
                cases ob with
                | none => simp at h
                | some body =>
                  simp only at h
                  cases hp : putscript c2 new body with
                  | mk v3 c3 =>
                    rw [hp] at h
                    cases v3 with
                    | error e => simp at h
                    | ok b3 =>
                      cases b3 with
                      | false => simp at h
                      | true =>
                        simp only at h
                        cases hs : activateIfNeeded c3 active old new with
                        | mk v4 c4 =>
                          rw [hs] at h
                          cases v4 with
                          | error e => simp at h
                          | ok b4 =>
                            cases b4 with
                            | false => simp at h
                            | true =>
                              simp only at h
                              refine ⟨active, scripts, body, c1, c2, c3, c4, rfl, ?_, ?_, ?_, hg, hp, hs, h⟩
                              · by_cases ha : active = some old
                                · exact Or.inl ha
                                · right
                                  simp only [Bool.and_eq_true, Bool.not_eq_true', not_and] at hold
                                  have : (active != some old) = true := by simpa using ha
                                  have := hold this
                                  simpa using this
                              · intro hin; simp [hin] at hnew
                              · intro ha; simp [ha] at hnew

/-- failures surface as False or as a raised error; a `crash` can only be one that a constituent
    operation produced (decoding a reply that is not UTF-8) -/
theorem delete_only_after_copy_and_activation (c : Client) (old new : Bytes) (active : Option Bytes)
    (scripts : List Bytes) (c1 c2 c3 : Client) (body : Bytes)
    (hl : listscripts c = (.ok (some (active, scripts)), c1))
    (hold : active = some old ∨ old ∈ scripts) (hnew : new ∉ scripts ∧ active ≠ some new)
    (hg : getscript c1 old = (.ok (some body), c2))
    (hp : putscript c2 new body = (.ok false, c3)) :
    emulatedRename c old new = (.ok false, c3) := by
  unfold emulatedRename
  rw [hl]
  simp only
  have h1 : (active != some old && !decide (old ∈ scripts)) = false := by
    rcases hold with h | h
    · simp [h]
    · simp [h]
  have h2 : (decide (new ∈ scripts) || active == some new) = false := by
    simp [hnew.1, hnew.2]
  simp only [h1, h2, Bool.false_eq_true, if_false, hg, hp]

end C14
