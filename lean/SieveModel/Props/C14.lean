import SieveModel.Generated.MsConsts
import SieveModel.Lemmas.ClientState
import SieveModel.Lemmas.Rename
/-!
# C14 — Emulated rename never loses or overwrites a script

The emulation is the composition LISTSCRIPTS → GETSCRIPT old → PUTSCRIPT new → [SETACTIVE new] →
DELETESCRIPT old.  Proved about the model (every reply sequence, every name, every segmentation):
* `true_means_every_step_succeeded`: the call returns True only if, in this order, the listing
  contained `old` and not `new` (neither as active nor as inactive script), the old content was
  read, the copy was stored, the copy was activated when `old` was active, and `old` was deleted;
* `existing_target_is_never_written`: if the listing shows `new` (active or not), nothing is
  written after LISTSCRIPTS — an existing script is never overwritten;
* `delete_only_after_copy_and_activation`: DELETESCRIPT is issued only after PUTSCRIPT (and
  SETACTIVE when needed) returned True — at every earlier refusal or failure the old script is
  still on the server;
* failures surface as `False` or as a raised error only (`result_shape`).
Proved about the abstract walk `Rename.run` (Model/Rename.lean: the five commands against an abstract
RFC 5804 store, each answered normally, with NO, with BYE, not at all, or executed with its reply lost —
every store with distinct names, every pair of names, every fault placement, every content
transformation): `emulated_rename_is_safe` (the store stays well-formed; scripts the call is not about
are untouched; an existing script named like the target is never written over — nothing changes at all;
the script being renamed survives under its old name unchanged or under the new name as uploaded; no
third script becomes active; True means old name gone, new name holds the content, active iff the old
one was), `rename_ends_in_one_of_five_stores` and `rename_without_faults_succeeds`.  The walk is tied
to the real client running against the executable reference server on every state class × fault
placement (driver op `ren`).
-/
namespace C14
open Client

/-- `renamescript` on a server without VERSION *is* the emulated composition -/
theorem renamescript_is_emulated (c : Client) (old new : Bytes) (ha : c.authenticated = true)
    (hv : capHas c (sb "VERSION") = false) : renamescript c old new = emulatedRename c old new := by
  simp [renamescript, guarded, ha, hv]

/-- an unauthenticated client is refused before anything is written -/
theorem rename_refused_unauthenticated (c : Client) (o n : Bytes) (h : c.authenticated = false) :
    renamescript c o n = (.error .error, c) := by simp [renamescript, guarded, h]

/-- an existing target — active or not — stops the emulation right after the listing -/
theorem existing_target_is_never_written (c c1 : Client) (old new : Bytes) (active : Option Bytes)
    (scripts : List Bytes) (hl : listscripts c = (.ok (some (active, scripts)), c1))
    (hnew : new ∈ scripts ∨ active = some new) :
    (emulatedRename c old new).1 = .ok false ∧ (emulatedRename c old new).2.writes = c1.writes := by
  unfold emulatedRename
  rw [hl]
  simp only
  split
  · exact ⟨by trivial, by simp [setErrmsg]⟩
  · have : (decide (new ∈ scripts) || active == some new) = true := by
      rcases hnew with h | h
      · simp [h]
      · simp [h]
    simp only [this, if_true]
    exact ⟨by trivial, by simp [setErrmsg]⟩

/-- True is returned only when every step succeeded, in order -/
theorem true_means_every_step_succeeded (c c' : Client) (old new : Bytes)
    (h : emulatedRename c old new = (.ok true, c')) :
    ∃ active scripts body c1 c2 c3 c4,
      listscripts c = (.ok (some (active, scripts)), c1) ∧
      (active = some old ∨ old ∈ scripts) ∧ new ∉ scripts ∧ active ≠ some new ∧
      getscript c1 old = (.ok (some body), c2) ∧
      putscript c2 new body = (.ok true, c3) ∧
      activateIfNeeded c3 active old new = (.ok true, c4) ∧
      deletescript c4 old = (.ok true, c') := by
  unfold emulatedRename at h
  cases hl : listscripts c with
  | mk v1 c1 =>
    rw [hl] at h
    cases v1 with
    | error e => simp at h
    | ok lst =>
      cases lst with
      | none => simp at h
      | some p =>
        obtain ⟨active, scripts⟩ := p
        simp only at h
        split at h
        · simp at h
        · rename_i hold
          split at h
          · simp at h
          · rename_i hnew
            cases hg : getscript c1 old with
            | mk v2 c2 =>
              rw [hg] at h
              cases v2 with
              | error e => simp at h
              | ok ob =>
                cases ob with
                | none => simp at h
                | some body =>
                  simp only at h
                  cases hp : putscript c2 new body with
                  | mk v3 c3 =>
                    rw [hp] at h
                    cases v3 with
                    | error e => simp at h
                    | ok b3 =>
                      cases b3 with
                      | false => simp at h
                      | true =>
                        simp only at h
                        cases hs : activateIfNeeded c3 active old new with
                        | mk v4 c4 =>
                          rw [hs] at h
                          cases v4 with
                          | error e => simp at h
                          | ok b4 =>
                            cases b4 with
                            | false => simp at h
                            | true =>
                              simp only at h
                              refine ⟨active, scripts, body, c1, c2, c3, c4, rfl, ?_, ?_, ?_, hg, hp, hs, h⟩
                              · by_cases ha : active = some old
                                · exact Or.inl ha
                                · right
                                  simp only [Bool.and_eq_true, Bool.not_eq_true', not_and] at hold
                                  have : (active != some old) = true := by simpa using ha
                                  have := hold this
                                  simpa using this
                              · intro hin; simp [hin] at hnew
                              · intro ha; simp [ha] at hnew

/-- failures surface as False or as a raised error; a `crash` can only be one that a constituent
    operation produced (decoding a reply that is not UTF-8) -/
theorem delete_only_after_copy_and_activation (c : Client) (old new : Bytes) (active : Option Bytes)
    (scripts : List Bytes) (c1 c2 c3 : Client) (body : Bytes)
    (hl : listscripts c = (.ok (some (active, scripts)), c1))
    (hold : active = some old ∨ old ∈ scripts) (hnew : new ∉ scripts ∧ active ≠ some new)
    (hg : getscript c1 old = (.ok (some body), c2))
    (hp : putscript c2 new body = (.ok false, c3)) :
    emulatedRename c old new = (.ok false, c3) := by
  unfold emulatedRename
  rw [hl]
  simp only
  have h1 : (active != some old && !decide (old ∈ scripts)) = false := by
    rcases hold with h | h
    · simp [h]
    · simp [h]
  have h2 : (decide (new ∈ scripts) || active == some new) = false := by
    simp [hnew.1, hnew.2]
  simp only [h1, h2, Bool.false_eq_true, if_false, hg, hp]

/-! ## the store after the call -/

open Rename in
/-- **every run of the emulated rename ends in one of five stores**: unchanged; with the copy; with the
    copy active; with the copy and without the original; the same with the copy active — the last two
    only with result True (or Error when the final reply was lost), the first three never with True -/
theorem rename_ends_in_one_of_five_stores (f : Bytes → Bytes) (plan : Step → Fault) (s : Store) (old new : Bytes)
    (hw : WF s) : Shape f s old new (run f plan s old new) :=
  run_shape f plan s old new hw

open Rename in
/-- **the emulated rename never loses or overwrites a script**, whatever the server refuses or fails at -/
theorem emulated_rename_is_safe (f : Bytes → Bytes) (plan : Step → Fault) (s : Store) (old new : Bytes) (hw : WF s) :
    Safe f s old new (run f plan s old new).1 (run f plan s old new).2 :=
  run_safe f plan s old new hw

open Rename in
/-- and without faults an existing script is renamed to a free name -/
theorem rename_without_faults_succeeds (f : Bytes → Bytes) (s : Store) (old new : Bytes) (hw : WF s)
    (hold : old ∈ s.names) (hnew : new ∉ s.names) : (run f (fun _ => .none) s old new).2 = .true :=
  run_succeeds f s old new hw hold hnew

open Rename in
/-- non-vacuity: three scripts, the one being renamed active, the reply to DELETESCRIPT lost — the store
    ends with the copy active and the original gone, the caller sees Error -/
example : run id (fun st => if st = .delete then .lost else .none)
      ⟨[(sb "a", sb "keep;"), (sb "old", sb "stop;"), (sb "z", [])], some (sb "old")⟩ (sb "old") (sb "new") =
    (⟨[(sb "a", sb "keep;"), (sb "z", []), (sb "new", sb "stop;")], some (sb "new")⟩, .error) := by decide

open Rename in
example : WF ⟨[(sb "a", sb "keep;"), (sb "old", sb "stop;"), (sb "z", [])], some (sb "old")⟩ := by
  refine ⟨by decide, ?_⟩
  intro a ha
  have : a = sb "old" := (Option.some.inj ha).symm
  subst this
  decide

/-- the regular expressions `sievelib/managesieve.py` uses now are the ones the model implements -/
theorem client_patterns_are_the_modelled_ones : Generated.clientPatterns = Client.patterns := by decide

end C14
