import SieveModel.Model.Client
/-! # C14 — emulated rename (theorems follow) -/
namespace C14
open Client
/-- the rename is refused before anything is written when the client is not authenticated -/
theorem rename_refused_unauthenticated (c : Client) (o n : Bytes) (h : c.authenticated = false) :
    renamescript c o n = (.error .error, c) := by simp [renamescript, guarded, h]
end C14
