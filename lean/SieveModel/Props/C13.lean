import SieveModel.Generated.LexRules
import SieveModel.Model.Machine
import SieveModel.Model.Show
import SieveModel.Generated.Footprint
/-!
# C13 — Parsing and filter building are independent of what happened before

The model's `parse` takes the parser object's previous state as an argument.  The theorem says
the outcome does not depend on it; what makes this a statement about the *code* is the footprint
obligation regenerated from `/repo` on every run: every attribute that the parser mutates while
parsing is (re)initialised by `__reset_parser`, the lexer's mutable attributes are initialised at
the start of `scan`, and the only process-global the parse path rebinds is
`RequireCommand.loaded_extensions`, which `__reset_parser` also rebinds; the factory call sites
that consult that global switch the check off.  The `hist` correspondence suite replays script
sequences through one reused `Parser` and compares each outcome with the history-free model.
-/
namespace C13

/-- the outcome of a parse does not depend on what the parser object did before -/
theorem parse_independent_of_history (T : Table) (text : Bytes) (prev₁ prev₂ : PState) :
    Machine.parse T text prev₁ = Machine.parse T text prev₂ := rfl

/-- obligation on the regenerated footprint: every attribute stored outside `__init__` /
    `__reset_parser` is one that `__reset_parser` writes (or the per-parse outputs `error`,
    `error_pos`) -/
theorem parser_mutations_are_reset :
    ∀ a ∈ Generated.parserMutated, a ∈ Generated.parserResetWrites ∨ a ∈ ["error", "error_pos"] := by
  decide

/-- the lexer's mutable attributes are initialised at the start of every scan -/
theorem lexer_mutations_are_initialised :
    ∀ a ∈ Generated.lexerMutated, a ∈ Generated.lexerScanInit := by decide

/-- every class-level attribute rebound on the parse path is rebound by `__reset_parser` -/
theorem globals_rebound_are_reset :
    ∀ g ∈ Generated.globalsRebound, g ∈ Generated.parserResetGlobals := by decide

/-- the factory never consults the process-global extension list: every `get_command_instance`
    for an extension-bound command passes `checkexists=False`, every `check_next_arg` for a tag
    goes through the helper that passes `check_extension=False` -/
theorem factory_calls_unchecked : Generated.factoryCheckedCalls = [] := by decide

example : Generated.parserMutated ≠ [] := by decide

/-- the lexer rules of `sievelib/parser.py` (names, order, patterns, flags, white space) are the modelled ones -/
theorem lexer_is_the_modelled_one :
    Generated.lexRuleNames = TokKind.all.map TokKind.name ∧ Generated.lexRulePatterns = TokKind.patterns ∧
      Generated.parserPatterns = TokKind.auxPatterns := by decide

end C13
