import SieveModel.Lemmas.ReplyDecode
import SieveModel.Lemmas.ReplyLine
/-!
# C09 — Operation results mirror the server's status reply

`parseError` is the model of `Client.__parse_error`, which fills `errcode` / `errmsg` from the part
of a `NO` line that follows the status atom.  Proved for every response-code atom, every text
(any bytes: quotes, backslashes, non-ASCII …) and every reader state: each reply shape of
RFC 5804 is decoded to exactly the code and the human-readable text the reply carries — no
shape raises, none keeps protocol bytes (quotes, escapes, CRLF) in the text.

Reader level (`*_reply_is_read`): when the pending bytes — wherever the buffer/stream boundary lies and
however `recv` delivers them — begin with a status line, `__read_response` returns that status, sets
`errcode` / `errmsg` from that line alone and leaves exactly the bytes after its CRLF pending, so the
next reply is read from its first byte.
-/
namespace C09
open Reader Client ReplyDecode

/-- `NO` alone -/
theorem bare_no (st : RState) : parseError none st = .ok { st with errcode := [], errmsg := [] } := rfl

/-- `NO "text"` -/
theorem no_with_quoted_text (text : Bytes) (st : RState) :
    parseError (some (34 :: (escapeQ text ++ [34]))) st = .ok { st with errcode := [], errmsg := text } :=
  parseError_quoted_text_only text st

/-- `NO (CODE)` — also hierarchical codes such as `QUOTA/MAXSIZE` -/
theorem no_with_code_only (code : Bytes) (st : RState) (hne : code ≠ [])
    (hc : ∀ c ∈ code, isAtomByte c = true) :
    parseError (some (40 :: (code ++ [41]))) st = .ok { st with errcode := code, errmsg := [] } :=
  parseError_code_only code st hne hc

/-- `NO (CODE) "text"` -/
theorem no_with_code_and_quoted_text (code text : Bytes) (st : RState) (hne : code ≠ [])
    (hc : ∀ c ∈ code, isAtomByte c = true) :
    parseError (some (40 :: (code ++ 41 :: 32 :: (34 :: (escapeQ text ++ [34]))))) st
      = .ok { st with errcode := code, errmsg := text } :=
  parseError_code_and_quoted_text code text st hne hc

/-- `NO (CODE) {n}` CRLF text CRLF — the literal is taken by count, whatever it contains -/
theorem no_with_code_and_literal_text (code text more ds : Bytes) (st : RState) (hne : code ≠ [])
    (hc : ∀ c ∈ code, isAtomByte c = true) (hds : ds ≠ []) (hall : ∀ d ∈ ds, B.isDigit d = true)
    (hval : B.decToNat ds = text.length) (hp : pending st = text ++ 13 :: 10 :: more) :
    ∃ st', parseError (some (40 :: (code ++ 41 :: 32 :: (123 :: (ds ++ [125]))))) st = .ok st' ∧
      st'.errcode = code ∧ st'.errmsg = text ∧ pending st' = more :=
  parseError_code_and_literal_text code text more ds st hne hc hds hall hval hp

/-- quoting and un-quoting of reply texts are inverse for every byte string -/
theorem unescape_escape (v : Bytes) : unescape (escapeQ v) = v := unescape_escapeQ v

/-- the boolean every operation returns is "the final status is OK" -/
theorem operation_result_is_status_ok (x : Res Reply) (rep : Reply) (c : Client) (h : x = (.ok rep, c)) :
    okOf x = (.ok (rep.code == some .OK), c) := by subst h; rfl

open ReplyLine in
/-- `OK` CRLF -/
theorem ok_reply_is_read (nbl : Option Nat) (st : RState) (rest : Bytes) (hp : pending st = sb "OK" ++ 13 :: 10 :: rest) :
    ∃ st', readResponse nbl st = .ok (⟨some .OK, none, []⟩, st') ∧ pending st' = rest ∧
      st'.errcode = st.errcode ∧ st'.errmsg = st.errmsg := by
  obtain ⟨st1, h1, h2, h3, h4⟩ := readLine_ok st (sb "OK") rest none hp (by decide) (by decide) (by decide) (by decide) rfl
  exact ⟨st1, readResponse_status nbl st st1 .OK none h1, h2, h3, h4⟩

open ReplyLine in
/-- `NO` CRLF: the previous error code and text are cleared -/
theorem bare_no_reply_is_read (nbl : Option Nat) (st : RState) (rest : Bytes) (hp : pending st = sb "NO" ++ 13 :: 10 :: rest) :
    ∃ st', readResponse nbl st = .ok (⟨some .NO, none, []⟩, st') ∧ pending st' = rest ∧
      st'.errcode = [] ∧ st'.errmsg = [] := by
  obtain ⟨st1, h2, _, _, hok, _⟩ := readLine_no st (sb "NO") rest none hp (by decide) (by decide) (by decide) (by decide)
  exact ⟨{ st1 with errcode := [], errmsg := [] }, readResponse_status nbl st _ .NO none (hok _ rfl), h2, rfl, rfl⟩

open ReplyLine in
/-- `BYE …` CRLF: the read fails with `Error` -/
theorem bye_reply_fails (nbl : Option Nat) (st : RState) (rest : Bytes) (hp : pending st = sb "BYE" ++ 13 :: 10 :: rest) :
    readResponse nbl st = .error .error :=
  readResponse_error nbl st _ (readLine_bye st (sb "BYE") rest none hp (by decide) (by decide) (by decide) (by decide))

open ReplyLine in
/-- `NO <tail>` CRLF for any tail without LF that `__parse_error` decodes without reading further -/
theorem no_reply_is_read (nbl : Option Nat) (st : RState) (c : UInt8) (t rest code msg : Bytes)
    (hp : pending st = 78 :: 79 :: 32 :: (c :: t) ++ 13 :: 10 :: rest) (hws : B.isWs c = false) (hlf : NoLF (c :: t))
    (hdec : ∀ st1 : RState, parseError (some (c :: t)) st1 = .ok { st1 with errcode := code, errmsg := msg }) :
    ∃ st', readResponse nbl st = .ok (⟨some .NO, some (c :: t), []⟩, st') ∧ pending st' = rest ∧
      st'.errcode = code ∧ st'.errmsg = msg := by
  have hl : splitCRLF (78 :: 79 :: 32 :: c :: t) = none := by
    apply splitCRLF_none_of_noLF
    intro x hx
    simp only [List.mem_cons] at hx
    rcases hx with rfl | rfl | rfl | hx
    · decide
    · decide
    · decide
    · exact hlf x (by simpa using hx)
  obtain ⟨st1, h2, _, _, hok, _⟩ := readLine_no st (78 :: 79 :: 32 :: c :: t) rest (some (c :: t)) hp hl (by simp) rfl
    (respMatch_no (c :: t) c t rfl hws hlf)
  exact ⟨_, readResponse_status nbl st _ .NO _ (hok _ (hdec st1)), h2, rfl, rfl⟩

theorem escapeQ_noLF (v : Bytes) (h : ReplyLine.NoLF v) : ReplyLine.NoLF (escapeQ v) := by
  induction v with
  | nil => intro c hc; simp [escapeQ] at hc
  | cons x r ih =>
    have hr : ReplyLine.NoLF r := fun y hy => h y (by simp [hy])
    have hx : x ≠ 10 := h x (by simp)
    intro c hc
    unfold escapeQ at hc
    split at hc
    · simp only [List.mem_cons] at hc
      rcases hc with rfl | rfl | hc
      · decide
      · decide
      · exact ih hr c hc
    · split at hc
      · simp only [List.mem_cons] at hc
        rcases hc with rfl | rfl | hc
        · decide
        · decide
        · exact ih hr c hc
      · simp only [List.mem_cons] at hc
        rcases hc with rfl | hc
        · exact hx
        · exact ih hr c hc

/-- `NO (CODE) "text"` CRLF, read from the pending bytes: code and text of this reply, nothing else consumed -/
theorem no_code_text_reply_is_read (nbl : Option Nat) (st : RState) (code text rest : Bytes) (hne : code ≠ [])
    (hc : ∀ c ∈ code, isAtomByte c = true) (htext : ReplyLine.NoLF text)
    (hp : pending st = 78 :: 79 :: 32 :: (40 :: (code ++ 41 :: 32 :: (34 :: (escapeQ text ++ [34])))) ++ 13 :: 10 :: rest) :
    ∃ st', readResponse nbl st = .ok (⟨some .NO, some (40 :: (code ++ 41 :: 32 :: (34 :: (escapeQ text ++ [34])))), []⟩, st') ∧
      pending st' = rest ∧ st'.errcode = code ∧ st'.errmsg = text := by
  apply no_reply_is_read nbl st 40 _ rest code text hp (by decide)
  · intro x hx
    simp only [List.mem_cons, List.mem_append, List.not_mem_nil, or_false] at hx
    rcases hx with rfl | hx | rfl | rfl | rfl | hx | rfl
    · decide
    · have := hc x hx
      intro h10; subst h10; simp [isAtomByte, B.isWs] at this
    · decide
    · decide
    · decide
    · exact escapeQ_noLF text htext x hx
    · decide
  · intro st1
    exact parseError_code_and_quoted_text code text st1 hne hc

/-- `NO "text"` CRLF -/
theorem no_text_reply_is_read (nbl : Option Nat) (st : RState) (text rest : Bytes) (htext : ReplyLine.NoLF text)
    (hp : pending st = 78 :: 79 :: 32 :: (34 :: (escapeQ text ++ [34])) ++ 13 :: 10 :: rest) :
    ∃ st', readResponse nbl st = .ok (⟨some .NO, some (34 :: (escapeQ text ++ [34])), []⟩, st') ∧
      pending st' = rest ∧ st'.errcode = [] ∧ st'.errmsg = text := by
  apply no_reply_is_read nbl st 34 _ rest [] text hp (by decide)
  · intro x hx
    simp only [List.mem_cons, List.mem_append, List.not_mem_nil, or_false] at hx
    rcases hx with rfl | hx | rfl
    · decide
    · exact escapeQ_noLF text htext x hx
    · decide
  · intro st1
    exact parseError_quoted_text_only text st1

/-- non-vacuity -/
example : (parseError (some (sb "(QUOTA/MAXSIZE) \"Quota \\\"x\\\" exceeded\"")) default).toOption.map
    (fun s => (s.errcode, s.errmsg)) = some (sb "QUOTA/MAXSIZE", sb "Quota \"x\" exceeded") := by decide

end C09
