import SieveModel.Lemmas.ReplyDecode
/-!
# C09 — Operation results mirror the server's status reply

`parseError` is the model of `Client.__parse_error`, which fills `errcode` / `errmsg` from the part
of a `NO` line that follows the status atom.  Proved for every response-code atom, every text
(any bytes: quotes, backslashes, non-ASCII …) and every reader state: each reply shape of
RFC 5804 is decoded to exactly the code and the human-readable text the reply carries — no
shape raises, none keeps protocol bytes (quotes, escapes, CRLF) in the text.
-/
namespace C09
open Reader Client ReplyDecode

/-- `NO` alone -/
theorem bare_no (st : RState) : parseError none st = .ok { st with errcode := [], errmsg := [] } := rfl

/-- `NO "text"` -/
theorem no_with_quoted_text (text : Bytes) (st : RState) :
    parseError (some (34 :: (escapeQ text ++ [34]))) st = .ok { st with errcode := [], errmsg := text } :=
  parseError_quoted_text_only text st

/-- `NO (CODE)` — also hierarchical codes such as `QUOTA/MAXSIZE` -/
theorem no_with_code_only (code : Bytes) (st : RState) (hne : code ≠ [])
    (hc : ∀ c ∈ code, isAtomByte c = true) :
    parseError (some (40 :: (code ++ [41]))) st = .ok { st with errcode := code, errmsg := [] } :=
  parseError_code_only code st hne hc

/-- `NO (CODE) "text"` -/
theorem no_with_code_and_quoted_text (code text : Bytes) (st : RState) (hne : code ≠ [])
    (hc : ∀ c ∈ code, isAtomByte c = true) :
    parseError (some (40 :: (code ++ 41 :: 32 :: (34 :: (escapeQ text ++ [34]))))) st
      = .ok { st with errcode := code, errmsg := text } :=
  parseError_code_and_quoted_text code text st hne hc

/-- `NO (CODE) {n}` CRLF text CRLF — the literal is taken by count, whatever it contains -/
theorem no_with_code_and_literal_text (code text more ds : Bytes) (st : RState) (hne : code ≠ [])
    (hc : ∀ c ∈ code, isAtomByte c = true) (hds : ds ≠ []) (hall : ∀ d ∈ ds, B.isDigit d = true)
    (hval : B.decToNat ds = text.length) (hp : pending st = text ++ 13 :: 10 :: more) :
    ∃ st', parseError (some (40 :: (code ++ 41 :: 32 :: (123 :: (ds ++ [125]))))) st = .ok st' ∧
      st'.errcode = code ∧ st'.errmsg = text ∧ pending st' = more :=
  parseError_code_and_literal_text code text more ds st hne hc hds hall hval hp

/-- quoting and un-quoting of reply texts are inverse for every byte string -/
theorem unescape_escape (v : Bytes) : unescape (escapeQ v) = v := unescape_escapeQ v

/-- the boolean every operation returns is "the final status is OK" -/
theorem operation_result_is_status_ok (x : Res Reply) (rep : Reply) (c : Client) (h : x = (.ok rep, c)) :
    okOf x = (.ok (rep.code == some .OK), c) := by subst h; rfl

/-- non-vacuity -/
example : (parseError (some (sb "(QUOTA/MAXSIZE) \"Quota \\\"x\\\" exceeded\"")) default).toOption.map
    (fun s => (s.errcode, s.errmsg)) = some (sb "QUOTA/MAXSIZE", sb "Quota \"x\" exceeded") := by decide

end C09
