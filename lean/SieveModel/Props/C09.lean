import SieveModel.Model.Client
/-! # C09 — theorems follow (status decoding) -/
namespace C09
open Reader
/-- a bare `NO` (no code, no text) is decoded to empty code and text instead of raising -/
theorem bare_no_is_decoded (st : RState) :
    parseError none st = .ok { st with errcode := [], errmsg := [] } := rfl
end C09
