import SieveModel.Generated.MsConsts
import SieveModel.Lemmas.ReplyDecode
import SieveModel.Lemmas.ReplyLine
import SieveModel.Lemmas.ReplyGrammar
/-!
# C09 — Operation results mirror the server's status reply

`parseError` is the model of `Client.__parse_error`, which fills `errcode` / `errmsg` from the part
of a `NO` line that follows the status atom.  Proved for every response-code atom, every text
(any bytes: quotes, backslashes, non-ASCII …) and every reader state: each reply shape of
RFC 5804 is decoded to exactly the code and the human-readable text the reply carries — no
shape raises, none keeps protocol bytes (quotes, escapes, CRLF) in the text.

Reader level (`*_reply_is_read`): when the pending bytes — wherever the buffer/stream boundary lies and
however `recv` delivers them — begin with a status line, `__read_response` returns that status, sets
`errcode` / `errmsg` from that line alone and leaves exactly the bytes after its CRLF pending, so the
next reply is read from its first byte.
-/
namespace C09
open Reader Client ReplyDecode

/-- `NO` alone -/
theorem bare_no (st : RState) : parseError none st = .ok { st with errcode := [], errmsg := [] } := rfl

/-- `NO "text"` -/
theorem no_with_quoted_text (text : Bytes) (st : RState) :
    parseError (some (34 :: (escapeQ text ++ [34]))) st = .ok { st with errcode := [], errmsg := text } :=
  parseError_quoted_text_only text st

/-- `NO (CODE)` — also hierarchical codes such as `QUOTA/MAXSIZE` -/
theorem no_with_code_only (code : Bytes) (st : RState) (hne : code ≠ [])
    (hc : ∀ c ∈ code, isAtomByte c = true) :
    parseError (some (40 :: (code ++ [41]))) st = .ok { st with errcode := code, errmsg := [] } :=
  parseError_code_only code st hne hc

/-- `NO (CODE) "text"` -/
theorem no_with_code_and_quoted_text (code text : Bytes) (st : RState) (hne : code ≠ [])
    (hc : ∀ c ∈ code, isAtomByte c = true) :
    parseError (some (40 :: (code ++ 41 :: 32 :: (34 :: (escapeQ text ++ [34]))))) st
      = .ok { st with errcode := code, errmsg := text } :=
  parseError_code_and_quoted_text code text st hne hc

/-- `NO (CODE) {n}` CRLF text CRLF — the literal is taken by count, whatever it contains -/
theorem no_with_code_and_literal_text (code text more ds : Bytes) (st : RState) (hne : code ≠ [])
    (hc : ∀ c ∈ code, isAtomByte c = true) (hds : ds ≠ []) (hall : ∀ d ∈ ds, B.isDigit d = true)
    (hval : B.decToNat ds = text.length) (hp : pending st = text ++ 13 :: 10 :: more) :
    ∃ st', parseError (some (40 :: (code ++ 41 :: 32 :: (123 :: (ds ++ [125]))))) st = .ok st' ∧
      st'.errcode = code ∧ st'.errmsg = text ∧ pending st' = more :=
  parseError_code_and_literal_text code text more ds st hne hc hds hall hval hp

/-- quoting and un-quoting of reply texts are inverse for every byte string -/
theorem unescape_escape (v : Bytes) : unescape (escapeQ v) = v := unescape_escapeQ v

/-- the boolean every operation returns is "the final status is OK" -/
theorem operation_result_is_status_ok (x : Res Reply) (rep : Reply) (c : Client) (h : x = (.ok rep, c)) :
    okOf x = (.ok (rep.code == some .OK), c) := by subst h; rfl

open ReplyLine in
/-- `OK` CRLF -/
theorem ok_reply_is_read (nbl : Option Nat) (st : RState) (rest : Bytes) (hp : pending st = sb "OK" ++ 13 :: 10 :: rest) :
    ∃ st', readResponse nbl st = .ok (⟨some .OK, none, []⟩, st') ∧ pending st' = rest ∧
      st'.errcode = st.errcode ∧ st'.errmsg = st.errmsg := by
  obtain ⟨st1, h1, h2, h3, h4⟩ := readLine_ok st (sb "OK") rest none hp (by decide) (by decide) (by decide) (by decide) rfl
  exact ⟨st1, readResponse_status nbl st st1 .OK none h1, h2, h3, h4⟩

open ReplyLine in
/-- `NO` CRLF: the previous error code and text are cleared -/
theorem bare_no_reply_is_read (nbl : Option Nat) (st : RState) (rest : Bytes) (hp : pending st = sb "NO" ++ 13 :: 10 :: rest) :
    ∃ st', readResponse nbl st = .ok (⟨some .NO, none, []⟩, st') ∧ pending st' = rest ∧
      st'.errcode = [] ∧ st'.errmsg = [] := by
  obtain ⟨st1, h2, _, _, hok, _⟩ := readLine_no st (sb "NO") rest none hp (by decide) (by decide) (by decide) (by decide)
  exact ⟨{ st1 with errcode := [], errmsg := [] }, readResponse_status nbl st _ .NO none (hok _ rfl), h2, rfl, rfl⟩

open ReplyLine in
/-- `BYE …` CRLF: the read fails with `Error` -/
theorem bye_reply_fails (nbl : Option Nat) (st : RState) (rest : Bytes) (hp : pending st = sb "BYE" ++ 13 :: 10 :: rest) :
    readResponse nbl st = .error .error :=
  readResponse_error nbl st _ (readLine_bye st (sb "BYE") rest none hp (by decide) (by decide) (by decide) (by decide))

open ReplyLine in
/-- `NO <tail>` CRLF for any tail without LF that `__parse_error` decodes without reading further -/
theorem no_reply_is_read (nbl : Option Nat) (st : RState) (c : UInt8) (t rest code msg : Bytes)
    (hp : pending st = 78 :: 79 :: 32 :: (c :: t) ++ 13 :: 10 :: rest) (hws : B.isWs c = false) (hlf : NoLF (c :: t))
    (hdec : ∀ st1 : RState, parseError (some (c :: t)) st1 = .ok { st1 with errcode := code, errmsg := msg }) :
    ∃ st', readResponse nbl st = .ok (⟨some .NO, some (c :: t), []⟩, st') ∧ pending st' = rest ∧
      st'.errcode = code ∧ st'.errmsg = msg := by
  have hl : splitCRLF (78 :: 79 :: 32 :: c :: t) = none := by
    apply splitCRLF_none_of_noLF
    intro x hx
    simp only [List.mem_cons] at hx
    rcases hx with rfl | rfl | rfl | hx
    · decide
    · decide
    · decide
    · exact hlf x (by simpa using hx)
  obtain ⟨st1, h2, _, _, hok, _⟩ := readLine_no st (78 :: 79 :: 32 :: c :: t) rest (some (c :: t)) hp hl (by simp) rfl
    (respMatch_no (c :: t) c t rfl hws hlf)
  exact ⟨_, readResponse_status nbl st _ .NO _ (hok _ (hdec st1)), h2, rfl, rfl⟩

theorem escapeQ_noLF (v : Bytes) (h : ReplyLine.NoLF v) : ReplyLine.NoLF (escapeQ v) := by
  induction v with
  | nil => intro c hc; simp [escapeQ] at hc
  | cons x r ih =>
    have hr : ReplyLine.NoLF r := fun y hy => h y (by simp [hy])
    have hx : x ≠ 10 := h x (by simp)
    intro c hc
    unfold escapeQ at hc
    split at hc
    · simp only [List.mem_cons] at hc
      rcases hc with rfl | rfl | hc
      · decide
      · decide
      · exact ih hr c hc
    · split at hc
      · simp only [List.mem_cons] at hc
        rcases hc with rfl | rfl | hc
        · decide
        · decide
        · exact ih hr c hc
      · simp only [List.mem_cons] at hc
        rcases hc with rfl | hc
        · exact hx
        · exact ih hr c hc

/-- `NO (CODE) "text"` CRLF, read from the pending bytes: code and text of this reply, nothing else consumed -/
theorem no_code_text_reply_is_read (nbl : Option Nat) (st : RState) (code text rest : Bytes) (hne : code ≠ [])
    (hc : ∀ c ∈ code, isAtomByte c = true) (htext : ReplyLine.NoLF text)
    (hp : pending st = 78 :: 79 :: 32 :: (40 :: (code ++ 41 :: 32 :: (34 :: (escapeQ text ++ [34])))) ++ 13 :: 10 :: rest) :
    ∃ st', readResponse nbl st = .ok (⟨some .NO, some (40 :: (code ++ 41 :: 32 :: (34 :: (escapeQ text ++ [34])))), []⟩, st') ∧
      pending st' = rest ∧ st'.errcode = code ∧ st'.errmsg = text := by
  apply no_reply_is_read nbl st 40 _ rest code text hp (by decide)
  · intro x hx
    simp only [List.mem_cons, List.mem_append, List.not_mem_nil, or_false] at hx
    rcases hx with rfl | hx | rfl | rfl | rfl | hx | rfl
    · decide
    · have := hc x hx
      intro h10; subst h10; simp [isAtomByte, B.isWs] at this
    · decide
    · decide
    · decide
    · exact escapeQ_noLF text htext x hx
    · decide
  · intro st1
    exact parseError_code_and_quoted_text code text st1 hne hc

/-- `NO "text"` CRLF -/
theorem no_text_reply_is_read (nbl : Option Nat) (st : RState) (text rest : Bytes) (htext : ReplyLine.NoLF text)
    (hp : pending st = 78 :: 79 :: 32 :: (34 :: (escapeQ text ++ [34])) ++ 13 :: 10 :: rest) :
    ∃ st', readResponse nbl st = .ok (⟨some .NO, some (34 :: (escapeQ text ++ [34])), []⟩, st') ∧
      pending st' = rest ∧ st'.errcode = [] ∧ st'.errmsg = text := by
  apply no_reply_is_read nbl st 34 _ rest [] text hp (by decide)
  · intro x hx
    simp only [List.mem_cons, List.mem_append, List.not_mem_nil, or_false] at hx
    rcases hx with rfl | hx | rfl
    · decide
    · exact escapeQ_noLF text htext x hx
    · decide
  · intro st1
    exact parseError_quoted_text_only text st1

/-- non-vacuity -/
example : (parseError (some (sb "(QUOTA/MAXSIZE) \"Quota \\\"x\\\" exceeded\"")) default).toOption.map
    (fun s => (s.errcode, s.errmsg)) = some (sb "QUOTA/MAXSIZE", sb "Quota \"x\" exceeded") := by decide

/-! ## the reply grammar as a whole

`NoReply` is a status reply in the abstract: an optional response code and an optional human-readable text, the text
sent as a quoted string or as a literal.  `every_no_reply_is_decoded` and `every_ok_reply_is_read` cover all twelve
shapes at once, for every code (a non-empty atom), every text (any octets as a literal; no LF when quoted, which is
what makes a text quotable), every split of the bytes between buffer and socket and every recv schedule. -/

open Reader Client ReplyDecode ReplyLine ReplyGrammar

/-- the human-readable text of a status reply, as a server may send it -/
inductive TextForm where
  | quoted (t : Bytes)
  | literal (t : Bytes)
  deriving Repr

def TextForm.value : TextForm → Bytes
  | .quoted t => t
  | .literal t => t

/-- a `NO` reply in the abstract: optional response code, optional text -/
structure NoReply where
  code : Option Bytes
  text : Option TextForm

/-- what is admitted: a code is a non-empty atom; a quoted text holds no LF (it could not be quoted otherwise) -/
def NoReply.WF (r : NoReply) : Prop :=
  (∀ c, r.code = some c → c ≠ [] ∧ ∀ x ∈ c, isAtomByte x = true) ∧
  (∀ t, r.text = some (.quoted t) → NoLF t)

/-- the line after `NO` (without CRLF) -/
def NoReply.tail (r : NoReply) : Bytes :=
  (match r.code with | some c => 40 :: (c ++ [41]) | none => []) ++
  (match r.code, r.text with | some _, some _ => [32] | _, _ => []) ++
  (match r.text with
   | some (.quoted t) => 34 :: (escapeQ t ++ [34])
   | some (.literal t) => 123 :: (B.natToDec t.length ++ [125])
   | none => [])

/-- what follows the status line on the wire: the octets of a literal text and their CRLF -/
def NoReply.after (r : NoReply) : Bytes :=
  match r.text with
  | some (.literal t) => t ++ [13, 10]
  | _ => []

/-- the whole reply on the wire -/
def NoReply.wire (r : NoReply) : Bytes :=
  (if r.tail.isEmpty then [78, 79] else 78 :: 79 :: 32 :: r.tail) ++ 13 :: 10 :: r.after

/-- **every `NO` reply is decoded to what it says**: whatever combination of response code and text, the text quoted
    or sent as a literal, the call's error code and message are exactly the reply's, and exactly the reply is consumed -/
theorem every_no_reply_is_decoded (nbl : Option Nat) (st : RState) (r : NoReply) (hw : r.WF) (rest : Bytes)
    (hp : pending st = r.wire ++ rest) :
    ∃ st' d, readResponse nbl st = .ok (⟨some .NO, d, []⟩, st') ∧ pending st' = rest ∧
      st'.errcode = r.code.getD [] ∧ st'.errmsg = (r.text.map TextForm.value).getD [] := by
  obtain ⟨code, text⟩ := r
  obtain ⟨hwc, hwt⟩ := hw
  cases code with
  | none =>
    cases text with
    | none =>
      obtain ⟨st', h1, h2, h3, h4⟩ := bare_no_reply_is_read nbl st rest (by
        have : pending st = 78 :: 79 :: 13 :: 10 :: rest := by simpa [NoReply.wire, NoReply.tail, NoReply.after] using hp
        rw [this]; rfl)
      exact ⟨st', none, h1, h2, h3, h4⟩
    | some tf =>
      cases tf with
      | quoted t =>
        obtain ⟨st', h1, h2, h3, h4⟩ := no_text_reply_is_read nbl st t rest (hwt t rfl)
          (by simpa [NoReply.wire, NoReply.tail, NoReply.after] using hp)
        exact ⟨st', _, h1, h2, h3, h4⟩
      | literal t =>
        obtain ⟨hd1, hd2, hd3⟩ := Codec.natToDec_spec t.length
        obtain ⟨st1, hp1, hgen⟩ := no_reply_general nbl st 123 (B.natToDec t.length ++ [125]) (t ++ 13 :: 10 :: rest)
          (by simpa [NoReply.wire, NoReply.tail, NoReply.after] using hp) (by decide)
          (by
            intro x hx
            simp only [List.mem_cons, List.mem_append, List.not_mem_nil, or_false] at hx
            rcases hx with rfl | hx | rfl
            · decide
            · exact natToDec_noLF _ x hx
            · decide)
        obtain ⟨st2, hpe, hc2, hm2, hp2⟩ := parseError_literal_text_only t rest (B.natToDec t.length) st1 hd1 hd2 hd3 hp1
        exact ⟨st2, _, hgen st2 hpe, hp2, hc2, hm2⟩
  | some c =>
    obtain ⟨hne, hatom⟩ := hwc c rfl
    cases text with
    | none =>
      obtain ⟨st1, hp1, hgen⟩ := no_reply_general nbl st 40 (c ++ [41]) rest
        (by simpa [NoReply.wire, NoReply.tail, NoReply.after] using hp) (by decide)
        (by
          intro x hx
          simp only [List.mem_cons, List.mem_append, List.not_mem_nil, or_false] at hx
          rcases hx with rfl | hx | rfl
          · decide
          · exact atom_noLF c hatom x hx
          · decide)
      have hpe := parseError_code_only c st1 hne hatom
      exact ⟨_, _, hgen _ hpe, hp1, rfl, rfl⟩
    | some tf =>
      cases tf with
      | quoted t =>
        obtain ⟨st', h1, h2, h3, h4⟩ := no_code_text_reply_is_read nbl st c t rest hne hatom (hwt t rfl)
          (by simpa [NoReply.wire, NoReply.tail, NoReply.after] using hp)
        exact ⟨st', _, h1, h2, h3, h4⟩
      | literal t =>
        obtain ⟨hd1, hd2, hd3⟩ := Codec.natToDec_spec t.length
        obtain ⟨st1, hp1, hgen⟩ := no_reply_general nbl st 40 (c ++ 41 :: 32 :: (123 :: (B.natToDec t.length ++ [125])))
          (t ++ 13 :: 10 :: rest)
          (by simpa [NoReply.wire, NoReply.tail, NoReply.after] using hp) (by decide)
          (by
            intro x hx
            simp only [List.mem_cons, List.mem_append, List.not_mem_nil, or_false] at hx
            rcases hx with rfl | hx | rfl | rfl | rfl | hx | rfl
            · decide
            · exact atom_noLF c hatom x hx
            · decide
            · decide
            · decide
            · exact natToDec_noLF _ x hx
            · decide)
        obtain ⟨st2, hpe, hc2, hm2, hp2⟩ := parseError_code_and_literal_text c t rest (B.natToDec t.length) st1 hne hatom hd1 hd2 hd3 hp1
        exact ⟨st2, _, hgen st2 hpe, hp2, hc2, hm2⟩

/-- the whole `OK` reply on the wire -/
def NoReply.okWire (r : NoReply) : Bytes :=
  (if r.tail.isEmpty then [79, 75] else 79 :: 75 :: 32 :: r.tail) ++ 13 :: 10 :: r.after

/-- **every `OK` reply is read as OK**: with or without response code (`(WARNINGS)`, `(TAG "…")`-less atoms), with or
    without text, the text quoted or sent as a literal — the status is OK, exactly the reply is consumed (literal text and
    its CRLF included), and the error fields of the client are left alone -/
theorem every_ok_reply_is_read (nbl : Option Nat) (st : RState) (r : NoReply) (hw : r.WF) (rest : Bytes)
    (hp : pending st = r.okWire ++ rest) :
    ∃ st' d, readResponse nbl st = .ok (⟨some .OK, d, []⟩, st') ∧ pending st' = rest ∧
      st'.errcode = st.errcode ∧ st'.errmsg = st.errmsg := by
  obtain ⟨code, text⟩ := r
  obtain ⟨hwc, hwt⟩ := hw
  -- the two generic shapes
  have plain : ∀ (c : UInt8) (t : Bytes) (b : UInt8), B.isWs c = false → NoLF (c :: t) → (c :: t).getLast? = some b →
      b ≠ 125 ∧ b ≠ 10 → pending st = 79 :: 75 :: 32 :: (c :: t) ++ 13 :: 10 :: rest →
      ∃ st' d, readResponse nbl st = .ok (⟨some .OK, d, []⟩, st') ∧ pending st' = rest ∧
        st'.errcode = st.errcode ∧ st'.errmsg = st.errmsg := by
    intro c t b hws hlf hlast hb hpp
    obtain ⟨st1, h1, h2, h3, h4⟩ := readLine_ok st (79 :: 75 :: 32 :: c :: t) rest (some (c :: t)) hpp (noLF_ok_line _ hlf)
      (by simp) rfl (respMatch_ok (c :: t) c t rfl hws hlf) (trailingSize_none_of_last _ b hlast hb)
    exact ⟨st1, _, readResponse_status nbl st st1 .OK _ h1, h2, h3, h4⟩
  have lit : ∀ (c : UInt8) (t txt : Bytes), B.isWs c = false → NoLF (c :: t) → trailingSize (c :: t) = some txt.length →
      pending st = 79 :: 75 :: 32 :: (c :: t) ++ 13 :: 10 :: (txt ++ 13 :: 10 :: rest) →
      ∃ st' d, readResponse nbl st = .ok (⟨some .OK, d, []⟩, st') ∧ pending st' = rest ∧
        st'.errcode = st.errcode ∧ st'.errmsg = st.errmsg := by
    intro c t txt hws hlf hts hpp
    obtain ⟨st2, h1, h2, h3, h4⟩ := readLine_ok_literal st (79 :: 75 :: 32 :: c :: t) txt rest (some (c :: t)) hpp
      (noLF_ok_line _ hlf) (by simp) rfl (respMatch_ok (c :: t) c t rfl hws hlf) hts
    exact ⟨st2, _, readResponse_status nbl st st2 .OK _ h1, h2, h3, h4⟩
  cases code with
  | none =>
    cases text with
    | none =>
      obtain ⟨st', h1, h2, h3, h4⟩ := ok_reply_is_read nbl st rest (by
        have : pending st = 79 :: 75 :: 13 :: 10 :: rest := by simpa [NoReply.okWire, NoReply.tail, NoReply.after] using hp
        rw [this]; rfl)
      exact ⟨st', none, h1, h2, h3, h4⟩
    | some tf =>
      cases tf with
      | quoted t =>
        refine plain 34 (escapeQ t ++ [34]) 34 (by decide) ?_ (last_of_snoc _ (34 :: escapeQ t) 34 (by simp)) (by decide)
          (by simpa [NoReply.okWire, NoReply.tail, NoReply.after] using hp)
        intro x hx
        simp only [List.mem_cons, List.mem_append, List.not_mem_nil, or_false] at hx
        rcases hx with rfl | hx | rfl
        · decide
        · exact escapeQ_noLF t (hwt t rfl) x hx
        · decide
      | literal t =>
        obtain ⟨hd1, hd2, hd3⟩ := Codec.natToDec_spec t.length
        refine lit 123 (B.natToDec t.length ++ [125]) t (by decide) ?_ ?_
          (by simpa [NoReply.okWire, NoReply.tail, NoReply.after] using hp)
        · intro x hx
          simp only [List.mem_cons, List.mem_append, List.not_mem_nil, or_false] at hx
          rcases hx with rfl | hx | rfl
          · decide
          · exact natToDec_noLF _ x hx
          · decide
        · unfold trailingSize
          have : trailingSize.sizeMatchFull (123 :: (B.natToDec t.length ++ [125])) = some t.length := by
            unfold trailingSize.sizeMatchFull
            have hk := spanLen_digits_append (B.natToDec t.length) 125 [] hd2 (by decide)
            have hpos : ((B.natToDec t.length).length == 0) = false := by
              cases hh : B.natToDec t.length with
              | nil => exact absurd hh hd1
              | cons _ _ => simp
            simp only [hk, hpos, Bool.false_eq_true, if_false, List.drop_left, List.take_left, hd3]
          simp [this]
  | some c =>
    obtain ⟨hne, hatom⟩ := hwc c rfl
    cases text with
    | none =>
      refine plain 40 (c ++ [41]) 41 (by decide) ?_ (last_of_snoc _ (40 :: c) 41 (by simp)) (by decide)
        (by simpa [NoReply.okWire, NoReply.tail, NoReply.after] using hp)
      intro x hx
      simp only [List.mem_cons, List.mem_append, List.not_mem_nil, or_false] at hx
      rcases hx with rfl | hx | rfl
      · decide
      · exact atom_noLF c hatom x hx
      · decide
    | some tf =>
      cases tf with
      | quoted t =>
        refine plain 40 (c ++ 41 :: 32 :: 34 :: (escapeQ t ++ [34])) 34 (by decide) ?_
          (last_of_snoc _ (40 :: (c ++ 41 :: 32 :: 34 :: escapeQ t)) 34 (by simp)) (by decide)
          (by simpa [NoReply.okWire, NoReply.tail, NoReply.after] using hp)
        intro x hx
        simp only [List.mem_cons, List.mem_append, List.not_mem_nil, or_false] at hx
        rcases hx with rfl | hx | rfl | rfl | rfl | hx | rfl
        · decide
        · exact atom_noLF c hatom x hx
        · decide
        · decide
        · decide
        · exact escapeQ_noLF t (hwt t rfl) x hx
        · decide
      | literal t =>
        obtain ⟨hd1, hd2, hd3⟩ := Codec.natToDec_spec t.length
        refine lit 40 (c ++ 41 :: 32 :: (123 :: (B.natToDec t.length ++ [125]))) t (by decide) ?_ ?_
          (by simpa [NoReply.okWire, NoReply.tail, NoReply.after] using hp)
        · intro x hx
          simp only [List.mem_cons, List.mem_append, List.not_mem_nil, or_false] at hx
          rcases hx with rfl | hx | rfl | rfl | rfl | hx | rfl
          · decide
          · exact atom_noLF c hatom x hx
          · decide
          · decide
          · decide
          · exact natToDec_noLF _ x hx
          · decide
        · rw [trailingSize_code_literal c (B.natToDec t.length) hd1 hd2, hd3]

/-- non-vacuity: a reply with a hierarchical code and a two-line literal text, and what it looks like on the wire -/
example : (⟨some (sb "QUOTA/MAXSIZE"), some (.literal (sb "a\r\nb"))⟩ : NoReply).wire = sb "NO (QUOTA/MAXSIZE) {4}\r\na\r\nb\r\n" := by
  decide +kernel

example : (⟨some (sb "QUOTA/MAXSIZE"), some (.literal (sb "a\r\nb"))⟩ : NoReply).WF := by
  refine ⟨?_, ?_⟩
  · intro c hc
    have : c = sb "QUOTA/MAXSIZE" := (Option.some.inj hc).symm
    subst this
    exact ⟨by decide, by decide⟩
  · intro t ht; cases ht

/-- the regular expressions `sievelib/managesieve.py` uses now are the ones the model implements -/
theorem client_patterns_are_the_modelled_ones : Generated.clientPatterns = Client.patterns := by decide

end C09
