import SieveModel.Model.Client
/-! # C08 — placeholder, theorems follow (codec round trip) -/
namespace C08
theorem quote_is_delimited (a : Bytes) : (Client.quote a).head? = some 34 ∧ (Client.quote a).getLast? = some 34 := by
  unfold Client.quote
  constructor
  · simp
  · rw [List.getLast?_append]; simp
end C08
