import SieveModel.Lemmas.Codec
/-!
# C08 — Each client call puts exactly one well-formed command on the wire

`Rfc5804.command` is a strict server-side decoder written from the RFC 5804 ABNF, independent of
the client model.  Proved for every verb (non-empty, alphabetic), every argument list and every
byte string as name or content — including quotes, backslashes, CR, LF, NUL, `{n}` look-alikes:
the bytes of the command line decode to exactly the intended command and nothing is left over, so
no value can end the command early or smuggle a second one.
-/
namespace C08
open Client Rfc5804 Codec

/-- strings are quoted with `\\` and `\"` escaped: the strict decoder returns the caller's bytes -/
theorem quoted_string_decodes_to_value (a rest : Bytes) (h : hasCtl a = false) :
    quotedTail (escapeQ a ++ 34 :: rest) = some (a, rest) :=
  quotedTail_escapeQ a rest h

/-- literal lengths equal the byte length of the content: the decoder takes exactly the content -/
theorem literal_decodes_to_content (c rest : Bytes) :
    literalTail ((literalOf c).drop 1 ++ rest) = some (c, rest) :=
  literalTail_literalOf c rest

/-- numbers are unquoted decimal and parse back -/
theorem number_roundtrip (n : Nat) :
    B.natToDec n ≠ [] ∧ (∀ d ∈ B.natToDec n, B.isDigit d = true) ∧ B.decToNat (B.natToDec n) = n :=
  natToDec_spec n

/-- the whole command line: exactly one command of the intended verb with the caller's values -/
theorem command_line_decodes_to_intended_command (name : Bytes) (ws : List WArg) (rest : Bytes)
    (hne : name ≠ []) (hn : ∀ c ∈ name, isAlpha c = true) :
    command (commandBytes name ws ++ rest) = some (name, ws.map valueOf, rest) :=
  command_commandBytes name ws rest hne hn

/-- what one exchange writes: the command line, on the current channel, and nothing else -/
theorem exchange_writes_one_command (c : Client) (name : Bytes) (ws : List WArg) (nbl : Option Nat)
    (hc : c.connected = true) :
    (sendCommand c name ws [] nbl).2.writes = c.writes ++ [(c.tls, commandBytes name ws)] := by
  unfold sendCommand awaitReply afterWrites
  simp only [hc, Bool.not_true, Bool.false_eq_true, if_false, List.foldl_nil]
  cases Reader.readResponse nbl (write c (commandBytes name ws)).r with
  | error e => simp [write]
  | ok p => simp [write]

/-- instances for the script operations (every name / content, hostile or not) -/
theorem putscript_on_the_wire (name content rest : Bytes) :
    command (commandBytes (sb "PUTSCRIPT") [.str name, .lit content] ++ rest)
      = some (sb "PUTSCRIPT", [.str name, .str content], rest) :=
  command_commandBytes _ _ rest (by decide) (by decide)

theorem renamescript_on_the_wire (old new rest : Bytes) :
    command (commandBytes (sb "RENAMESCRIPT") [.str old, .str new] ++ rest)
      = some (sb "RENAMESCRIPT", [.str old, .str new], rest) :=
  command_commandBytes _ _ rest (by decide) (by decide)

theorem havespace_on_the_wire (name rest : Bytes) (size : Nat) :
    command (commandBytes (sb "HAVESPACE") [.str name, .num size] ++ rest)
      = some (sb "HAVESPACE", [.str name, .num size], rest) :=
  command_commandBytes _ _ rest (by decide) (by decide)

/-- non-vacuity: a name that tries to close the string and add LOGOUT stays one argument -/
example : command (commandBytes (sb "DELETESCRIPT") [.str (sb "a\"\r\nLOGOUT")])
    = some (sb "DELETESCRIPT", [.str (sb "a\"\r\nLOGOUT")], []) := by
  have := command_commandBytes (sb "DELETESCRIPT") [.str (sb "a\"\r\nLOGOUT")] [] (by decide) (by decide)
  simpa [valueOf] using this

/-! ## each public call: exactly one command line, nothing else -/

theorem okOf_writes (x : Res Reply) : (okOf x).2.writes = x.2.writes := by
  obtain ⟨v, c⟩ := x
  cases v <;> rfl

/-- `putscript`: one PUTSCRIPT line carrying the caller's name and content -/
theorem putscript_writes_one_command (c : Client) (name content : Bytes) (ha : c.authenticated = true)
    (hc : c.connected = true) :
    (putscript c name content).2.writes = c.writes ++ [(c.tls, commandBytes (sb "PUTSCRIPT") [.str name, .lit content])] := by
  simp only [putscript, guarded, ha, if_true, okOf_writes]
  exact exchange_writes_one_command c _ _ none hc

theorem deletescript_writes_one_command (c : Client) (name : Bytes) (ha : c.authenticated = true) (hc : c.connected = true) :
    (deletescript c name).2.writes = c.writes ++ [(c.tls, commandBytes (sb "DELETESCRIPT") [.str name])] := by
  simp only [deletescript, guarded, ha, if_true, okOf_writes]
  exact exchange_writes_one_command c _ _ none hc

theorem setactive_writes_one_command (c : Client) (name : Bytes) (ha : c.authenticated = true) (hc : c.connected = true) :
    (setactive c name).2.writes = c.writes ++ [(c.tls, commandBytes (sb "SETACTIVE") [.str name])] := by
  simp only [setactive, guarded, ha, if_true, okOf_writes]
  exact exchange_writes_one_command c _ _ none hc

theorem havespace_writes_one_command (c : Client) (name : Bytes) (size : Nat) (ha : c.authenticated = true)
    (hc : c.connected = true) :
    (havespace c name size).2.writes = c.writes ++ [(c.tls, commandBytes (sb "HAVESPACE") [.str name, .num size])] := by
  simp only [havespace, guarded, ha, if_true, okOf_writes]
  exact exchange_writes_one_command c _ _ none hc

/-- `getscript`: whatever the reply is (content, NO, undecodable bytes), one GETSCRIPT line was written -/
theorem getscript_writes_one_command (c : Client) (name : Bytes) (ha : c.authenticated = true) (hc : c.connected = true) :
    (getscript c name).2.writes = c.writes ++ [(c.tls, commandBytes (sb "GETSCRIPT") [.str name])] := by
  have h := exchange_writes_one_command c (sb "GETSCRIPT") [.str name] none hc
  simp only [getscript, guarded, ha, if_true]
  revert h
  generalize sendCommand c (sb "GETSCRIPT") [.str name] [] none = x
  intro h
  obtain ⟨v, c1⟩ := x
  cases v with
  | error e => exact h
  | ok rep =>
    simp only
    split
    · split <;> exact h
    · exact h

theorem listscripts_writes_one_command (c : Client) (ha : c.authenticated = true) (hc : c.connected = true) :
    (listscripts c).2.writes = c.writes ++ [(c.tls, commandBytes (sb "LISTSCRIPTS") [])] := by
  have h := exchange_writes_one_command c (sb "LISTSCRIPTS") [] none hc
  simp only [listscripts, guarded, ha, if_true]
  revert h
  generalize sendCommand c (sb "LISTSCRIPTS") [] [] none = x
  intro h
  obtain ⟨v, c1⟩ := x
  cases v with
  | error e => exact h
  | ok rep =>
    simp only
    split
    · exact h
    · split <;> exact h

/-- `checkscript` on a server announcing VERSION: one CHECKSCRIPT line carrying the content as a literal -/
theorem checkscript_writes_one_command (c : Client) (content : Bytes) (ha : c.authenticated = true) (hc : c.connected = true)
    (hv : capHas c (sb "VERSION") = true) :
    (checkscript c content).2.writes = c.writes ++ [(c.tls, commandBytes (sb "CHECKSCRIPT") [.lit content])] := by
  simp only [checkscript, guarded, ha, if_true, hv, Bool.not_true, Bool.false_eq_true, if_false, okOf_writes]
  exact exchange_writes_one_command c _ _ none hc

/-- … and on a server that does not: refused locally, nothing is written -/
theorem checkscript_without_version_writes_nothing (c : Client) (content : Bytes) (hv : capHas c (sb "VERSION") = false) :
    (checkscript c content).2.writes = c.writes := by
  unfold checkscript guarded
  split
  · simp [hv]
  · rfl

/-- native `renamescript` (server announces VERSION): one RENAMESCRIPT line with both names -/
theorem native_renamescript_writes_one_command (c : Client) (old new : Bytes) (ha : c.authenticated = true)
    (hc : c.connected = true) (hv : capHas c (sb "VERSION") = true) :
    (renamescript c old new).2.writes = c.writes ++ [(c.tls, commandBytes (sb "RENAMESCRIPT") [.str old, .str new])] := by
  simp only [renamescript, guarded, ha, if_true, hv, okOf_writes]
  exact exchange_writes_one_command c _ _ none hc

theorem capability_writes_one_command (c : Client) (hc : c.connected = true) :
    (capability c).2.writes = c.writes ++ [(c.tls, commandBytes (sb "CAPABILITY") [])] := by
  have h := exchange_writes_one_command c (sb "CAPABILITY") [] none hc
  unfold capability
  revert h
  generalize sendCommand c (sb "CAPABILITY") [] [] none = x
  intro h
  obtain ⟨v, c1⟩ := x
  cases v <;> exact h

theorem logout_writes_one_command (c : Client) (hc : c.connected = true) :
    (logout c).2.writes = c.writes ++ [(c.tls, commandBytes (sb "LOGOUT") [])] := by
  have h := exchange_writes_one_command c (sb "LOGOUT") [] none hc
  unfold logout
  revert h
  generalize sendCommand c (sb "LOGOUT") [] [] none = x
  intro h
  obtain ⟨v, c1⟩ := x
  cases v <;> exact h

/-- an unauthenticated call writes nothing at all -/
theorem unauthenticated_call_writes_nothing {α : Type} (c : Client) (f : Client → Res α) (h : c.authenticated = false) :
    (guarded c f).2.writes = c.writes := by
  simp [guarded, h]

end C08
