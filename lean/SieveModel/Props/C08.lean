import SieveModel.Lemmas.Codec
/-!
# C08 — Each client call puts exactly one well-formed command on the wire

`Rfc5804.command` is a strict server-side decoder written from the RFC 5804 ABNF, independent of
the client model.  Proved for every verb (non-empty, alphabetic), every argument list and every
byte string as name or content — including quotes, backslashes, CR, LF, NUL, `{n}` look-alikes:
the bytes of the command line decode to exactly the intended command and nothing is left over, so
no value can end the command early or smuggle a second one.
-/
namespace C08
open Client Rfc5804 Codec

/-- strings are quoted with `\\` and `\"` escaped: the strict decoder returns the caller's bytes -/
theorem quoted_string_decodes_to_value (a rest : Bytes) (h : hasCtl a = false) :
    quotedTail (escapeQ a ++ 34 :: rest) = some (a, rest) :=
  quotedTail_escapeQ a rest h

/-- literal lengths equal the byte length of the content: the decoder takes exactly the content -/
theorem literal_decodes_to_content (c rest : Bytes) :
    literalTail ((literalOf c).drop 1 ++ rest) = some (c, rest) :=
  literalTail_literalOf c rest

/-- numbers are unquoted decimal and parse back -/
theorem number_roundtrip (n : Nat) :
    B.natToDec n ≠ [] ∧ (∀ d ∈ B.natToDec n, B.isDigit d = true) ∧ B.decToNat (B.natToDec n) = n :=
  natToDec_spec n

/-- the whole command line: exactly one command of the intended verb with the caller's values -/
theorem command_line_decodes_to_intended_command (name : Bytes) (ws : List WArg) (rest : Bytes)
    (hne : name ≠ []) (hn : ∀ c ∈ name, isAlpha c = true) :
    command (commandBytes name ws ++ rest) = some (name, ws.map valueOf, rest) :=
  command_commandBytes name ws rest hne hn

/-- what one exchange writes: the command line, on the current channel, and nothing else -/
theorem exchange_writes_one_command (c : Client) (name : Bytes) (ws : List WArg) (nbl : Option Nat)
    (hc : c.connected = true) :
    (sendCommand c name ws [] nbl).2.writes = c.writes ++ [(c.tls, commandBytes name ws)] := by
  unfold sendCommand awaitReply afterWrites
  simp only [hc, Bool.not_true, Bool.false_eq_true, if_false, List.foldl_nil]
  cases Reader.readResponse nbl (write c (commandBytes name ws)).r with
  | error e => simp [write]
  | ok p => simp [write]

/-- instances for the script operations (every name / content, hostile or not) -/
theorem putscript_on_the_wire (name content rest : Bytes) :
    command (commandBytes (sb "PUTSCRIPT") [.str name, .lit content] ++ rest)
      = some (sb "PUTSCRIPT", [.str name, .str content], rest) :=
  command_commandBytes _ _ rest (by decide) (by decide)

theorem renamescript_on_the_wire (old new rest : Bytes) :
    command (commandBytes (sb "RENAMESCRIPT") [.str old, .str new] ++ rest)
      = some (sb "RENAMESCRIPT", [.str old, .str new], rest) :=
  command_commandBytes _ _ rest (by decide) (by decide)

theorem havespace_on_the_wire (name rest : Bytes) (size : Nat) :
    command (commandBytes (sb "HAVESPACE") [.str name, .num size] ++ rest)
      = some (sb "HAVESPACE", [.str name, .num size], rest) :=
  command_commandBytes _ _ rest (by decide) (by decide)

/-- non-vacuity: a name that tries to close the string and add LOGOUT stays one argument -/
example : command (commandBytes (sb "DELETESCRIPT") [.str (sb "a\"\r\nLOGOUT")])
    = some (sb "DELETESCRIPT", [.str (sb "a\"\r\nLOGOUT")], []) := by
  have := command_commandBytes (sb "DELETESCRIPT") [.str (sb "a\"\r\nLOGOUT")] [] (by decide) (by decide)
  simpa [valueOf] using this

end C08
