import SieveModel.Props.C06
import SieveModel.Model.ToList
import SieveModel.Lemmas.Readback
/-!
# C19 — What you put into a filter is what you read back

Every list-valued argument is read back through `tools.to_list` (model: `ToList.toList`, compared with
the code on every run).  Proved: for every non-empty list of items that contain no comma and neither
start nor end with a double quote, reading back the rendered list gives exactly the items
(`list_read_back_exact`); the conditions are necessary (`comma_breaks_read_back`,
`quote_breaks_read_back` — the known findings KF-C19-1 / KF-C19-2 are these two theorems seen from the
code's side).  `header_condition_reads_back`: `args_as_tuple` (model `Readback.headerTuple`) of a `header` test that
holds `quote h`, a tag and `quote k` — whatever else it carries — returns `(h, tag, k)` for every `h`, `k` without
double quote, backslash and comma; under a `not` the tag comes back as `:not…`
(`negated_header_condition_reads_back`).  The read-back functions, the loader and the renderer are tied to the code by the
`factory-roundtrip` correspondence: build → read back → render → parse → load → read back, the real code against the
composed Lean models, on documented and malformed definitions; the other shapes — `exists`, `size`, `envelope` with lists, `body` with its transform, `currentdate` with and without a relational
match — read back exactly for non-empty lists of plain strings (`…_condition_reads_back`); values with commas or quotes are the
known findings above.
-/
namespace C19
/-- `strip('"')` of a quoted value without quotes or backslashes gives the value back -/
theorem strip_quote_roundtrip (v : Bytes) (h1 : v.head? ≠ some 34) (h2 : v.getLast? ≠ some 34) :
    B.stripC 34 ([34] ++ v ++ [34]) = v := ToListLemmas.strip_quote_roundtrip v h1 h2
open ToList in
/-- splitting at commas undoes joining with commas, for pieces that contain none -/
theorem splitComma_joinComma (items : List Bytes) (hne : items ≠ []) (h : ∀ v ∈ items, ∀ c ∈ v, c ≠ 44) :
    splitComma (joinComma items) = items := ToListLemmas.splitComma_joinComma items hne h

open ToList in
/-- **exact read-back of lists**: non-empty, items free of commas, not starting or ending with a quote -/
theorem list_read_back_exact (items : List Bytes) (hne : items ≠ [])
    (hc : ∀ v ∈ items, ∀ c ∈ v, c ≠ 44)
    (hq : ∀ v ∈ items, v.head? ≠ some 34 ∧ v.getLast? ≠ some 34) :
    toList (render items) = items := ToListLemmas.list_read_back_exact items hne hc hq

open ToList in
/-- the comma condition is necessary: a value containing a comma comes back as two values (KF-C19-1) -/
theorem comma_breaks_read_back : toList (render [sb "a,b"]) = [sb "a", sb "b"] := by decide

open ToList in
/-- so is the quote condition: a value that ends with a quote loses it (KF-C19-2 concerns the escaped form) -/
theorem quote_breaks_read_back : toList (render [sb "say \""]) = [sb "say "] := by decide

open ToList in
/-- an empty rendered list reads back as one empty string, not as no item -/
theorem empty_list_reads_back_as_one_empty_item : toList (sb "[]") = [[]] := by decide

/-- a header condition built from plain strings reads back exactly -/
theorem header_condition_reads_back (name : Bytes) (args extra : List Arg) (children : List Node) (comments : List Bytes)
    (h tag k : Bytes) (hh : Readback.plain h) (hk : Readback.plain k)
    (a1 : assocGet args "header-names" = some (.str "header-names" (Factory.quote h)))
    (a2 : assocGet args "match-type" = some (.str "match-type" tag))
    (a3 : assocGet args "key-list" = some (.str "key-list" (Factory.quote k))) :
    Readback.headerTuple (.mk name args extra children comments) = .ok [.s h, .s tag, .s k] :=
  Readback.header_condition_reads_back name args extra children comments h tag k hh hk a1 a2 a3

theorem negated_header_condition_reads_back (h tag k : Bytes)
    (ht : ∀ c, tag.head? = some c → (c &&& 0xC0 == 0x80) = false) :
    Readback.negated (sb "header") [.s h, .s (58 :: tag), .s k] = .ok [.s h, .s (sb ":not" ++ tag), .s k] :=
  Readback.negated_header_condition_reads_back h tag k ht

/-- non-vacuity: the premises hold for the tree the factory builds for `("Subject", ":contains", "offer")` -/
example : Readback.headerTuple (.mk (sb "header")
      [.str "match-type" (sb ":contains"), .str "header-names" (Factory.quote (sb "Subject")), .str "key-list" (Factory.quote (sb "offer"))] [] [] [])
    = .ok [.s (sb "Subject"), .s (sb ":contains"), .s (sb "offer")] :=
  header_condition_reads_back _ _ _ _ _ (sb "Subject") (sb ":contains") (sb "offer")
    (by unfold Readback.plain; decide) (by unfold Readback.plain; decide) (by simp [assocGet, Arg.key]) (by simp [assocGet, Arg.key]) (by simp [assocGet, Arg.key])

/-! ## the other condition shapes -/

open Readback in
/-- **exists / notexists**: a non-empty list of names without double quote, backslash and comma reads back exactly -/
theorem exists_condition_reads_back (name : Bytes) (args extra : List Arg) (children : List Node) (comments : List Bytes)
    (names : List Bytes) (hne : names ≠ []) (hp : ∀ v ∈ names, plain v)
    (a1 : assocGet args "header-names" = some (.str "header-names" (Factory.quoteList names))) :
    existsTuple (.mk name args extra children comments) = .ok (.s (sb "exists") :: names.map RVal.s) :=
  Readback.exists_condition_reads_back name args extra children comments names hne hp a1

open Readback in
/-- **size** -/
theorem size_condition_reads_back (name : Bytes) (args extra : List Arg) (children : List Node) (comments : List Bytes)
    (cmp lim : Bytes)
    (a1 : assocGet args "comparator" = some (.str "comparator" cmp))
    (a2 : assocGet args "limit" = some (.str "limit" lim)) :
    sizeTuple (.mk name args extra children comments) = .ok [.s (sb "size"), .s cmp, .s lim] :=
  Readback.size_condition_reads_back name args extra children comments cmp lim a1 a2

open Readback in
/-- **envelope** with lists -/
theorem envelope_condition_reads_back (name : Bytes) (args extra : List Arg) (children : List Node) (comments : List Bytes)
    (tag : Bytes) (hs ks : List Bytes) (hne1 : hs ≠ []) (hne2 : ks ≠ []) (hp1 : ∀ v ∈ hs, plain v) (hp2 : ∀ v ∈ ks, plain v)
    (a1 : assocGet args "match-type" = some (.str "match-type" tag))
    (a2 : assocGet args "header-list" = some (.str "header-list" (Factory.quoteList hs)))
    (a3 : assocGet args "key-list" = some (.str "key-list" (Factory.quoteList ks))) :
    envelopeTuple (.mk name args extra children comments) = .ok [.s (sb "envelope"), .s tag, .l hs, .l ks] :=
  Readback.envelope_condition_reads_back name args extra children comments tag hs ks hne1 hne2 hp1 hp2 a1 a2 a3

open Readback in
/-- **body** with transform -/
theorem body_condition_reads_back (name : Bytes) (args extra : List Arg) (children : List Node) (comments : List Bytes)
    (bt tag : Bytes) (ks : List Bytes) (hne : ks ≠ []) (hp : ∀ v ∈ ks, plain v)
    (a1 : assocGet args "body-transform" = some (.str "body-transform" bt))
    (a2 : assocGet args "match-type" = some (.str "match-type" tag))
    (a3 : assocGet args "key-list" = some (.str "key-list" (Factory.quoteList ks))) :
    bodyTuple (.mk name args extra children comments) = .ok ([.s (sb "body"), .s bt, .s tag] ++ ks.map RVal.s) :=
  Readback.body_condition_reads_back name args extra children comments bt tag ks hne hp a1 a2 a3

open Readback in
/-- **currentdate** without relational match -/
theorem currentdate_condition_reads_back (name : Bytes) (args extra : List Arg) (children : List Node) (comments : List Bytes)
    (zone tag dp : Bytes) (ks : List Bytes) (hne : ks ≠ []) (hp : ∀ v ∈ ks, plain v) (hz : plain zone) (hd : plain dp)
    (hrel : (tag == sb ":count" || tag == sb ":value") = false)
    (e1 : assocGet extra "zone" = some (.str "zone" (Factory.quote zone)))
    (a2 : assocGet args "match-type" = some (.str "match-type" tag))
    (a3 : assocGet args "date-part" = some (.str "date-part" (Factory.quote dp)))
    (a4 : assocGet args "key-list" = some (.str "key-list" (Factory.quoteList ks))) :
    currentdateTuple (.mk name args extra children comments) =
      .ok ([.s (sb "currentdate"), .s (sb ":zone"), .s zone, .s tag, .s dp] ++ ks.map RVal.s) :=
  Readback.currentdate_condition_reads_back name args extra children comments zone tag dp ks hne hp hz hd hrel e1 a2 a3 a4

open Readback in
/-- **currentdate** with relational match: the operator is read back too -/
theorem currentdate_relational_condition_reads_back (name : Bytes) (args extra : List Arg) (children : List Node)
    (comments : List Bytes) (zone tag op dp : Bytes) (ks : List Bytes) (hne : ks ≠ []) (hp : ∀ v ∈ ks, plain v)
    (hz : plain zone) (hd : plain dp) (ho : plain op)
    (hrel : (tag == sb ":count" || tag == sb ":value") = true)
    (e1 : assocGet extra "zone" = some (.str "zone" (Factory.quote zone)))
    (e2 : assocGet extra "match-type" = some (.str "match-type" (Factory.quote op)))
    (a2 : assocGet args "match-type" = some (.str "match-type" tag))
    (a3 : assocGet args "date-part" = some (.str "date-part" (Factory.quote dp)))
    (a4 : assocGet args "key-list" = some (.str "key-list" (Factory.quoteList ks))) :
    currentdateTuple (.mk name args extra children comments) =
      .ok ([.s (sb "currentdate"), .s (sb ":zone"), .s zone, .s tag, .s op, .s dp] ++ ks.map RVal.s) :=
  Readback.currentdate_relational_condition_reads_back name args extra children comments zone tag op dp ks hne hp hz hd ho
    hrel e1 e2 a2 a3 a4

/-- non-vacuity: an `exists` test holding two names -/
example : Readback.existsTuple (.mk (sb "exists") [.str "header-names" (Factory.quoteList [sb "X-A", sb "Notes"])] [] [] []) =
    .ok [.s (sb "exists"), .s (sb "X-A"), .s (sb "Notes")] :=
  exists_condition_reads_back _ _ _ _ _ [sb "X-A", sb "Notes"] (by simp) (by decide) (by simp [assocGet, Arg.key])

end C19
