import SieveModel.Props.C06
/-! # C19 — read-back lemmas (theorems follow) -/
namespace C19
/-- `strip('"')` of a quoted value without quotes or backslashes gives the value back -/
theorem strip_quote_roundtrip (v : Bytes) (h1 : v.head? ≠ some 34) (h2 : v.getLast? ≠ some 34) :
    B.stripC 34 ([34] ++ v ++ [34]) = v := by
  cases hv0 : v with
  | nil => simp [B.stripC, B.stripL]
  | cons x0 xs0 =>
  rw [← hv0]
  have hne : v ≠ [] := by rw [hv0]; simp
  unfold B.stripC
  have a : B.stripL 34 ([34] ++ v ++ [34]) = v ++ [34] := by
    cases v with
    | nil => exact absurd rfl hne
    | cons x xs =>
      have : x ≠ 34 := by simpa using h1
      simp [B.stripL, this]
  rw [a]
  have b : (v ++ [34]).reverse = 34 :: v.reverse := by simp
  rw [b]
  have c : B.stripL 34 (34 :: v.reverse) = v.reverse := by
    cases hv : v.reverse with
    | nil => simp at hv; exact absurd hv hne
    | cons y ys =>
      have hy : y ≠ 34 := by
        intro hy
        apply h2
        have : v.getLast? = v.reverse.head? := by simp
        rw [this, hv]; simp [hy]
      simp [B.stripL, hy]
  rw [c]; simp
end C19
