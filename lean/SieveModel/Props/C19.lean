import SieveModel.Props.C06
import SieveModel.Model.ToList
import SieveModel.Lemmas.Readback
/-!
# C19 — What you put into a filter is what you read back

Every list-valued argument is read back through `tools.to_list` (model: `ToList.toList`, compared with
the code on every run).  Proved: for every non-empty list of items that contain no comma and neither
start nor end with a double quote, reading back the rendered list gives exactly the items
(`list_read_back_exact`); the conditions are necessary (`comma_breaks_read_back`,
`quote_breaks_read_back` — the known findings KF-C19-1 / KF-C19-2 are these two theorems seen from the
code's side).  `header_condition_reads_back`: `args_as_tuple` (model `Readback.headerTuple`) of a `header` test that
holds `quote h`, a tag and `quote k` — whatever else it carries — returns `(h, tag, k)` for every `h`, `k` without
double quote, backslash and comma; under a `not` the tag comes back as `:not…`
(`negated_header_condition_reads_back`).  The read-back functions, the loader and the renderer are tied to the code by the
`factory-roundtrip` correspondence: build → read back → render → parse → load → read back, the real code against the
composed Lean models, on documented and malformed definitions; the other tuple shapes are decided by it and by the oracle.
-/
namespace C19
/-- `strip('"')` of a quoted value without quotes or backslashes gives the value back -/
theorem strip_quote_roundtrip (v : Bytes) (h1 : v.head? ≠ some 34) (h2 : v.getLast? ≠ some 34) :
    B.stripC 34 ([34] ++ v ++ [34]) = v := by
  cases hv0 : v with
  | nil => simp [B.stripC, B.stripL]
  | cons x0 xs0 =>
  rw [← hv0]
  have hne : v ≠ [] := by rw [hv0]; simp
  unfold B.stripC
  have a : B.stripL 34 ([34] ++ v ++ [34]) = v ++ [34] := by
    cases v with
    | nil => exact absurd rfl hne
    | cons x xs =>
      have : x ≠ 34 := by simpa using h1
      simp [B.stripL, this]
  rw [a]
  have b : (v ++ [34]).reverse = 34 :: v.reverse := by simp
  rw [b]
  have c : B.stripL 34 (34 :: v.reverse) = v.reverse := by
    cases hv : v.reverse with
    | nil => simp at hv; exact absurd hv hne
    | cons y ys =>
      have hy : y ≠ 34 := by
        intro hy
        apply h2
        have : v.getLast? = v.reverse.head? := by simp
        rw [this, hv]; simp [hy]
      simp [B.stripL, hy]
  rw [c]; simp
open ToList in
/-- splitting at commas undoes joining with commas, for pieces that contain none -/
theorem splitComma_joinComma (items : List Bytes) (hne : items ≠ []) (h : ∀ v ∈ items, ∀ c ∈ v, c ≠ 44) :
    splitComma (joinComma items) = items := by
  have piece : ∀ (v : Bytes), (∀ c ∈ v, c ≠ 44) → ∀ rest : Bytes, splitComma (v ++ 44 :: rest) = v :: splitComma rest := by
    intro v hv rest
    induction v with
    | nil => simp [splitComma]
    | cons c cs ih =>
      have hc : (c == 44) = false := by simpa using hv c (by simp)
      simp only [List.cons_append, splitComma, hc, Bool.false_eq_true, if_false]
      rw [ih (fun x hx => hv x (by simp [hx]))]
  have single : ∀ (v : Bytes), (∀ c ∈ v, c ≠ 44) → splitComma v = [v] := by
    intro v hv
    induction v with
    | nil => rfl
    | cons c cs ih =>
      have hc : (c == 44) = false := by simpa using hv c (by simp)
      simp only [splitComma, hc, Bool.false_eq_true, if_false]
      rw [ih (fun x hx => hv x (by simp [hx]))]
  induction items with
  | nil => exact absurd rfl hne
  | cons a rest ih =>
    cases rest with
    | nil => simpa [joinComma] using single a (h a (by simp))
    | cons b r =>
      have : joinComma (a :: b :: r) = a ++ 44 :: joinComma (b :: r) := by simp [joinComma]
      rw [this, piece a (h a (by simp)), ih (by simp) (fun v hv => h v (by simp [hv]))]

open ToList in
/-- **exact read-back of lists**: non-empty, items free of commas, not starting or ending with a quote -/
theorem list_read_back_exact (items : List Bytes) (hne : items ≠ [])
    (hc : ∀ v ∈ items, ∀ c ∈ v, c ≠ 44)
    (hq : ∀ v ∈ items, v.head? ≠ some 34 ∧ v.getLast? ≠ some 34) :
    toList (render items) = items := by
  unfold toList render inner
  have h1 : (List.drop 1 ([91] ++ joinComma (items.map (fun v => [34] ++ v ++ [34])) ++ [93])).dropLast
      = joinComma (items.map (fun v => [34] ++ v ++ [34])) := by simp
  rw [h1, splitComma_joinComma _ (by simpa using hne)]
  · simp only [if_true, List.map_map]
    have : ∀ l : List Bytes, (∀ v ∈ l, v.head? ≠ some 34 ∧ v.getLast? ≠ some 34) →
        l.map ((fun p => B.stripC 34 p) ∘ fun v => [34] ++ v ++ [34]) = l := by
      intro l hl
      induction l with
      | nil => rfl
      | cons v r ih =>
        simp only [List.map_cons, Function.comp]
        rw [strip_quote_roundtrip v (hl v (by simp)).1 (hl v (by simp)).2, ]
        congr 1
        exact ih (fun x hx => hl x (by simp [hx]))
    exact this items hq
  · intro v hv c hcv
    simp only [List.mem_map] at hv
    obtain ⟨w, hw, rfl⟩ := hv
    simp only [List.mem_append, List.mem_singleton, List.mem_cons, List.not_mem_nil, or_false] at hcv
    rcases hcv with (rfl | hcw) | rfl
    · decide
    · exact hc w hw c hcw
    · decide

open ToList in
/-- the comma condition is necessary: a value containing a comma comes back as two values (KF-C19-1) -/
theorem comma_breaks_read_back : toList (render [sb "a,b"]) = [sb "a", sb "b"] := by decide

open ToList in
/-- so is the quote condition: a value that ends with a quote loses it (KF-C19-2 concerns the escaped form) -/
theorem quote_breaks_read_back : toList (render [sb "say \""]) = [sb "say "] := by decide

open ToList in
/-- an empty rendered list reads back as one empty string, not as no item -/
theorem empty_list_reads_back_as_one_empty_item : toList (sb "[]") = [[]] := by decide

/-- a header condition built from plain strings reads back exactly -/
theorem header_condition_reads_back (name : Bytes) (args extra : List Arg) (children : List Node) (comments : List Bytes)
    (h tag k : Bytes) (hh : Readback.plain h) (hk : Readback.plain k)
    (a1 : assocGet args "header-names" = some (.str "header-names" (Factory.quote h)))
    (a2 : assocGet args "match-type" = some (.str "match-type" tag))
    (a3 : assocGet args "key-list" = some (.str "key-list" (Factory.quote k))) :
    Readback.headerTuple (.mk name args extra children comments) = .ok [.s h, .s tag, .s k] :=
  Readback.header_condition_reads_back name args extra children comments h tag k hh hk a1 a2 a3

theorem negated_header_condition_reads_back (h tag k : Bytes)
    (ht : ∀ c, tag.head? = some c → (c &&& 0xC0 == 0x80) = false) :
    Readback.negated (sb "header") [.s h, .s (58 :: tag), .s k] = .ok [.s h, .s (sb ":not" ++ tag), .s k] :=
  Readback.negated_header_condition_reads_back h tag k ht

/-- non-vacuity: the premises hold for the tree the factory builds for `("Subject", ":contains", "offer")` -/
example : Readback.headerTuple (.mk (sb "header")
      [.str "match-type" (sb ":contains"), .str "header-names" (Factory.quote (sb "Subject")), .str "key-list" (Factory.quote (sb "offer"))] [] [] [])
    = .ok [.s (sb "Subject"), .s (sb ":contains"), .s (sb "offer")] :=
  header_condition_reads_back _ _ _ _ _ (sb "Subject") (sb ":contains") (sb "offer")
    (by unfold Readback.plain; decide) (by unfold Readback.plain; decide) (by simp [assocGet, Arg.key]) (by simp [assocGet, Arg.key]) (by simp [assocGet, Arg.key])

end C19
