import SieveModel.Lemmas.ReplyLine
/-!
# C17 — Names and bodies come back exactly as the server holds them

* `literal_content_is_taken_by_count` (T-READ): stored data inside a literal is taken by count and never
  classified as a protocol line.
* `literal_body_is_returned_exactly` (reader level, every buffer/stream split, every recv schedule): for
  a GETSCRIPT-shaped reply `{n}` CRLF ⟨n octets⟩ CRLF `OK` CRLF, whatever the n octets are — lines reading
  `OK`, `NO`, `BYE`, `{5}`, quotes, NUL, CR/LF mixes — the content handed to the caller is exactly those
  octets (completed with one CRLF when they do not end with one), the status is OK and exactly the bytes
  after the reply stay pending.
Names in listings (quoted / literal encodings, the ACTIVE marker) are decided by the look-alike oracle
against the reference server; literal-encoded names and quoted-string bodies are known findings.
-/
namespace C17
open Reader

/-- stored data inside a literal is taken by count, never classified as a protocol line -/
theorem literal_content_is_taken_by_count (n : Nat) (st : RState) (h : n ≤ (pending st).length) :
    ∃ st', readBlock n st = .ok ((pending st).take n, st') ∧ pending st' = (pending st).drop n := by
  obtain ⟨st', h1, h2, _⟩ := (readBlock_spec n st).1 h
  exact ⟨st', h1, h2⟩

/-- a literal body of any content is returned exactly -/
theorem literal_body_is_returned_exactly (nbl : Option Nat) (st : RState) (ds body rest : Bytes) (hne : ds ≠ [])
    (hall : ∀ d ∈ ds, B.isDigit d = true) (hval : B.decToNat ds = body.length)
    (hp : pending st = 123 :: (ds ++ [125]) ++ 13 :: 10 :: (body ++ 13 :: 10 :: (sb "OK" ++ 13 :: 10 :: rest))) :
    ∃ st', readResponse nbl st =
        .ok (⟨some .OK, none, if endsWithCRLF body then body else body ++ CRLF⟩, st') ∧ pending st' = rest :=
  ReplyLine.readResponse_literal_ok nbl st ds body rest hne hall hval hp

/-- non-vacuity: a body made of protocol look-alikes (`OK`, `NO`, `{3}` lines) comes back as it is -/
example : ∃ st', readResponse none { (default : RState) with buf := sb "{13}\r\nOK\r\nNO\r\n{3}\r\n\r\nOK\r\n" } =
    .ok (⟨some .OK, none, sb "OK\r\nNO\r\n{3}\r\n"⟩, st') ∧ pending st' = [] :=
  literal_body_is_returned_exactly none _ (sb "13") (sb "OK\r\nNO\r\n{3}\r\n") [] (by decide) (by decide) (by decide) (by decide)

end C17
