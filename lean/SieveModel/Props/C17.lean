import SieveModel.Generated.MsConsts
import SieveModel.Lemmas.ReplyLine
import SieveModel.Lemmas.Listing
/-!
# C17 — Names and bodies come back exactly as the server holds them

* `literal_content_is_taken_by_count` (T-READ): stored data inside a literal is taken by count and never
  classified as a protocol line.
* `literal_body_is_returned_exactly` (reader level, every buffer/stream split, every recv schedule): for
  a GETSCRIPT-shaped reply `{n}` CRLF ⟨n octets⟩ CRLF `OK` CRLF, whatever the n octets are — lines reading
  `OK`, `NO`, `BYE`, `{5}`, quotes, NUL, CR/LF mixes — the content handed to the caller is exactly those
  octets (completed with one CRLF when they do not end with one), the status is OK and exactly the bytes
  after the reply stay pending.
* `quoted_names_come_back_exactly` (client level): a LISTSCRIPTS reply whose names are sent as quoted strings —
  any bytes but CR / LF, `\` and `"` escaped — is decoded to exactly those names, in order, with the one
  marked ACTIVE reported as active; names that read `OK`, `NO x`, `{5}`, `x ACTIVE`, or hold quotes and
  backslashes included.
* `script_lines_come_back_exactly` / `…_without_final_newline` (client level): GETSCRIPT hands back the stored
  lines (joined with LF), whatever they contain.
Literal-encoded names and quoted-string bodies are known findings, decided by the look-alike oracle
against the reference server.
-/
namespace C17
open Reader

/-- stored data inside a literal is taken by count, never classified as a protocol line -/
theorem literal_content_is_taken_by_count (n : Nat) (st : RState) (h : n ≤ (pending st).length) :
    ∃ st', readBlock n st = .ok ((pending st).take n, st') ∧ pending st' = (pending st).drop n := by
  obtain ⟨st', h1, h2, _⟩ := (readBlock_spec n st).1 h
  exact ⟨st', h1, h2⟩

/-- a literal body of any content is returned exactly -/
theorem literal_body_is_returned_exactly (nbl : Option Nat) (st : RState) (ds body rest : Bytes) (hne : ds ≠ [])
    (hall : ∀ d ∈ ds, B.isDigit d = true) (hval : B.decToNat ds = body.length)
    (hp : pending st = 123 :: (ds ++ [125]) ++ 13 :: 10 :: (body ++ 13 :: 10 :: (sb "OK" ++ 13 :: 10 :: rest))) :
    ∃ st', readResponse nbl st =
        .ok (⟨some .OK, none, if endsWithCRLF body then body else body ++ CRLF⟩, st') ∧ pending st' = rest :=
  ReplyLine.readResponse_literal_ok nbl st ds body rest hne hall hval hp

/-- non-vacuity: a body made of protocol look-alikes (`OK`, `NO`, `{3}` lines) comes back as it is -/
example : ∃ st', readResponse none { (default : RState) with buf := sb "{13}\r\nOK\r\nNO\r\n{3}\r\n\r\nOK\r\n" } =
    .ok (⟨some .OK, none, sb "OK\r\nNO\r\n{3}\r\n"⟩, st') ∧ pending st' = [] :=
  literal_body_is_returned_exactly none _ (sb "13") (sb "OK\r\nNO\r\n{3}\r\n") [] (by decide) (by decide) (by decide) (by decide)

open Listing in
/-- **names come back exactly** (LISTSCRIPTS, names as quoted strings), for every list of entries, every
    split of the bytes between buffer and socket and every recv schedule -/
theorem quoted_names_come_back_exactly (c : Client) (es : List Entry) (rest : Bytes)
    (ha : c.authenticated = true) (hc : c.connected = true)
    (hb : ∀ e ∈ es, NoBreak e.name) (hv : ∀ e ∈ es, Utf8.valid e.name = true)
    (hp : pending (Client.afterWrites c (sb "LISTSCRIPTS") [] []).r = wire es ++ (sb "OK" ++ 13 :: 10 :: rest)) :
    (Client.listscripts c).1 = .ok (some (activeOf es none, inactive es)) ∧ pending (Client.listscripts c).2.r = rest :=
  listscripts_returns_the_listing c es rest ha hc hb hv hp

open Listing in
/-- non-vacuity: names that look like protocol (`OK`, `{5}`, `x ACTIVE`) or hold quotes and backslashes -/
example : Client.parseListing (Client.splitLines (wire [⟨sb "OK", false⟩, ⟨sb "{5}", true⟩, ⟨sb "x ACTIVE", false⟩, ⟨sb "q\"uo\\te", false⟩]))
    none [] = .ok (some (sb "{5}"), [sb "OK", sb "x ACTIVE", sb "q\"uo\\te"]) :=
  listing_decodes _ (by decide +kernel) (by decide +kernel)

open Listing in
/-- **bodies come back exactly** (GETSCRIPT, script stored as CRLF-terminated lines) -/
theorem script_lines_come_back_exactly (c : Client) (name : Bytes) (ls : List Bytes) (rest : Bytes)
    (ha : c.authenticated = true) (hc : c.connected = true) (hne : ls ≠ [])
    (hb : ∀ l ∈ ls, NoBreak l) (hv : ∀ l ∈ ls, Utf8.valid l = true)
    (hp : pending (Client.afterWrites c (sb "GETSCRIPT") [.str name] []).r =
            literalS (joinCRLF ls) ++ 13 :: 10 :: (sb "OK" ++ 13 :: 10 :: rest)) :
    (Client.getscript c name).1 = .ok (some (Client.joinNl ls)) ∧ pending (Client.getscript c name).2.r = rest :=
  getscript_returns_the_lines c name ls rest ha hc hne hb hv hp

open Listing in
/-- the same for a script whose last line has no line terminator -/
theorem script_lines_come_back_exactly_without_final_newline (c : Client) (name : Bytes) (ls : List Bytes) (last rest : Bytes)
    (ha : c.authenticated = true) (hc : c.connected = true) (hlast : last ≠ [])
    (hb : ∀ l ∈ ls ++ [last], NoBreak l) (hv : ∀ l ∈ ls ++ [last], Utf8.valid l = true)
    (hp : pending (Client.afterWrites c (sb "GETSCRIPT") [.str name] []).r =
            literalS (joinCRLF ls ++ last) ++ 13 :: 10 :: (sb "OK" ++ 13 :: 10 :: rest)) :
    (Client.getscript c name).1 = .ok (some (Client.joinNl (ls ++ [last]))) ∧ pending (Client.getscript c name).2.r = rest :=
  getscript_returns_the_lines_open c name ls last rest ha hc hlast hb hv hp

/-- the regular expressions `sievelib/managesieve.py` uses now are the ones the model implements -/
theorem client_patterns_are_the_modelled_ones : Generated.clientPatterns = Client.patterns := by decide

end C17
