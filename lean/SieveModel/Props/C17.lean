import SieveModel.Lemmas.Reader
import SieveModel.Model.Client
/-! # C17 — names and bodies come back as stored (theorems follow) -/
namespace C17
open Reader
/-- stored data inside a literal is taken by count, never classified as a protocol line -/
theorem literal_content_is_taken_by_count (n : Nat) (st : RState) (h : n ≤ (pending st).length) :
    ∃ st', readBlock n st = .ok ((pending st).take n, st') ∧ pending st' = (pending st).drop n := by
  obtain ⟨st', h1, h2, _⟩ := (readBlock_spec n st).1 h
  exact ⟨st', h1, h2⟩
end C17
