import SieveModel.Lemmas.FilterSet
/-!
# C12 — Filter-set editing operations behave like an ordered, uniquely named list

`Inv fs` = names are unique ∧ every filter's content is "its definition, wrapped in `if false`
exactly once iff its enabled flag is off".  All theorems hold for every history of operations, of
any length, over any names.
-/
namespace C12
open FS

/-- the seven editing operations (update / replace install a freshly built, unwrapped content) -/
inductive Op where
  | add (n : Bytes) (id : Nat)
  | update (old new : Bytes) (id : Nat)
  | replace (old : Bytes) (id : Nat) (new : Option Bytes)
  | remove (n : Bytes)
  | enable (n : Bytes)
  | disable (n : Bytes)
  | move (n : Bytes) (up : Bool)

def apply (fs : FS) : Op → FRes × FS
  | .add n id => addfilter fs n id
  | .update o n id => updatefilter fs o n id
  | .replace o id n => replacefilter fs o (.plain id) n
  | .remove n => removefilter fs n
  | .enable n => enablefilter fs n
  | .disable n => disablefilter fs n
  | .move n up => movefilter fs n up

def run (fs : FS) (ops : List Op) : FS := ops.foldl (fun s o => (apply s o).2) fs

theorem step_preserves_invariant (fs : FS) (op : Op) (h : FS.Inv fs) : FS.Inv (apply fs op).2 := by
  cases op with
  | add n id => exact addfilter_inv fs n id h
  | update o n id => exact install_inv fs o n id h
  | replace o id n => exact install_inv fs o (n.getD o) id h
  | remove n => exact removefilter_inv fs n h
  | enable n => exact enablefilter_inv fs n h
  | disable n => exact disablefilter_inv fs n h
  | move n up => exact movefilter_inv fs n up h

/-- every reachable filter set: names unique, flags and wrapping in agreement -/
theorem every_history_keeps_invariant (ops : List Op) : FS.Inv (run [] ops) := by
  have : ∀ fs, FS.Inv fs → FS.Inv (run fs ops) := by
    induction ops with
    | nil => intro fs h; exact h
    | cons o rest ih => intro fs h; exact ih _ (step_preserves_invariant fs o h)
  exact this [] ⟨by simp, by simp⟩

/-- enabled flag, `is_filter_disabled` and the `if false` wrapping always agree -/
theorem flags_agree (fs : FS) (h : FS.Inv fs) (f : Flt) (hf : f ∈ fs) :
    f.content.isDisabled = !f.enabled := by
  have hw := h.2 f hf
  unfold WFflt at hw
  cases he : f.enabled <;> rw [he] at hw <;> simp at hw <;> rw [hw] <;> simp [Content.isDisabled]

theorem is_filter_disabled_is_not_enabled (fs : FS) (h : FS.Inv fs) (n : Bytes) (f : Flt)
    (hf : findFirst fs n = some f) : isFilterDisabled fs n = !f.enabled := by
  unfold isFilterDisabled
  rw [hf]
  exact flags_agree fs h f (List.mem_of_find?_eq_some hf)

/-- `getfilter` returns the filter's own (unwrapped) content whether or not it is disabled -/
theorem getfilter_returns_own_content (fs : FS) (h : FS.Inv fs) (n : Bytes) (f : Flt)
    (hf : findFirst fs n = some f) : getfilter fs n = some (some (.plain f.content.core)) := by
  unfold getfilter
  rw [hf]
  have hw := h.2 f (List.mem_of_find?_eq_some hf)
  unfold WFflt at hw
  obtain ⟨nm, content, enabled⟩ := f
  simp only at hw ⊢
  cases enabled
  · simp only [Bool.false_eq_true, if_false] at hw
    cases content with
    | plain i => simp at hw
    | wrapped c =>
      simp only [Content.core, Content.wrapped.injEq] at hw
      simp only [Content.unwrap, Content.core]
      rw [← hw]; simp
  · simp only [if_true] at hw
    simp only [Bool.not_true, Bool.false_eq_true, if_false]
    rw [hw]
    simp [Content.core]

/-- a duplicate name is refused with FilterAlreadyExists and changes nothing -/
theorem duplicate_name_refused (fs : FS) (n : Bytes) (id : Nat) (h : filterExists fs n = true) :
    addfilter fs n id = (.exists_, fs) := by simp [addfilter, h]

/-- operations on an unknown name return False / None and change nothing -/
theorem unknown_name_changes_nothing (fs : FS) (n : Bytes) (h : findFirst fs n = none) :
    (∀ o id, updatefilter fs n o id = (.ret false, fs)) ∧ (∀ c o, replacefilter fs n c o = (.ret false, fs)) ∧
    removefilter fs n = (.ret false, fs) ∧ enablefilter fs n = (.ret false, fs) ∧
    disablefilter fs n = (.ret false, fs) ∧ (∀ up, movefilter fs n up = (.ret false, fs)) ∧
    getfilter fs n = some none := by
  have hex : filterExists fs n = false := by
    simp only [findFirst, List.find?_eq_none] at h
    simp only [filterExists, List.any_eq_false]
    intro x hx; simpa using h x hx
  refine ⟨?_, ?_, ?_, ?_, ?_, ?_, ?_⟩
  · intro o id; simp [updatefilter, install, h]
  · intro c o; simp [replacefilter, install, h]
  · simp [removefilter, hex]
  · simp [enablefilter, h]
  · simp [disablefilter, h]
  · intro up; simp [movefilter, h]
  · simp [getfilter, h]

/-- update / replace keep the number of filters and every filter's enabled status, in place -/
theorem enabled_updateFirst (n : Bytes) (g : Flt → Flt) (fs : FS) (hg : ∀ f, (g f).enabled = f.enabled) :
    (updateFirst n g fs).map (·.enabled) = fs.map (·.enabled) := by
  induction fs with
  | nil => simp [updateFirst]
  | cons f rest ih =>
    simp only [updateFirst]
    split
    · simp [hg]
    · simp [ih]

theorem update_keeps_position_and_status (fs : FS) (o n : Bytes) (c : Content) :
    ((install fs o n c).2.map (·.enabled)) = fs.map (·.enabled) := by
  unfold install
  split
  · rfl
  · split
    · rfl
    · exact enabled_updateFirst o _ fs (fun f => rfl)

/-- a move permutes the same filters (none lost, duplicated or altered) -/
theorem move_is_a_permutation (fs : FS) (n : Bytes) (up : Bool) : (movefilter fs n up).2.Perm fs :=
  movefilter_perm fs n up

/-- non-vacuity: disable twice then enable once leaves an enabled, unwrapped filter -/
example : (run [] [.add (sb "a") 1, .disable (sb "a"), .disable (sb "a"), .enable (sb "a")])
    = [⟨sb "a", .plain 1, true⟩] := by decide

end C12
