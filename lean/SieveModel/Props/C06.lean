import SieveModel.Model.Lexer
/-! # C06 — quoting lemmas (theorems follow) -/
namespace C06

/-- `'"%s"' % value.replace("\\", "\\\\").replace('"', '\\"')` -/
def escape : Bytes → Bytes
  | [] => []
  | c :: rest => if c == 92 then 92 :: 92 :: escape rest else if c == 34 then 92 :: 34 :: escape rest else c :: escape rest

def quote (v : Bytes) : Bytes := [34] ++ escape v ++ [34]

/-- the lexer reads a quoted value as exactly one string token, whatever the value contains:
    user data cannot end the string early or contribute another token -/
theorem quoted_value_is_one_string_token (v rest : Bytes) :
    Lex.stringEnd (escape v ++ 34 :: rest) = some ((escape v).length + 1) := by
  induction v with
  | nil => simp [escape, Lex.stringEnd]
  | cons c cs ih =>
    unfold escape
    split
    · simp only [List.cons_append, Lex.stringEnd]
      simp [ih]
    · split
      · simp only [List.cons_append, Lex.stringEnd]
        simp [ih]
      · rename_i h1 h2
        have h1' : c ≠ 92 := by simpa using h1
        have h2' : c ≠ 34 := by simpa using h2
        simp only [List.cons_append]
        rw [Lex.stringEnd.eq_def]
        simp [h1', h2', ih]

end C06
