import SieveModel.Model.Lexer
import SieveModel.Lemmas.Factory
import SieveModel.Lemmas.FactorySet
import SieveModel.Generated.Tables
import SieveModel.Generated.FactoryData
import SieveModel.Model.Show
import SieveModel.Lemmas.QuoteLex
/-!
# C06 — every script the filter factory generates is valid and self-sufficient

Model: `Model/Factory.lean` transliterates `FiltersSet.__create_filter` and what it calls (`require`,
`check_if_arg_is_extension`, `__quote*`, `__add_match_tag`, `__build_condition`), driving the same argument
interpreter as the parser model.  It is tied to `/repo` by the `factory-build` correspondence (requirement
list and tree, or error class, on generated and deliberately malformed descriptions) and by two regenerated
dictionaries (`Generated/FactoryData.lean`).

Proved here:
* `requirements_cover_every_extension_used` (every table satisfying the decidable `Factory.tableOK`, every
  description whose actions name controls or actions, every starting requirement list): if the construction
  succeeds and leaves the requirement list `r`, then the same construction **with every extension check
  switched on** — `get_command_instance(checkexists=True)`, `check_next_arg(check_extension=True)`, i.e. what
  the parser insists on when it meets the same commands and arguments — succeeds with the same tree against
  any loaded list `L ⊇ r` (containing what was loaded globally during the call).  So the `require` the set
  renders names every extension any of its filters uses, and stays sufficient when further filters add to it.
* `set_requirements_cover_every_filter`: the same for whole sets — after any sequence of `addfilter` / `updatefilter`
  (succeeding or raising), `removefilter` and re-ordering / re-wrapping operations starting from an empty set, every filter
  the set built is re-built with every check on against the requirement list *as it is now*: the list only grows
  (`createFilter_grows`, also when the construction raises), so no later edit can make an earlier filter's extensions
  disappear from the `require`.
* `live_factory_tables_ok`: the table and the two dictionaries regenerated from `/repo` satisfy `tableOK`
  (kernel evaluation).
* `quoted_value_is_one_string_token`: the lexer reads a quoted value as exactly one string token, whatever the
  value contains.
The rendering and re-parsing of the tree is decided by the oracle on the real code (and by C04's theorems).
-/
namespace C06
open Factory

/-- the lexer reads a quoted value as exactly one string token, whatever the value contains:
    user data cannot end the string early or contribute another token -/
theorem quoted_value_is_one_string_token (v rest : Bytes) :
    Lex.stringEnd (escape v ++ 34 :: rest) = some ((escape v).length + 1) := by
  induction v with
  | nil => simp [escape, Lex.stringEnd]
  | cons c cs ih =>
    unfold escape
    split
    · simp only [List.cons_append, Lex.stringEnd]
      simp [ih]
    · split
      · simp only [List.cons_append, Lex.stringEnd]
        simp [ih]
      · rename_i h1 h2
        have h1' : c ≠ 92 := by simpa using h1
        have h2' : c ≠ 34 := by simpa using h2
        simp only [List.cons_append]
        rw [Lex.stringEnd.eq_def]
        simp [h1', h2', ih]

/-- … as a statement about the lexer's rule function itself: in front of anything, the quoted value is one `string` token of
    exactly its length -/
theorem quoted_value_lexes_as_one_token (v rest : Bytes) : Lex.one (quote v ++ rest) = some (.string, (quote v).length) :=
  QuoteLex.quote_one v rest

/-- **a generated list lexes to `[`, one string token per value with commas between, `]`** — nothing else, whatever the
    values hold (quotes, backslashes, commas, brackets, semicolons, line breaks, bytes that are no UTF-8) -/
theorem generated_list_has_one_string_token_per_value (vs : List Bytes) :
    ∃ r, Lex.lex (quoteList vs) = some r ∧ r.err = none ∧
      r.toks.map Lex.kt = (TokKind.left_bracket, [91]) :: Reprint.commaK (vs.map (fun v => (TokKind.string, quote v))) ++
        [(TokKind.right_bracket, [93])] ∧
      (r.toks.filter (fun t => t.kind == .string)).length = vs.length := by
  obtain ⟨r, h1, h2, h3⟩ := QuoteLex.quoteList_lexes vs
  refine ⟨r, h1, h2, h3, ?_⟩
  have hlen : ((r.toks.map Lex.kt).filter (fun x => x.1 == TokKind.string)).length = vs.length := by
    rw [h3]
    simp only [List.filter_cons, List.filter_append, List.length_append]
    have hc := QuoteLex.commaK_strings (vs.map (fun v => (TokKind.string, quote v))) (by intro x hx; simp only [List.mem_map] at hx; obtain ⟨v, _, rfl⟩ := hx; rfl)
    have e1 : ((TokKind.left_bracket, ([91] : Bytes)).1 == TokKind.string) = false := by decide
    have e2 : ((TokKind.right_bracket, ([93] : Bytes)).1 == TokKind.string) = false := by decide
    simp [e1, e2, hc]
  rw [← hlen, List.filter_map, List.length_map]
  rfl

/-- non-vacuity: three hostile values -/
example : (match Lex.lex (quoteList [sb "a\"]; discard; [\"", sb "x\\", sb "], \"y"]) with
    | some r => r.err.isNone && decide ((r.toks.filter (fun t => t.kind == .string)).length = 3) && decide (r.toks.length = 7)
    | none => false) = true := by decide +kernel

/-- the factory's view of the live code: command table and the two dictionaries regenerated from `/repo` -/
def liveCfg (gl : List Bytes) : Cfg :=
  { T := Generated.builtinTable, matchExt := Generated.matchTypeExt, argExt := Generated.argsUsingExtensions, gl := gl }

/-- the regenerated table and dictionaries satisfy the conditions of the theorem -/
theorem live_factory_tables_ok : tableOK (liveCfg []) = true := by decide +kernel

/-- **the requirement list covers every extension the construction relies on** -/
theorem requirements_cover_every_extension_used (cfg : Cfg) (hs : cfg.strict = none) (hT : tableOK cfg = true)
    (reqs : List Bytes) (conds acts : List (List Val)) (matchtype : Bytes) (hacts : ∀ a ∈ acts, ActOK cfg a)
    (r : List Bytes) (n : Node) (h : createFilter cfg reqs conds acts matchtype = (r, .ok n)) :
    (∀ x ∈ reqs, x ∈ r) ∧
    ∀ L, (∀ x ∈ r, x ∈ L) → (∀ x ∈ cfg.gl, x ∈ L) →
      createFilter (cfg.strictWith L) reqs conds acts matchtype = (r, .ok n) :=
  createFilter_sim cfg hs (tableOK_sound cfg hT) reqs conds acts matchtype hacts r n h

/-- the same for the live code, nothing loaded globally (a fresh interpreter, or after any parse that required
    nothing): the strict construction succeeds against the produced requirement list itself -/
theorem requirements_cover_every_extension_used_live (reqs : List Bytes) (conds acts : List (List Val)) (matchtype : Bytes)
    (hacts : ∀ a ∈ acts, ActOK (liveCfg []) a) (r : List Bytes) (n : Node)
    (h : createFilter (liveCfg []) reqs conds acts matchtype = (r, .ok n)) :
    createFilter ((liveCfg []).strictWith r) reqs conds acts matchtype = (r, .ok n) :=
  (requirements_cover_every_extension_used (liveCfg []) rfl
    (by have := live_factory_tables_ok; exact this) reqs conds acts matchtype hacts r n h).2 r (fun _ hx => hx)
    (by intro x hx; simp [liveCfg] at hx)

/-- the requirement list of a set covers every filter built in its history -/
theorem set_requirements_cover_every_filter (cfg : Cfg) (hs : cfg.strict = none) (hT : tableOK cfg = true) (ops : List SOp) :
    let st := runS cfg ops {}
    ∀ b ∈ st.built, (∀ a ∈ b.d.acts, ActOK cfg a) →
      createFilter (cfg.strictWith (st.reqs ++ cfg.gl)) b.start b.d.conds b.d.acts b.d.mt = (b.after, .ok b.node) :=
  Factory.set_requirements_cover_every_filter cfg hs (tableOK_sound cfg hT) ops

/-- the requirement list never shrinks, whatever the construction does -/
theorem requirements_only_grow (cfg : Cfg) (reqs : List Bytes) (conds acts : List (List Val)) (matchtype : Bytes) :
    ∀ x ∈ reqs, x ∈ (createFilter cfg reqs conds acts matchtype).1 :=
  createFilter_grows cfg reqs conds acts matchtype

/-- non-vacuity: `fileinto :copy` under a `:regex` header test — both extensions and the command's own end up required,
    and the strict construction against exactly that list gives the same tree; against a list without `copy` it fails -/
example :
    (createFilter (liveCfg []) [] [[.s (sb "Subject"), .s (sb ":regex"), .s (sb "a.*")]]
        [[.s (sb "fileinto"), .s (sb ":copy"), .s (sb "INBOX")]] (sb "anyof")).1
      = [sb "regex", sb "fileinto", sb "copy"] := by decide +kernel
example :
    (match (createFilter ((liveCfg []).strictWith [sb "regex", sb "fileinto"]) [] [[.s (sb "Subject"), .s (sb ":regex"), .s (sb "a.*")]]
        [[.s (sb "fileinto"), .s (sb ":copy"), .s (sb "INBOX")]] (sb "anyof")).2 with
      | .error (.cmd (.extNotLoaded e)) => e == sb "copy"
      | _ => false) = true := by decide +kernel

end C06
