import SieveModel.Lemmas.Lex
import SieveModel.Model.Show
import SieveModel.Lemmas.Pos
import SieveModel.Lemmas.Machine
import SieveModel.Lemmas.NoCrash
import SieveModel.Generated.Tables
import SieveModel.Generated.LexRules
/-!
# C02 — Parsing always terminates with a verdict: no exception, no hang

Model: `Machine.parse` returns `accept | reject | crash | hang`; Python exceptions escaping
`Parser.parse` are `crash`, a lexer rewind without progress is `hang`.

Proved here (all inputs, all tables):
* the lexer terminates and yields at most one token per input byte;
* the token loop stops at the first rejection and delivers a token at most twice (structure of
  `Machine.deliver`), and a command cannot trigger the lexer rewind twice (`reassign_once`);
* a rejection carries a line number `1 ≤ N ≤ 1 + #newlines`.

* **the full statement**: for every command table satisfying the decidable condition `Safe.TableSafe`
  and every input, `Machine.parse` ends with an acceptance or a located rejection — no exception other
  than the parser's own (`crash`), no token delivered for ever (`hang`).  The proof is an invariant
  over the command stack and the bracket stack (`Lemmas/Invariant.lean`, `Lemmas/NoCrash.lean`);
  `TableSafe` is discharged for the table regenerated from `/repo` by kernel evaluation
  (`live_table_safe`), so a change of `commands.py` that leaves it breaks this file.
* the hypothesis is needed: `unsafe_table_crashes` exhibits a three-command table (an *action* taking
  a test) on which the model raises — and so does the real parser when such a command is registered
  with `add_commands` (DESIGN §22).
-/
namespace C02

/-- the lexer patterns of the code are, text for text, the ones the model's recognisers were written for
    (the termination and progress theorems below are about those recognisers) -/
theorem lexer_patterns_are_the_modelled_ones :
    Generated.lexRuleNames = TokKind.all.map TokKind.name ∧ Generated.lexRulePatterns = TokKind.patterns := by decide

/-- the lexer always terminates with a result (never the `none` = out-of-fuel case) and produces
    at most `|text|` tokens: lexer iterations are linear in the input -/
theorem lexer_terminates_linear (text : Bytes) :
    ∃ r, Lex.lex text = some r ∧ r.toks.length ≤ text.length :=
  Lex.lex_total text

/-- every lexer rule consumes at least one byte -/
theorem lexer_rule_progress (t : Bytes) (k : TokKind) (n : Nat) (h : Lex.one t = some (k, n)) :
    1 ≤ n ∧ n ≤ t.length :=
  Lex.one_bounds t k n h

theorem finish_ne_hang (s : PState) (e n : Nat) : Machine.finish s e n ≠ .hang := by
  unfold Machine.finish
  repeat' split
  all_goals simp

/-- `parse` never reports the lexer running out of fuel: a `hang` outcome can only come from a
    token being re-delivered twice -/
theorem parse_hang_only_by_double_rewind (T : Table) (text : Bytes) (h : Machine.parse T text = .hang) :
    ∃ r, Lex.lex text = some r ∧ Machine.feed T r.toks {} 0 = .stop .hang := by
  obtain ⟨r, hr, _⟩ := Lex.lex_total text
  refine ⟨r, hr, ?_⟩
  unfold Machine.parse at h
  rw [hr] at h
  simp only [Machine.run] at h
  split at h
  · rename_i o ho; subst h; exact ho
  · split at h
    · simp at h
    · exact absurd h (finish_ne_hang _ _ _)

/-- the D1 repair: `reassign_arguments` succeeds at most once per command, so the same command
    cannot make the lexer rewind twice -/
theorem rewind_needs_progress (f f' : Frame) (h : Machine.reassign f = some f') :
    Machine.reassign f' = none :=
  Machine.reassign_once f f' h

/-- the reported line of any rejection lies between 1 and 1 + number of line feeds -/
theorem reject_line_in_range (text : Bytes) (p : Nat) :
    1 ≤ Lex.lineno text p ∧ Lex.lineno text p ≤ 1 + B.count 10 text :=
  Lex.lineno_bounds text p

/-- non-vacuity: a concrete script on which the model gives a verdict with a line number -/
example : Show.outcome (sb "keep\nfoo;") (Machine.parse [] (sb "keep\nfoo;"))
    = "reject 1 1 4 unknownCommand 6b656570" := by decide

/-- the table regenerated from `/repo` satisfies the conditions of the invariant proof -/
theorem live_table_safe : Safe.TableSafe Generated.builtinTable := by decide +kernel

/-- **C02, full strength, any safe table**: parsing ends with a verdict -/
theorem parse_always_verdict (T : Table) (hT : Safe.TableSafe T) (text : Bytes) (prev : PState) :
    (∃ r, Machine.parse T text prev = .accept r) ∨ (∃ p n e, Machine.parse T text prev = .reject p n e) := by
  obtain ⟨h1, h2⟩ := Safe.parse_verdict T hT text prev
  cases h : Machine.parse T text prev with
  | accept r => exact Or.inl ⟨r, rfl⟩
  | reject p n e => exact Or.inr ⟨p, n, e, rfl⟩
  | crash w => exact absurd h (h1 w)
  | hang => exact absurd h h2

/-- **C02 for the library's own command set**: every byte string gets a verdict, whatever the parser
    object was used for before -/
theorem parse_always_verdict_live (text : Bytes) (prev : PState) :
    (∃ r, Machine.parse Generated.builtinTable text prev = .accept r) ∨
    (∃ p n e, Machine.parse Generated.builtinTable text prev = .reject p n e) :=
  parse_always_verdict _ live_table_safe text prev

/-- every prefix of the token loop keeps the stack/bracket invariant (what the proof rests on) -/
theorem token_loop_invariant (T : Table) (hT : Safe.TableSafe T) (toks : List Tok) :
    match Machine.feed T toks {} 0 with
    | .stop o => Safe.Verdict o
    | .done s _ => Safe.Inv s :=
  Safe.feed_spec T hT toks {} 0 Safe.Inv.init

/-- a token is delivered at most twice: after a lexer rewind the state is `Calm` and cannot rewind again -/
theorem no_double_rewind (T : Table) (hT : Safe.TableSafe T) (s : PState) (tok : Tok) (h : Safe.Inv s) (s1 s2 : PState)
    (h1 : Machine.step T s tok = .rewind s1) : Machine.step T s1 tok ≠ .rewind s2 := by
  have := Safe.step_spec T hT s tok h
  rw [h1] at this
  exact Safe.calm_no_rewind T s1 tok this.2 s2

namespace Witness
def tArg : ArgDef := { name := "test", types := [.test], required := true, values := none, extValues := [], extension := none, extra := none }
def dIf : CmdDef := { key := sb "If", name := sb "if", kind := .control, args := [tArg], acceptChildren := true, variableArgs := false, nonDet := false, mustFollow := none, extension := none, expectedFirst := some [.identifier], special := .none }
def dTrue : CmdDef := { key := sb "True", name := sb "true", kind := .test, args := [], acceptChildren := false, variableArgs := false, nonDet := false, mustFollow := none, extension := none, expectedFirst := none, special := .none }
def dFoo : CmdDef := { key := sb "Foo", name := sb "foo", kind := .action, args := [tArg], acceptChildren := false, variableArgs := false, nonDet := false, mustFollow := none, extension := none, expectedFirst := none, special := .none }
def unsafeTable : Table := [dIf, dTrue, dFoo]
end Witness

/-- the hypothesis `TableSafe` cannot be dropped: with an action that takes a test, the parser raises
    (`AttributeError` in Python — replayed by the C02 check on the real code) -/
theorem unsafe_table_crashes :
    ¬ Safe.TableSafe Witness.unsafeTable ∧
    Show.outcome (sb "if true { foo true { } }") (Machine.parse Witness.unsafeTable (sb "if true { foo true { } }"))
      = "crash AttributeError: NoneType (up without current command)" := by
  constructor
  · decide +kernel
  · decide +kernel

/-- the lexer rules of `sievelib/parser.py` (names, order, patterns, flags, white space) are the modelled ones -/
theorem lexer_is_the_modelled_one :
    Generated.lexRuleNames = TokKind.all.map TokKind.name ∧ Generated.lexRulePatterns = TokKind.patterns ∧
      Generated.parserPatterns = TokKind.auxPatterns := by decide

end C02
