import SieveModel.Lemmas.Lex
import SieveModel.Model.Show
import SieveModel.Lemmas.Pos
import SieveModel.Lemmas.Machine
/-!
# C02 — Parsing always terminates with a verdict: no exception, no hang

Model: `Machine.parse` returns `accept | reject | crash | hang`; Python exceptions escaping
`Parser.parse` are `crash`, a lexer rewind without progress is `hang`.

Proved here (all inputs, all tables):
* the lexer terminates and yields at most one token per input byte;
* the token loop stops at the first rejection and delivers a token at most twice (structure of
  `Machine.deliver`), and a command cannot trigger the lexer rewind twice (`reassign_once`);
* a rejection carries a line number `1 ≤ N ≤ 1 + #newlines`.

Open (kept as statements, see `open_statements` in the evidence): crash-freedom and absence of a
double rewind for every table satisfying `TableSafe` need the stack/bracket invariant of the
machine; they are validated by the correspondence and the oracle, not yet by a theorem.
-/
namespace C02

/-- the lexer always terminates with a result (never the `none` = out-of-fuel case) and produces
    at most `|text|` tokens: lexer iterations are linear in the input -/
theorem lexer_terminates_linear (text : Bytes) :
    ∃ r, Lex.lex text = some r ∧ r.toks.length ≤ text.length :=
  Lex.lex_total text

/-- every lexer rule consumes at least one byte -/
theorem lexer_rule_progress (t : Bytes) (k : TokKind) (n : Nat) (h : Lex.one t = some (k, n)) :
    1 ≤ n ∧ n ≤ t.length :=
  Lex.one_bounds t k n h

theorem finish_ne_hang (s : PState) (e n : Nat) : Machine.finish s e n ≠ .hang := by
  unfold Machine.finish
  repeat' split
  all_goals simp

/-- `parse` never reports the lexer running out of fuel: a `hang` outcome can only come from a
    token being re-delivered twice -/
theorem parse_hang_only_by_double_rewind (T : Table) (text : Bytes) (h : Machine.parse T text = .hang) :
    ∃ r, Lex.lex text = some r ∧ Machine.feed T r.toks {} 0 = .stop .hang := by
  obtain ⟨r, hr, _⟩ := Lex.lex_total text
  refine ⟨r, hr, ?_⟩
  unfold Machine.parse at h
  rw [hr] at h
  simp only [Machine.run] at h
  split at h
  · rename_i o ho; subst h; exact ho
  · split at h
    · simp at h
    · exact absurd h (finish_ne_hang _ _ _)

/-- the D1 repair: `reassign_arguments` succeeds at most once per command, so the same command
    cannot make the lexer rewind twice -/
theorem rewind_needs_progress (f f' : Frame) (h : Machine.reassign f = some f') :
    Machine.reassign f' = none :=
  Machine.reassign_once f f' h

/-- the reported line of any rejection lies between 1 and 1 + number of line feeds -/
theorem reject_line_in_range (text : Bytes) (p : Nat) :
    1 ≤ Lex.lineno text p ∧ Lex.lineno text p ≤ 1 + B.count 10 text :=
  Lex.lineno_bounds text p

/-- non-vacuity: a concrete script on which the model gives a verdict with a line number -/
example : Show.outcome (sb "keep\nfoo;") (Machine.parse [] (sb "keep\nfoo;"))
    = "reject 1 1 4 unknownCommand 6b656570" := by decide

/-- full-strength statement still to be proved (tracked as an open obligation) -/
def parse_never_crashes_or_hangs_statement : Prop :=
  ∀ (T : Table) (text : Bytes), (∀ d ∈ T, d.variableArgs = true → d.kind = .test) →
    (∃ r, Machine.parse T text = .accept r) ∨ (∃ p n e, Machine.parse T text = .reject p n e)

end C02
