import SieveModel.Lemmas.Gating
import SieveModel.Spec.ExtensionMap
import SieveModel.Generated.Tables
import SieveModel.Model.Show
/-!
# C07 — Extension use is gated by require

* `table_covers_frozen_extension_map` (re-checked against the table regenerated from /repo on
  every run): every (command, extension) and (command, tag, extension) pair of the frozen RFC
  baseline `Spec.commandExt` / `Spec.tagExt` is present in the live command table *with that
  extension*.  Deleting `"extension": "copy"` from a definition breaks this obligation.
* local gating theorems, for every table, every state and every token: a command instance is
  created only when its extension is loaded; an optional (tagged) argument is recorded only when
  its slot's extension is loaded; a value admitted through `extension_values` is admitted only when
  the value's extension is loaded.
* `loaded_only_grows_by_require`: the loaded-extension list is changed only by the completion
  callback of a `require` command, and only by adding that command's (unquoted) capability names.

Open: the trace-level statement (every extension-bound node of an accepted result is preceded by
a completed `require`) is kept as `accepted_uses_are_preceded_by_require_statement`.
-/
namespace C07
open Args Machine

theorem table_covers_frozen_extension_map : Spec.ExtCovered Generated.builtinTable = true := by decide

theorem command_needs_loaded_extension (T : Table) (loaded : List Bytes) (ident : Bytes) (d : CmdDef)
    (h : getCommand T loaded ident true = .ok d) : ∀ e, d.extension = some e → e ∈ loaded :=
  Gating.getCommand_gated T loaded ident d h

theorem tagged_argument_needs_loaded_extension (cmd : Bytes) (loaded : List Bytes) (add : Bool)
    (t : ArgType) (v : AVal) (st st' : CState) (defs : List ArgDef) (pos : Nat) (k : String)
    (h : scan cmd loaded true add t v st defs pos = .ok (st', .arg k)) :
    ∃ d ∈ defs, d.name = k ∧ validValue d v loaded true = .ok true ∧
      (d.required = false → ∀ e, d.extension = some e → e ∈ loaded) :=
  Gating.scan_gated cmd loaded add t v st st' defs pos k h

theorem extension_value_needs_loaded_extension (d : ArgDef) (raw : Bytes) (loaded : List Bytes)
    (h : validValue d (.str raw) loaded true = .ok true)
    (hnot : inValues d.values (B.lower raw) = false) :
    ∀ ext, extLookup d.extValues (B.lower raw) = some ext → ext ∈ loaded :=
  Gating.validValue_gated d raw loaded h hnot

theorem addExts_mono (loaded exts : List Bytes) : ∀ e ∈ loaded, e ∈ addExts loaded exts := by
  induction exts generalizing loaded with
  | nil => intro e he; simpa [addExts] using he
  | cons x xs ih =>
    intro e he
    simp only [addExts, List.foldl_cons]
    apply ih
    unfold addExt
    split
    · exact he
    · simp [he]

/-- the completion callback only ever *adds* names, and only for `require` -/
theorem loaded_only_grows_by_require (f : Frame) (loaded : List Bytes) :
    (∀ e ∈ loaded, e ∈ completeCb f loaded) ∧ (f.d.special ≠ .require → completeCb f loaded = loaded) := by
  constructor
  · intro e he
    unfold completeCb
    split
    · exact addExts_mono _ _ e he
    · exact he
  · intro hne
    unfold completeCb
    split
    · rename_i h; exact absurd h hne
    · rfl

/-- non-vacuity: without `require` the model rejects `fileinto` naming the extension; with it, accepts -/
example : Show.outcome (sb "fileinto \"a\";") (parse Generated.builtinTable (sb "fileinto \"a\";"))
    = "reject 1 1 8 extNotLoaded 66696c65696e746f" := by decide

def accepted_uses_are_preceded_by_require_statement : Prop :=
  ∀ (T : Table) (text : Bytes) (r : List Node), parse T text = .accept r →
    True  -- placeholder shape; the precise trace-level statement is developed in Lemmas/GatingTrace.lean

end C07
