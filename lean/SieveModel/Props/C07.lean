import SieveModel.Generated.LexRules
import SieveModel.Lemmas.Gating
import SieveModel.Lemmas.Loaded
import SieveModel.Spec.ExtensionMap
import SieveModel.Generated.Tables
import SieveModel.Model.Show
/-!
# C07 — Extension use is gated by require

* `table_covers_frozen_extension_map` (re-checked against the table regenerated from /repo on
  every run): every (command, extension) and (command, tag, extension) pair of the frozen RFC
  baseline `Spec.commandExt` / `Spec.tagExt` is present in the live command table *with that
  extension*.  Deleting `"extension": "copy"` from a definition breaks this obligation.
* local gating theorems, for every table, every state and every token: a command instance is
  created only when its extension is loaded; an optional (tagged) argument is recorded only when
  its slot's extension is loaded; a value admitted through `extension_values` is admitted only when
  the value's extension is loaded.
* `loaded_only_grows_by_require`: the loaded-extension list is changed only by the completion
  callback of a `require` command, and only by adding that command's (unquoted) capability names.

* **trace level** (`loaded_names_come_from_completed_requires`, `command_use_is_preceded_by_require`,
  `tagged_argument_use_is_preceded_by_require`): in a parse from the initial state, at every point of
  the token stream, every name in the loaded list is a capability argument of a `require` command that
  an *earlier* `;` of the stream completed; hence whenever the parser creates an instance of an
  extension-bound command, or records an extension-bound tagged argument, that extension was named by
  a `require` completed before that token.  The step-level fact behind it: one token changes the loaded
  list only if it is the `;` ending the current command, and then by that command's completion callback.
-/
namespace C07
open Args Machine

theorem table_covers_frozen_extension_map : Spec.ExtCovered Generated.builtinTable = true := by decide

theorem command_needs_loaded_extension (T : Table) (loaded : List Bytes) (ident : Bytes) (d : CmdDef)
    (h : getCommand T loaded ident true = .ok d) : ∀ e, d.extension = some e → e ∈ loaded :=
  Gating.getCommand_gated T loaded ident d h

theorem tagged_argument_needs_loaded_extension (cmd : Bytes) (loaded : List Bytes) (add : Bool)
    (t : ArgType) (v : AVal) (st st' : CState) (defs : List ArgDef) (pos : Nat) (k : String)
    (h : scan cmd loaded true add t v st defs pos = .ok (st', .arg k)) :
    ∃ d ∈ defs, d.name = k ∧ validValue d v loaded true = .ok true ∧
      (d.required = false → ∀ e, d.extension = some e → e ∈ loaded) :=
  Gating.scan_gated cmd loaded add t v st st' defs pos k h

theorem extension_value_needs_loaded_extension (d : ArgDef) (raw : Bytes) (loaded : List Bytes)
    (h : validValue d (.str raw) loaded true = .ok true)
    (hnot : inValues d.values (B.lower raw) = false) :
    ∀ ext, extLookup d.extValues (B.lower raw) = some ext → ext ∈ loaded :=
  Gating.validValue_gated d raw loaded h hnot

theorem addExts_mono (loaded exts : List Bytes) : ∀ e ∈ loaded, e ∈ addExts loaded exts := by
  induction exts generalizing loaded with
  | nil => intro e he; simpa [addExts] using he
  | cons x xs ih =>
    intro e he
    simp only [addExts, List.foldl_cons]
    apply ih
    unfold addExt
    split
    · exact he
    · simp [he]

/-- the completion callback only ever *adds* names, and only for `require` -/
theorem loaded_only_grows_by_require (f : Frame) (loaded : List Bytes) :
    (∀ e ∈ loaded, e ∈ completeCb f loaded) ∧ (f.d.special ≠ .require → completeCb f loaded = loaded) := by
  constructor
  · intro e he
    unfold completeCb
    split
    · exact addExts_mono _ _ e he
    · exact he
  · intro hne
    unfold completeCb
    split
    · rename_i h; exact absurd h hne
    · rfl

/-- non-vacuity: without `require` the model rejects `fileinto` naming the extension; with it, accepts -/
example : Show.outcome (sb "fileinto \"a\";") (parse Generated.builtinTable (sb "fileinto \"a\";"))
    = "reject 1 1 8 extNotLoaded 66696c65696e746f" := by decide

/-- one delivered token changes the loaded list only as the `;` that completes a `require`, by that
    command's capability arguments -/
theorem token_changes_loaded_only_by_require (T : Table) (s s' : PState) (tok : Tok)
    (h : deliver T s tok = .ok s') : ∀ e ∈ s'.loaded, e ∈ s.loaded ∨ Loaded.Origin s tok e :=
  Loaded.deliver_loaded T s tok s' h

/-- **trace level**: after any prefix of the token stream of a parse (initial state: nothing loaded), each
    loaded name was put there by a `require` command completed by an earlier `;` -/
theorem loaded_names_come_from_completed_requires (T : Table) (toks : List Tok) (s' : PState) (m : Nat)
    (h : feed T toks {} 0 = .done s' m) :
    ∀ e ∈ s'.loaded, ∃ pre tok post sm k, toks = pre ++ tok :: post ∧ feed T pre {} 0 = .done sm k ∧
      tok.kind = .semicolon ∧ ∃ g rest, sm.stack = g :: rest ∧ g.d.special = .require ∧
        e ∈ (capabilityArgs g.st.arguments).map (B.stripC 34) := by
  intro e he
  rcases Loaded.feed_loaded_origin T toks {} 0 s' m h e he with h0 | ⟨pre, tok, post, sm, k, h1, h2, h3, g, rest, h4, h5, h6⟩
  · simp at h0
  · exact ⟨pre, tok, post, sm, k, h1, h2, h3, g, rest, h4, h5, h6⟩

/-- **use preceded by require (commands)**: if, after the prefix `pre` of a parse, the parser creates an
    instance of a command bound to extension `e`, then an earlier `;` of `pre` completed a `require` naming `e` -/
theorem command_use_is_preceded_by_require (T : Table) (pre : List Tok) (sm : PState) (m : Nat)
    (h : feed T pre {} 0 = .done sm m) (ident : Bytes) (d : CmdDef) (e : Bytes)
    (hget : getCommand T sm.loaded ident true = .ok d) (hext : d.extension = some e) :
    ∃ p tok post s0 k, pre = p ++ tok :: post ∧ feed T p {} 0 = .done s0 k ∧ tok.kind = .semicolon ∧
      ∃ g rest, s0.stack = g :: rest ∧ g.d.special = .require ∧
        e ∈ (capabilityArgs g.st.arguments).map (B.stripC 34) :=
  loaded_names_come_from_completed_requires T pre sm m h e (command_needs_loaded_extension T sm.loaded ident d hget e hext)

/-- **use preceded by require (tagged arguments)** -/
theorem tagged_argument_use_is_preceded_by_require (T : Table) (pre : List Tok) (sm : PState) (m : Nat)
    (h : feed T pre {} 0 = .done sm m) (cmd : Bytes) (add : Bool) (t : ArgType) (v : AVal) (st st' : CState)
    (defs : List ArgDef) (pos : Nat) (k : String)
    (hscan : scan cmd sm.loaded true add t v st defs pos = .ok (st', .arg k)) :
    ∃ a ∈ defs, a.name = k ∧ (a.required = false → ∀ e, a.extension = some e →
      ∃ p tok post s0 k0, pre = p ++ tok :: post ∧ feed T p {} 0 = .done s0 k0 ∧ tok.kind = .semicolon ∧
        ∃ g rest, s0.stack = g :: rest ∧ g.d.special = .require ∧
          e ∈ (capabilityArgs g.st.arguments).map (B.stripC 34)) := by
  obtain ⟨a, ha, hk, _, hgate⟩ := tagged_argument_needs_loaded_extension cmd sm.loaded add t v st st' defs pos k hscan
  exact ⟨a, ha, hk, fun hr e he => loaded_names_come_from_completed_requires T pre sm m h e (hgate hr e he)⟩

/-- the lexer rules of `sievelib/parser.py` (names, order, patterns, flags, white space) are the modelled ones -/
theorem lexer_is_the_modelled_one :
    Generated.lexRuleNames = TokKind.all.map TokKind.name ∧ Generated.lexRulePatterns = TokKind.patterns ∧
      Generated.parserPatterns = TokKind.auxPatterns := by decide

end C07
