import SieveModel.Spec.Vocabulary
import SieveModel.Spec.FrozenTable
import SieveModel.Spec.WF
import SieveModel.Model.Machine
import SieveModel.Model.Show
import SieveModel.Generated.Tables
import SieveModel.Generated.LexRules
import SieveModel.Lemmas.Layout
import SieveModel.Lemmas.Brackets
import SieveModel.Lemmas.Roles
import SieveModel.Lemmas.Typed
/-!
# C01 — the parser accepts exactly the valid scripts

The specification of the supported language is the independent recogniser `Spec.WF`; the equivalence
theorem between it and the parser machine is not proved (the agreement is established on every input of
the parse suite).  Proved here, for every table and every input:

* `lexer_rules_are_the_modelled_ones` — the token rules of the code are the modelled ones (regenerated);
* **necessary conditions of acceptance** derived from the machine alone:
  `accepted_scripts_have_balanced_brackets` — the bracket tokens `{ } ( ) [ ]` of an accepted script
  are balanced and properly nested (each closer matches the innermost opener; the parser's bracket
  stack follows the token stream exactly: `token_moves_the_bracket_stack_by_its_nesting_step`);
  `accepted_scripts_end_outside_any_command` — at acceptance no command is pending and nothing is
  expected;
  `accepted_scripts_have_commands_and_tests_in_their_roles` — in the tree of an accepted script every
  name resolves in the table, every top-level command and every child of a block is a control or an
  action, every node in test position is a test, blocks hang only under definitions that accept
  children, and a command that must follow certain commands comes directly after a sibling with one of
  those names (so: a test in command position, an action in test position, a block after an action and
  `elsif`/`else` not after `if`/`elsif` are all rejected, whatever surrounds them).  The relation is
  threaded through every parser step by `Lemmas/StackThread.lean`; the only condition on the table is
  that names identify definitions, discharged for the live table by the kernel;
  `accepted_scripts_have_correctly_typed_arguments` — in the tree of an accepted script every node's definition was
  looked up for an identifier token of the script; every scalar argument is the text of a string / multi-line / number /
  tag token of the script, recorded under a slot of that definition whose declared types admit that kind of token and whose
  value list (if any) contains it, letter case aside; every
  bracketed list sits in a slot that admits string lists and has no value list; every tag parameter sits under a slot whose `extra_arg` admits
  its kind and, where it lists values, lists it (so an ill-typed, illegal or invented argument, or a bad value for a tag's
  parameter, is never part of an accepted tree).  Threaded by `Lemmas/TokThread.lean`; table
  condition: the two slots `reassign_arguments` moves a value between have the same types (kernel-checked, live table).
-/
namespace C01

/-- the lexer rule list of the code is the one the model implements, in the same order -/
theorem lexer_rules_are_the_modelled_ones :
    Generated.lexRuleNames = TokKind.all.map TokKind.name := by decide

/-- the lexer patterns of the code are, text for text, the ones the model's recognisers were written for -/
theorem lexer_patterns_are_the_modelled_ones : Generated.lexRulePatterns = TokKind.patterns := by decide

/-- every delivered token moves the parser's bracket stack by exactly its nesting step -/
theorem token_moves_the_bracket_stack_by_its_nesting_step (T : Table) (s s' : PState) (tok : Tok)
    (h : Machine.deliver T s tok = .ok s') : Brackets.dstep s.brackets tok.kind = some s'.brackets :=
  Brackets.deliver_br T s tok s' h

/-- brackets of an accepted script are balanced and properly nested -/
theorem accepted_scripts_have_balanced_brackets (T : Table) (text : Bytes) (prev : PState) (r : List Node)
    (h : Machine.parse T text prev = .accept r) :
    ∃ lr, Lex.lex text = some lr ∧ Brackets.Balanced (lr.toks.map (·.kind)) :=
  Brackets.accepted_is_balanced T text prev r h

/-- acceptance happens only with no command pending, no bracket open and nothing expected -/
theorem accepted_scripts_end_outside_any_command (s : PState) (e n : Nat) (r : List Node)
    (h : Machine.finish s e n = .accept r) : s.stack = [] ∧ s.brackets = [] ∧ s.expected = none ∧ r = s.result := by
  unfold Machine.finish Machine.endExpectation at h
  cases hb : s.brackets with
  | cons x rest => rw [hb] at h; simp at h
  | nil =>
    rw [hb] at h
    simp only at h
    cases he : s.expected with
    | some ex => rw [he] at h; simp at h
    | none =>
      rw [he] at h
      simp only at h
      cases hs : s.stack with
      | cons f rest => rw [hs] at h; simp at h
      | nil => rw [hs] at h; simp at h; exact ⟨rfl, rfl, rfl, h.symm⟩

/-- in the table regenerated from `/repo` a definition is found under its own name -/
theorem live_table_names_identify_definitions : Roles.TableN Generated.builtinTable := by decide +kernel

/-- **roles and positions**: the tree of an accepted script has controls/actions in command position,
    tests in test position, blocks only under block owners, and `must_follow` respected by every sibling list -/
theorem accepted_scripts_have_commands_and_tests_in_their_roles (T : Table) (hT : Roles.TableN T) (text : Bytes)
    (prev : PState) (r : List Node) (h : Machine.parse T text prev = .accept r) :
    Roles.SibOK T r ∧ ∀ n ∈ r, Roles.isCmd T n ∧ Roles.NodeR T n :=
  Roles.accepted_tree_roles hT text prev r h

theorem accepted_scripts_have_commands_and_tests_in_their_roles_live (text : Bytes) (prev : PState) (r : List Node)
    (h : Machine.parse Generated.builtinTable text prev = .accept r) :
    Roles.SibOK Generated.builtinTable r ∧ ∀ n ∈ r, Roles.isCmd Generated.builtinTable n ∧ Roles.NodeR Generated.builtinTable n :=
  Roles.accepted_tree_roles live_table_names_identify_definitions text prev r h

/-- what `NodeR` says about one node, spelled out -/
theorem role_facts_of_a_node (T : Table) (name : Bytes) (args extra : List Arg) (children : List Node) (c : List Bytes)
    (h : Roles.NodeR T (.mk name args extra children c)) :
    ∃ d, T.byName name = some d ∧
      (children ≠ [] → d.acceptChildren = true) ∧
      (∀ ch ∈ children, Roles.isCmd T ch ∧ Roles.NodeR T ch) ∧
      Roles.SibOK T children ∧
      (∀ k n, Arg.test k n ∈ args ++ extra → Roles.isTest T n ∧ Roles.NodeR T n) ∧
      (∀ k l, Arg.tests k l ∈ args ++ extra → ∀ n ∈ l, Roles.isTest T n ∧ Roles.NodeR T n) := by
  cases h with
  | mk _ _ _ _ _ d hd hkidsK hkids hblock hsib hargsK hargs harglK hargl =>
    exact ⟨d, hd, hblock, fun ch hc => ⟨hkidsK ch hc, hkids ch hc⟩, hsib,
      fun k n hm => ⟨hargsK k n hm, hargs k n hm⟩, fun k l hm n hn => ⟨harglK k l hm n hn, hargl k l hm n hn⟩⟩

/-- a node cannot be both in a command role and in a test role -/
theorem roles_are_exclusive (T : Table) (n : Node) (h1 : Roles.isCmd T n) (h2 : Roles.isTest T n) : False := by
  obtain ⟨d, hd, hk⟩ := h1
  obtain ⟨d', hd', hk'⟩ := h2
  rw [hd] at hd'
  cases hd'
  exact hk hk'

/-- in the live language `else` and `elsif` come directly after an `if` or an `elsif`, in every sibling list
    (top level or block) of every accepted script -/
theorem else_and_elsif_come_directly_after_if_or_elsif (l pre post : List Node) (n : Node)
    (h : Roles.SibOK Generated.builtinTable l) (hl : l = pre ++ n :: post)
    (hn : n.name = sb "else" ∨ n.name = sb "elsif") :
    ∃ p, Machine.lastName pre = some p ∧ (p = sb "if" ∨ p = sb "elsif") := by
  have h1 : (Generated.builtinTable.byName (sb "else")).map (·.mustFollow) = some (some [sb "if", sb "elsif"]) := by
    decide +kernel
  have h2 : (Generated.builtinTable.byName (sb "elsif")).map (·.mustFollow) = some (some [sb "if", sb "elsif"]) := by
    decide +kernel
  have hmf : ∃ d, Generated.builtinTable.byName n.name = some d ∧ d.mustFollow = some [sb "if", sb "elsif"] := by
    rcases hn with hn | hn <;> rw [hn]
    · cases hb : Generated.builtinTable.byName (sb "else") with
      | none => rw [hb] at h1; simp at h1
      | some d => rw [hb] at h1; exact ⟨d, rfl, by simpa using h1⟩
    · cases hb : Generated.builtinTable.byName (sb "elsif") with
      | none => rw [hb] at h2; simp at h2
      | some d => rw [hb] at h2; exact ⟨d, rfl, by simpa using h2⟩
  obtain ⟨d, hd, hm⟩ := hmf
  have hf := h pre n post hl d hd
  unfold Machine.followOk at hf
  rw [hm] at hf
  simp only at hf
  cases hp : Machine.lastName pre with
  | none => rw [hp] at hf; simp at hf
  | some p =>
    rw [hp] at hf
    refine ⟨p, rfl, ?_⟩
    have : p ∈ [sb "if", sb "elsif"] := by simpa using hf
    simpa using this

/-- non-vacuity: a script with `if … else …` is accepted by the model on the live table -/
example : Show.outcome (sb "if true { keep; } else { stop; }")
      (Machine.parse Generated.builtinTable (sb "if true { keep; } else { stop; }"))
    = "accept (6966 A[test=t:(74727565 A[] E[] C[] H[]);] E[] C[(6b656570 A[] E[] C[] H[])] H[])(656c7365 A[] E[] C[(73746f70 A[] E[] C[] H[])] H[])" := by
  decide +kernel

/-- the slots `hasflag` moves a value between carry the same types in the table regenerated from `/repo` -/
theorem live_table_reassign_ok : Typed.TableT Generated.builtinTable := by decide +kernel

/-- **typed arguments**: every argument of an accepted tree is a token of the script in a slot that admits its kind -/
theorem accepted_scripts_have_correctly_typed_arguments (T : Table) (hT : Typed.TableT T) (text : Bytes) (prev : PState)
    (r : List Node) (h : Machine.parse T text prev = .accept r) :
    ∃ lr, Lex.lex text = some lr ∧ ∀ n ∈ r, Typed.NodeT (fun tok => tok ∈ lr.toks) T n :=
  Typed.accepted_tree_typed hT text prev r h

theorem accepted_scripts_have_correctly_typed_arguments_live (text : Bytes) (prev : PState) (r : List Node)
    (h : Machine.parse Generated.builtinTable text prev = .accept r) :
    ∃ lr, Lex.lex text = some lr ∧ ∀ n ∈ r, Typed.NodeT (fun tok => tok ∈ lr.toks) Generated.builtinTable n :=
  Typed.accepted_tree_typed live_table_reassign_ok text prev r h

/-- what `NodeT` says about one scalar argument, spelled out: its slot, its token, the admitted kind and the admitted value -/
theorem typed_argument_facts (TokP : Tok → Prop) (T : Table) (name : Bytes) (args extra : List Arg) (children : List Node)
    (c : List Bytes) (k : String) (raw : Bytes) (h : Typed.NodeT TokP T (.mk name args extra children c))
    (ha : Arg.str k raw ∈ args) :
    ∃ d, TokThread.Named TokP T d ∧ d.name = name ∧ ∃ slot ∈ d.args, slot.name = k ∧ Typed.valueIn slot raw ∧
      ∃ tok t, TokP tok ∧ tok.text = raw ∧ Args.validType t slot.types = true ∧
        (((tok.kind = .string ∨ tok.kind = .multiline) ∧ t = .string) ∨ (tok.kind = .number ∧ t = .number) ∨
          (tok.kind = .tag ∧ t = .tag)) := by
  cases h with
  | mk _ _ _ _ _ d hnamed hname hargs hextra hkids htest htests =>
    obtain ⟨slot, hs, hsn, hval, t, ⟨tok, htok, htext, hk⟩, hvt⟩ := hargs _ ha
    exact ⟨d, hnamed, hname, slot, hs, hsn, hval, tok, t, htok, htext, hvt, hk⟩

/-- non-vacuity of the nesting discipline: `( [ ] )` is balanced, `( [ ) ]` is not -/
example : Brackets.Balanced [.left_parenthesis, .left_bracket, .right_bracket, .right_parenthesis] := by unfold Brackets.Balanced; decide
example : ¬ Brackets.Balanced [.left_parenthesis, .left_bracket, .right_parenthesis, .right_bracket] := by unfold Brackets.Balanced; decide

/-! ## the supported vocabulary -/

/-- **the table defines exactly the supported language**: every definition of the live table is a word of
    the frozen vocabulary (hand-written from the RFCs, not derived from the code) in its role, and every
    word has a definition — a definition added by accident (a helper class that happens to end in
    `Command`) or lost breaks this obligation -/
theorem live_table_speaks_exactly_the_supported_vocabulary :
    Spec.SpeaksOnly Generated.builtinTable = true ∧ Spec.SpeaksAll Generated.builtinTable = true := by
  constructor <;> decide +kernel

/-- a name that resolves in a table speaking only the vocabulary is a word of it, in the role the table gives it -/
theorem resolved_names_are_vocabulary_words (T : Table) (hT : Spec.SpeaksOnly T = true) (name : Bytes) (d : CmdDef)
    (h : T.byName name = some d) : (name, d.kind) ∈ Spec.vocabulary := by
  unfold Table.byName at h
  have hm := List.mem_of_find?_eq_some h
  have hn := List.find?_some h
  have hname : d.name = name := by simpa using hn
  have := List.all_eq_true.1 hT d hm
  rw [← hname]
  simpa using this

/-- **unknown commands are rejected**: every top-level command of an accepted script — and, through
    `role_facts_of_a_node`, every nested command and test — bears a name of the frozen vocabulary -/
theorem accepted_scripts_use_only_the_supported_vocabulary (text : Bytes) (prev : PState) (r : List Node)
    (h : Machine.parse Generated.builtinTable text prev = .accept r) :
    ∀ n ∈ r, ∃ k, (n.name, k) ∈ Spec.vocabulary ∧ k ≠ .test := by
  intro n hn
  obtain ⟨_, hr⟩ := accepted_scripts_have_commands_and_tests_in_their_roles_live text prev r h
  obtain ⟨⟨d, hd, hk⟩, _⟩ := hr n hn
  exact ⟨d.kind, resolved_names_are_vocabulary_words _ live_table_speaks_exactly_the_supported_vocabulary.1 _ _ hd, hk⟩

/-- the same for any node below: what `NodeR` promises about children and test arguments, in vocabulary terms -/
theorem nested_nodes_use_only_the_supported_vocabulary (name : Bytes) (args extra : List Arg) (children : List Node)
    (c : List Bytes) (h : Roles.NodeR Generated.builtinTable (.mk name args extra children c)) :
    (∀ ch ∈ children, ∃ k, (ch.name, k) ∈ Spec.vocabulary ∧ k ≠ .test) ∧
    (∀ k n, Arg.test k n ∈ args ++ extra → (n.name, Kind.test) ∈ Spec.vocabulary) ∧
    (∀ k l, Arg.tests k l ∈ args ++ extra → ∀ n ∈ l, (n.name, Kind.test) ∈ Spec.vocabulary) := by
  obtain ⟨_, _, _, hkids, _, hargs, hargl⟩ := role_facts_of_a_node _ _ _ _ _ _ h
  have hv := live_table_speaks_exactly_the_supported_vocabulary.1
  refine ⟨?_, ?_, ?_⟩
  · intro ch hc
    obtain ⟨⟨d, hd, hk⟩, _⟩ := hkids ch hc
    exact ⟨d.kind, resolved_names_are_vocabulary_words _ hv _ _ hd, hk⟩
  · intro k n hm
    obtain ⟨⟨d, hd, hk⟩, _⟩ := hargs k n hm
    have := resolved_names_are_vocabulary_words _ hv _ _ hd
    rwa [hk] at this
  · intro k l hm n hn
    obtain ⟨⟨d, hd, hk⟩, _⟩ := hargl k l hm n hn
    have := resolved_names_are_vocabulary_words _ hv _ _ hd
    rwa [hk] at this

/-- **the tags each command admits are exactly the supported ones** (frozen, hand-written): a tag that wandered from
    one command's definition into another's (a shared table entry, a copy-and-paste) breaks this obligation -/
theorem live_table_admits_exactly_the_supported_tags : Spec.TagsExactly Generated.builtinTable = true := by
  decide +kernel

/-- a tag admitted by the value list of a tag slot of a definition is one of the tags the frozen vocabulary gives that
    command (with `accepted_scripts_have_correctly_typed_arguments`: every tag recorded in an accepted tree sits in such a slot) -/
theorem listed_tags_are_supported_tags (T : Table) (hT : Spec.TagsExactly T = true) (d : CmdDef) (hd : d ∈ T)
    (slot : ArgDef) (hs : slot ∈ d.args) (htag : ArgType.tag ∈ slot.types) (t : Bytes)
    (ht : t ∈ (slot.values.getD []) ++ slot.extValues.map (·.1)) : t ∈ Spec.frozenTags d.name := by
  have h0 := List.all_eq_true.1 hT d hd
  rw [Bool.and_eq_true] at h0
  have h2 := List.all_eq_true.1 h0.1 t (by
    unfold Spec.tagsOf
    refine List.mem_flatMap.2 ⟨slot, hs, ?_⟩
    simp only [htag, decide_true, if_true]
    exact ht)
  simpa using h2

/-- every tag slot of the table restricts its tags to a list (none takes "any tag") -/
def TagSlotsListed (T : Table) : Bool :=
  T.all (fun d => d.args.all (fun a => !decide (ArgType.tag ∈ a.types) || a.values.isSome || !a.extValues.isEmpty))

theorem live_table_tag_slots_listed : TagSlotsListed Generated.builtinTable = true := by decide +kernel

/-- **every tag in an accepted tree is a tag of its command** (frozen vocabulary): a tag token recorded as an argument of a
    node of an accepted script is, lower-cased, one of the tags the hand-written vocabulary gives that node's command -/
theorem accepted_tags_are_supported_tags (TokP : Tok → Prop) (name : Bytes) (args extra : List Arg) (children : List Node)
    (c : List Bytes) (k : String) (raw : Bytes)
    (h : Typed.NodeT TokP Generated.builtinTable (.mk name args extra children c))
    (ha : Arg.str k raw ∈ args)
    (htagtok : ∀ tok : Tok, TokP tok → tok.text = raw → tok.kind = .tag) :
    B.lower raw ∈ Spec.frozenTags name := by
  obtain ⟨d, hnamed, hname, slot, hs, _, hval, tok, t, htok, htext, hvt, hk⟩ :=
    typed_argument_facts TokP Generated.builtinTable name args extra children c k raw h ha
  have hkind := htagtok tok htok htext
  have ht : t = .tag := by
    rcases hk with ⟨hk1, _⟩ | ⟨hk1, _⟩ | ⟨_, ht⟩
    · rcases hk1 with hk1 | hk1 <;> (rw [hkind] at hk1; cases hk1)
    · rw [hkind] at hk1; cases hk1
    · exact ht
  subst ht
  have htag : ArgType.tag ∈ slot.types := by
    simp only [Args.validType, Bool.or_eq_true, decide_eq_true_eq, Bool.and_eq_true, beq_iff_eq] at hvt
    rcases hvt with hvt | ⟨hvt, _⟩
    · exact hvt
    · cases hvt
  have hd : d ∈ Generated.builtinTable := by
    obtain ⟨tk, _, _, hl⟩ := hnamed
    unfold Table.lookup Table.findKey at hl
    exact List.mem_of_find?_eq_some hl
  have hlisted := List.all_eq_true.1 (List.all_eq_true.1 live_table_tag_slots_listed d hd) slot hs
  have hmem : B.lower raw ∈ (slot.values.getD []) ++ slot.extValues.map (·.1) := by
    rcases hval with ⟨h1, h2⟩ | h1 | h1
    · simp [htag, h1, h2] at hlisted
      cases hv : slot.values with
      | none => rw [hv] at hlisted; cases hlisted
      | some vs => rw [hv] at h1; cases h1
    · cases hv : slot.values with
      | none => simp [Args.inValues, hv] at h1
      | some vs =>
        simp only [Args.inValues, hv, decide_eq_true_eq] at h1
        simp [hv, h1]
    · simp only [Args.extLookup, Option.isSome_map] at h1
      cases hf : slot.extValues.find? (fun p => p.1 == B.lower raw) with
      | none => simp [hf] at h1
      | some p =>
        have hm := List.mem_of_find?_eq_some hf
        have hp := List.find?_some hf
        have : p.1 = B.lower raw := by simpa using hp
        refine List.mem_append_right _ (List.mem_map.2 ⟨p, hm, this⟩)
  rw [← hname]
  exact listed_tags_are_supported_tags _ live_table_admits_exactly_the_supported_tags d hd slot hs htag _ hmem

/-- **each tag takes exactly the parameter the frozen vocabulary gives it** — the kinds admitted (string / number / string list)
    and, where the RFCs close it, the value set (comparators, relational operators); a value added to or lost from such a list,
    a parameter that wandered to another tag, a type widened or narrowed breaks this obligation -/
theorem live_table_gives_tags_their_supported_parameters : Spec.ParamsExactly Generated.builtinTable = true := by
  decide +kernel

/-- **the command table is the supported language's**: the table regenerated from the code on every run equals, definition by
    definition and field by field, the frozen table the independent recogniser judges scripts with (`spec/command_table.json`).
    Any edit of a definition — a slot's types, a `required` flag, the order of slots, `must_follow`, `accept_children` — breaks
    this obligation; the search then pits the parser against the recogniser, which still speaks the frozen language -/
theorem live_table_is_the_supported_table : Generated.builtinTable = Spec.frozenTable := by
  decide +kernel

/-- the lexer rules of `sievelib/parser.py` (names, order, patterns, flags, white space) are the modelled ones -/
theorem lexer_is_the_modelled_one :
    Generated.lexRuleNames = TokKind.all.map TokKind.name ∧ Generated.lexRulePatterns = TokKind.patterns ∧
      Generated.parserPatterns = TokKind.auxPatterns := by decide

/-- **acceptance and the tree are functions of the token sequence**: two texts that lex to the same kinds and texts of tokens
    (white space, line breaks, positions differ) are accepted together, with the same tree — for every table -/
theorem same_tokens_same_verdict (T : Table) (t1 t2 : Bytes) (l1 l2 : Lex.Result) (h1 : Lex.lex t1 = some l1)
    (h2 : Lex.lex t2 = some l2) (he2 : l2.err = none) (hk : l1.toks.map Lex.kt = l2.toks.map Lex.kt) (prev1 prev2 : PState)
    (r : List Node) (h : Machine.parse T t1 prev1 = .accept r) : Machine.parse T t2 prev2 = .accept r :=
  Layout.same_tokens_same_tree T t1 t2 l1 l2 h1 h2 he2 hk prev1 prev2 r h

/-- **layout does not matter**: the tokens of an accepted script written with any other white space between them — every token
    still followed by a byte that cannot continue it (`Lex.SWeave`) — are accepted with the same tree -/
theorem accepted_whatever_the_layout (T : Table) (t1 t2 : Bytes) (l1 : Lex.Result) (h1 : Lex.lex t1 = some l1)
    (hw : Lex.SWeave (l1.toks.map Lex.kt) t2) (prev1 prev2 : PState) (r : List Node) (h : Machine.parse T t1 prev1 = .accept r) :
    Machine.parse T t2 prev2 = .accept r :=
  Layout.accepted_whatever_the_layout T t1 t2 l1 h1 hw prev1 prev2 r h

/-- a concrete layout normal form: the tokens of an accepted script (comments included), one per line, are accepted with
    the same tree -/
theorem accepted_with_one_token_per_line (T : Table) (t1 : Bytes) (l1 : Lex.Result) (h1 : Lex.lex t1 = some l1)
    (prev1 prev2 : PState) (r : List Node) (h : Machine.parse T t1 prev1 = .accept r) :
    Machine.parse T (Layout.onePerLine l1.toks) prev2 = .accept r :=
  Layout.accepted_one_token_per_line T t1 l1 h1 prev1 prev2 r h

/-- non-vacuity: the same five tokens in two layouts -/
example : (Lex.lex (sb "if true{keep;}")).map (fun (l : Lex.Result) => l.toks.map Lex.kt) =
    (Lex.lex (sb "  if\ttrue\r\n{\n  keep ;\n}\n")).map (fun (l : Lex.Result) => l.toks.map Lex.kt) := by decide +kernel

end C01
