import SieveModel.Spec.WF
import SieveModel.Model.Machine
import SieveModel.Model.Show
import SieveModel.Generated.Tables
import SieveModel.Generated.LexRules
/-!
# C01 — the parser accepts exactly the valid scripts (work in progress: see DESIGN.md)
-/
namespace C01

/-- the lexer rule list of the code is the one the model implements, in the same order -/
theorem lexer_rules_are_the_modelled_ones :
    Generated.lexRuleNames = TokKind.all.map TokKind.name := by decide

end C01
