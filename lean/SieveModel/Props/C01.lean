import SieveModel.Spec.WF
import SieveModel.Model.Machine
import SieveModel.Model.Show
import SieveModel.Generated.Tables
import SieveModel.Generated.LexRules
import SieveModel.Lemmas.Brackets
/-!
# C01 — the parser accepts exactly the valid scripts

The specification of the supported language is the independent recogniser `Spec.WF`; the equivalence
theorem between it and the parser machine is not proved (the agreement is established on every input of
the parse suite).  Proved here, for every table and every input:

* `lexer_rules_are_the_modelled_ones` — the token rules of the code are the modelled ones (regenerated);
* **necessary conditions of acceptance** derived from the machine alone:
  `accepted_scripts_have_balanced_brackets` — the bracket tokens `{ } ( ) [ ]` of an accepted script
  are balanced and properly nested (each closer matches the innermost opener; the parser's bracket
  stack follows the token stream exactly: `token_moves_the_bracket_stack_by_its_nesting_step`);
  `accepted_scripts_end_outside_any_command` — at acceptance no command is pending and nothing is
  expected.
-/
namespace C01

/-- the lexer rule list of the code is the one the model implements, in the same order -/
theorem lexer_rules_are_the_modelled_ones :
    Generated.lexRuleNames = TokKind.all.map TokKind.name := by decide

/-- every delivered token moves the parser's bracket stack by exactly its nesting step -/
theorem token_moves_the_bracket_stack_by_its_nesting_step (T : Table) (s s' : PState) (tok : Tok)
    (h : Machine.deliver T s tok = .ok s') : Brackets.dstep s.brackets tok.kind = some s'.brackets :=
  Brackets.deliver_br T s tok s' h

/-- brackets of an accepted script are balanced and properly nested -/
theorem accepted_scripts_have_balanced_brackets (T : Table) (text : Bytes) (prev : PState) (r : List Node)
    (h : Machine.parse T text prev = .accept r) :
    ∃ lr, Lex.lex text = some lr ∧ Brackets.Balanced (lr.toks.map (·.kind)) :=
  Brackets.accepted_is_balanced T text prev r h

/-- acceptance happens only with no command pending, no bracket open and nothing expected -/
theorem accepted_scripts_end_outside_any_command (s : PState) (e n : Nat) (r : List Node)
    (h : Machine.finish s e n = .accept r) : s.stack = [] ∧ s.brackets = [] ∧ s.expected = none ∧ r = s.result := by
  unfold Machine.finish Machine.endExpectation at h
  cases hb : s.brackets with
  | cons x rest => rw [hb] at h; simp at h
  | nil =>
    rw [hb] at h
    simp only at h
    cases he : s.expected with
    | some ex => rw [he] at h; simp at h
    | none =>
      rw [he] at h
      simp only at h
      cases hs : s.stack with
      | cons f rest => rw [hs] at h; simp at h
      | nil => rw [hs] at h; simp at h; exact ⟨rfl, rfl, rfl, h.symm⟩

/-- non-vacuity of the nesting discipline: `( [ ] )` is balanced, `( [ ) ]` is not -/
example : Brackets.Balanced [.left_parenthesis, .left_bracket, .right_bracket, .right_parenthesis] := by unfold Brackets.Balanced; decide
example : ¬ Brackets.Balanced [.left_parenthesis, .left_bracket, .right_parenthesis, .right_bracket] := by unfold Brackets.Balanced; decide

end C01
