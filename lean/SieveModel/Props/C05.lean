import SieveModel.Lemmas.ClientRead
import SieveModel.Generated.MsConsts
import SieveModel.Lemmas.Session
/-!
# C05 — ManageSieve replies are read identically however the bytes are segmented

`Net` = the bytes the server sends plus a schedule of per-`recv` caps (every `recv` may return
fewer bytes than asked for, down to one).  `Same a b` = two reader states with the same pending
bytes (`buffer ++ stream`), split differently between buffer and socket and with *unrelated*
schedules.  All theorems hold for every byte string, every split and every pair of schedules.
-/
namespace C05
open Reader Client

/-- a literal `{n}` is consumed as exactly the next `n` pending octets, in however many segments
    they arrive; fewer than `n` pending ⇒ `Error` -/
theorem literal_is_exactly_n_octets (n : Nat) (st : RState) :
    (n ≤ (pending st).length →
      ∃ st', readBlock n st = .ok ((pending st).take n, st') ∧ pending st' = (pending st).drop n ∧
        st'.errcode = st.errcode ∧ st'.errmsg = st.errmsg ∧ st'.net.later = st.net.later) ∧
    ((pending st).length < n → readBlock n st = .error .error) :=
  readBlock_spec n st

/-- a whole reply (lines, literals, final status, `NO` text) is read identically from any two
    deliveries of the same bytes; what is left for the next operation is the same too -/
theorem reply_independent_of_segmentation (nbl : Option Nat) (buf₁ str₁ buf₂ str₂ : Bytes)
    (sched₁ sched₂ : List Nat) (later ec em : _) (h : buf₁ ++ str₁ = buf₂ ++ str₂) :
    RelRes (readResponse nbl ⟨buf₁, ⟨str₁, sched₁, later⟩, ec, em⟩)
           (readResponse nbl ⟨buf₂, ⟨str₂, sched₂, later⟩, ec, em⟩) :=
  readResponse_congr nbl _ _ ⟨h, rfl, rfl, rfl⟩

/-- in particular: any schedule gives what one unsegmented delivery gives -/
theorem reply_equals_unsegmented_delivery (nbl : Option Nat) (buf str : Bytes) (sched : List Nat)
    (later ec em : _) :
    RelRes (readResponse nbl ⟨buf, ⟨str, sched, later⟩, ec, em⟩)
           (readResponse nbl ⟨buf ++ str, ⟨[], [], later⟩, ec, em⟩) :=
  readResponse_congr nbl _ _ ⟨by simp [pending], rfl, rfl, rfl⟩

/-- every command/reply exchange: same result, same bytes written, same state left behind -/
theorem exchange_independent_of_segmentation (a b : Client) (h : SameC a b) (name : Bytes)
    (args : List WArg) (extra : List Bytes) (nbl : Option Nat) :
    RelC (sendCommand a name args extra nbl) (sendCommand b name args extra nbl) :=
  sendCommand_congr a b h name args extra nbl

theorem havespace_independent (a b : Client) (h : SameC a b) (n : Bytes) (k : Nat) :
    RelC (havespace a n k) (havespace b n k) := havespace_congr a b h n k
theorem putscript_independent (a b : Client) (h : SameC a b) (n c : Bytes) :
    RelC (putscript a n c) (putscript b n c) := putscript_congr a b h n c
theorem deletescript_independent (a b : Client) (h : SameC a b) (n : Bytes) :
    RelC (deletescript a n) (deletescript b n) := deletescript_congr a b h n
theorem setactive_independent (a b : Client) (h : SameC a b) (n : Bytes) :
    RelC (setactive a n) (setactive b n) := setactive_congr a b h n
theorem checkscript_independent (a b : Client) (h : SameC a b) (c : Bytes) :
    RelC (checkscript a c) (checkscript b c) := checkscript_congr a b h c
theorem listscripts_independent (a b : Client) (h : SameC a b) :
    RelC (listscripts a) (listscripts b) := listscripts_congr a b h
theorem getscript_independent (a b : Client) (h : SameC a b) (n : Bytes) :
    RelC (getscript a n) (getscript b n) := getscript_congr a b h n
/-- the multi-command emulated rename included: every intermediate reply is re-synchronised -/
theorem renamescript_independent (a b : Client) (h : SameC a b) (o n : Bytes) :
    RelC (renamescript a o n) (renamescript b o n) := renamescript_congr a b h o n

theorem capability_independent (a b : Client) (h : SameC a b) : RelC (capability a) (capability b) := capability_congr a b h
theorem logout_independent (a b : Client) (h : SameC a b) : RelC (logout a) (logout b) := logout_congr a b h
/-- a capability block (the greeting, or the block sent after a TLS handshake) -/
theorem capabilities_independent (a b : Client) (h : SameC a b) : RelC (getCapabilities a) (getCapabilities b) :=
  getCapabilities_congr a b h
/-- the whole SASL exchange, whichever mechanism is chosen (LOGIN's several steps included) -/
theorem authenticate_independent (a b : Client) (h : SameC a b) (login password authz : Bytes) (mech : Option Bytes) :
    RelC (authenticate a login password authz mech) (authenticate b login password authz mech) :=
  authenticate_congr a b h login password authz mech
/-- **`connect` without STARTTLS**: greeting, mechanism choice, AUTHENTICATE exchange and final state are the
    same for any two deliveries of the same server bytes.  With STARTTLS the statement is deliberately
    false — what reached the buffer before the handshake is discarded, what is still in the socket is
    not (the plaintext-injection guard, C10) — so it is not claimed there -/
theorem connect_without_tls_independent (c : Client) (env : ConnEnv) (n1 n2 : Net) (hs : n1.stream = n2.stream)
    (hl : n1.later = n2.later) (login password authz : Bytes) (mech : Option Bytes) :
    RelC (connect c env n1 login password authz false mech) (connect c env n2 login password authz false mech) :=
  connect_plain_congr c env n1 n2 hs hl login password authz mech

/-- **whole sessions**: for every list of public operations, two clients that differ only in how the pending bytes are
    split between buffer and socket and in their recv schedules give the same result for every operation, in order -/
theorem session_independent_of_segmentation (ops : List Op) (a b : Client) (h : SameC a b) :
    (runOps a ops).1 = (runOps b ops).1 ∧ SameC (runOps a ops).2 (runOps b ops).2 :=
  runOps_congr ops a b h

/-- … also when the session begins with `connect` (without STARTTLS) on two deliveries of the same server bytes -/
theorem connected_session_independent_of_segmentation (c : Client) (env : ConnEnv) (n1 n2 : Net) (hs : n1.stream = n2.stream)
    (hl : n1.later = n2.later) (login password authz : Bytes) (mech : Option Bytes) (ops : List Op) :
    (connect c env n1 login password authz false mech).1 = (connect c env n2 login password authz false mech).1 ∧
    (runOps (connect c env n1 login password authz false mech).2 ops).1 =
      (runOps (connect c env n2 login password authz false mech).2 ops).1 :=
  connect_then_session_congr c env n1 n2 hs hl login password authz mech ops

/-- the constants of the reader regenerated from the code are the modelled ones: the line terminator and the size asked of
    every `recv` while looking for a line end -/
theorem reader_constants_are_the_modelled_ones :
    Generated.crlf = Reader.CRLF.map (·.toNat) ∧ Generated.readSize = Reader.readSize := by decide

/-- non-vacuity: a literal delivered one byte at a time is read whole and the status line after it
    is still there for the reader -/
example : (readBlock 3 ⟨[], ⟨sb "abcOK", [1, 1, 1, 1], []⟩, [], []⟩).toOption.map (·.1) = some (sb "abc") := by
  decide

/-- the regular expressions `sievelib/managesieve.py` uses now are the ones the model implements -/
theorem client_patterns_are_the_modelled_ones : Generated.clientPatterns = Client.patterns := by decide

end C05
