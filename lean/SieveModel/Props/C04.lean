import SieveModel.Model.Serialize
import SieveModel.Model.Lexer
/-!
# C04 — print/parse round trip (lemmas about the printer's treatment of values)
-/
namespace C04
open Ser

/-- a string-list item that is a quoted token is printed verbatim (the D13 repair) -/
theorem quoted_item_printed_verbatim (body : Bytes) : renderItem ([34] ++ body ++ [34]) = [34] ++ body ++ [34] := by
  unfold renderItem
  have h3 : ([34] ++ body ++ [34] : Bytes).getLast? = some 34 := by
    rw [List.getLast?_append]; simp
  rw [if_pos]
  simp only [Bool.and_eq_true, decide_eq_true_eq, beq_iff_eq]
  exact ⟨⟨by simp, by simp⟩, h3⟩

/-- a quoted string or a bracketed list is printed exactly as recorded; a multi-line block gets
    exactly one line feed appended (so that the terminating `.` stays alone on its line) -/
theorem scalar_printed_verbatim_or_with_lf (v : Bytes) :
    renderScalar true v = v ∨ renderScalar true v = v ++ [10] := by
  unfold renderScalar
  simp only [if_true]
  split <;> simp

theorem number_printed_verbatim (v : Bytes) : renderScalar false v = v := by
  simp [renderScalar]

end C04
