import SieveModel.Generated.LexRules
import SieveModel.Model.Serialize
import SieveModel.Model.Lexer
import SieveModel.Lemmas.Printable
import SieveModel.Generated.Tables
import SieveModel.Lemmas.Reprint
/-!
# C04 — print/parse round trip

* **printing is total on what the parser accepts** (`accepted_script_can_be_printed`): for every table
  satisfying the decidable condition `Printable.TableP` (names resolve to their own definition, slot
  names unique, a slot that takes string lists is neither a tag slot nor a test-list slot, `hasflag`'s
  two slots are value slots) and every input, if the parser model accepts, the serializer model returns
  a text — `tosieve` never raises on an accepted tree.  Proof: every stack frame and every finished
  command stays "printable" through every parser step (`Lemmas/Printable.lean`).  `TableP` is discharged
  for the table regenerated from `/repo` by kernel evaluation (`live_table_printable`).
* lemmas about the printer's treatment of values (quoted items and values verbatim, one LF after
  multi-line text).
* **the printed text lexes back to exactly the tokens of the tree** (`printed_script_lexes_to_its_tokens`): for every
  table satisfying the decidable conditions `Reprint.TableL` (names are identifiers; only controls and tests take a block;
  a slot or tag parameter that admits strings prints them as strings — so that a multi-line block gets its line feed — and
  is not a tag slot), `Printable.TableP`, `Typed.TableT`, `Roles.TableN`, and every input the parser model accepts: if the
  serializer returns `out`, the lexer model reads `out` without error and the kinds and texts of its tokens are
  `Reprint.flatNs T r` — per node its name, the recorded values in definition order, each value as the very token it was
  read from (a quoted string, a number, a tag, a multi-line block — whatever bytes it contains), lists between brackets
  with commas, tests between parentheses, `;` or a braced block.  Proof: a token is read again as the same token in front
  of any byte that cannot continue it (`Lemmas/Relex.lean`, by cases over the fifteen lexer rules); every value of an
  accepted tree is a token of the input (`Lemmas/Typed.lean`, list items included); the printer separates what it writes
  by such bytes (`Lemmas/Reprint.lean`, by structural recursion over the tree).  The table conditions are discharged for
  the table regenerated from `/repo` by kernel evaluation (`live_table_reprintable`).
The last step of the round trip (the parser rebuilds an equal tree from those tokens) is decided by the round-trip oracle
on every accepted input.
-/
namespace C04
open Ser

/-- a string-list item that is a quoted token is printed verbatim (the D13 repair) -/
theorem quoted_item_printed_verbatim (body : Bytes) : renderItem ([34] ++ body ++ [34]) = [34] ++ body ++ [34] := by
  unfold renderItem
  have h3 : ([34] ++ body ++ [34] : Bytes).getLast? = some 34 := by
    rw [List.getLast?_append]; simp
  rw [if_pos]
  simp only [Bool.and_eq_true, decide_eq_true_eq, beq_iff_eq]
  exact ⟨⟨by simp, by simp⟩, h3⟩

/-- a quoted string or a bracketed list is printed exactly as recorded; a multi-line block gets
    exactly one line feed appended (so that the terminating `.` stays alone on its line) -/
theorem scalar_printed_verbatim_or_with_lf (v : Bytes) :
    renderScalar true v = v ∨ renderScalar true v = v ++ [10] := by
  unfold renderScalar
  simp only [if_true]
  split <;> simp

theorem number_printed_verbatim (v : Bytes) : renderScalar false v = v := by
  simp [renderScalar]

/-- the table regenerated from `/repo` meets the printability conditions -/
theorem live_table_printable : Printable.TableP Generated.builtinTable := by decide +kernel

/-- **`tosieve` never raises on an accepted script** -/
theorem accepted_script_can_be_printed (T : Table) (hT : Printable.TableP T) (text : Bytes) (prev : PState) (r : List Node)
    (h : Machine.parse T text prev = .accept r) : ∃ out, Ser.script T r = some out := by
  have := Printable.accepted_is_printable hT text prev r h
  cases hs : Ser.script T r with
  | none => exact absurd hs this
  | some out => exact ⟨out, rfl⟩

theorem accepted_script_can_be_printed_live (text : Bytes) (prev : PState) (r : List Node)
    (h : Machine.parse Generated.builtinTable text prev = .accept r) : ∃ out, Ser.script Generated.builtinTable r = some out :=
  accepted_script_can_be_printed _ live_table_printable text prev r h

/-- the lexer rules of `sievelib/parser.py` (names, order, patterns, flags, white space) are the modelled ones -/
theorem lexer_is_the_modelled_one :
    Generated.lexRuleNames = TokKind.all.map TokKind.name ∧ Generated.lexRulePatterns = TokKind.patterns ∧
      Generated.parserPatterns = TokKind.auxPatterns := by decide

/-- the table regenerated from `/repo` meets the conditions under which printed text lexes back -/
theorem live_table_reprintable :
    Reprint.TableL Generated.builtinTable ∧ Typed.TableT Generated.builtinTable ∧ Roles.TableN Generated.builtinTable := by
  decide +kernel

/-- **what the printer writes lexes back, without error, to exactly the tokens of the tree** -/
theorem printed_script_lexes_to_its_tokens (T : Table) (hL : Reprint.TableL T) (hP : Printable.TableP T) (hT : Typed.TableT T)
    (hN : Roles.TableN T) (text : Bytes) (prev : PState) (r : List Node) (h : Machine.parse T text prev = .accept r)
    (out : Bytes) (hs : Ser.script T r = some out) :
    ∃ lr, Lex.lex out = some lr ∧ lr.err = none ∧ lr.toks.map Lex.kt = Reprint.flatNs T r := by
  obtain ⟨lr0, hl0, hnt⟩ := Typed.accepted_tree_typed hT text prev r h
  obtain ⟨_, hnr⟩ := Roles.accepted_tree_roles hN text prev r h
  have C : Reprint.Ctx (fun tok => tok ∈ lr0.toks) T := ⟨hL, hP, fun tok htok => Lex.lex_genuine text lr0 hl0 tok htok⟩
  have hpw := Reprint.nodes_pw C r 0 out (fun n hn => ⟨⟨hnt n hn, (hnr n hn).2⟩, (hnr n hn).1⟩) hs
  have hsw := hpw [] [] (Lex.SWeave.nil [] (by intro c hc; simp at hc))
  rw [List.append_nil, List.append_nil] at hsw
  exact Lex.lex_of_sweave _ _ hsw

theorem printed_script_lexes_to_its_tokens_live (text : Bytes) (prev : PState) (r : List Node)
    (h : Machine.parse Generated.builtinTable text prev = .accept r) (out : Bytes) (hs : Ser.script Generated.builtinTable r = some out) :
    ∃ lr, Lex.lex out = some lr ∧ lr.err = none ∧ lr.toks.map Lex.kt = Reprint.flatNs Generated.builtinTable r :=
  printed_script_lexes_to_its_tokens _ live_table_reprintable.1 live_table_printable live_table_reprintable.2.1
    live_table_reprintable.2.2 text prev r h out hs

/-- **values survive**: every scalar value recorded under a name in a top-level command of an accepted script is, byte for
    byte, a token of the printed text, of the kind it is read as -/
theorem recorded_values_are_tokens_of_the_printed_text (T : Table) (hL : Reprint.TableL T) (hP : Printable.TableP T)
    (hT : Typed.TableT T) (hN : Roles.TableN T) (text : Bytes) (prev : PState) (r : List Node)
    (h : Machine.parse T text prev = .accept r) (out : Bytes) (hs : Ser.script T r = some out) :
    ∃ lr, Lex.lex out = some lr ∧ lr.err = none ∧
      ∀ n ∈ r, ∀ k v, assocGet n.args k = some (.str k v) → ∃ tok ∈ lr.toks, tok.text = v ∧ tok.kind = Reprint.kindOf v := by
  obtain ⟨lr, h1, h2, h3⟩ := printed_script_lexes_to_its_tokens T hL hP hT hN text prev r h out hs
  refine ⟨lr, h1, h2, ?_⟩
  intro n hn k v hk
  obtain ⟨lr0, _, hnt⟩ := Typed.accepted_tree_typed hT text prev r h
  have hmem : (Reprint.kindOf v, v) ∈ Reprint.flatNs T r := by
    apply Reprint.flatN_sub_flatNs T r n hn
    cases hnt n hn with
    | mk name args extra children comments d hnamed hname hargs hextra hkids htest htests =>
      have hd : d ∈ T := Typed.named_mem hnamed
      have hbn : T.byName name = some d := by rw [← hname]; exact Printable.defP_byName (hP d hd)
      have hin : Arg.str k v ∈ args := List.mem_of_find?_eq_some hk
      obtain ⟨a, ha, hak, _⟩ := hargs _ hin
      exact Reprint.recorded_value_in_flatN T name args extra children comments d hbn k v hk a ha hak
  rw [← h3] at hmem
  simp only [List.mem_map] at hmem
  obtain ⟨tok, htok, hkt⟩ := hmem
  simp only [Lex.kt, Prod.mk.injEq] at hkt
  exact ⟨tok, htok, hkt.2, hkt.1⟩

/-- … and so is every item of every string list recorded under a name in a top-level command -/
theorem recorded_list_items_are_tokens_of_the_printed_text (T : Table) (hL : Reprint.TableL T) (hP : Printable.TableP T)
    (hT : Typed.TableT T) (hN : Roles.TableN T) (text : Bytes) (prev : PState) (r : List Node)
    (h : Machine.parse T text prev = .accept r) (out : Bytes) (hs : Ser.script T r = some out) :
    ∃ lr, Lex.lex out = some lr ∧ lr.err = none ∧
      ∀ n ∈ r, ∀ k items, assocGet n.args k = some (.strs k items) → ∀ x ∈ items, ∃ tok ∈ lr.toks, tok.text = x ∧ tok.kind = .string := by
  obtain ⟨lr, h1, h2, h3⟩ := printed_script_lexes_to_its_tokens T hL hP hT hN text prev r h out hs
  refine ⟨lr, h1, h2, ?_⟩
  intro n hn k items hk x hx
  obtain ⟨lr0, hl0, hnt⟩ := Typed.accepted_tree_typed hT text prev r h
  have hmem : (TokKind.string, x) ∈ Reprint.flatNs T r := by
    apply Reprint.flatN_sub_flatNs T r n hn
    cases hnt n hn with
    | mk name args extra children comments d hnamed hname hargs hextra hkids htest htests =>
      have hd : d ∈ T := Typed.named_mem hnamed
      have hbn : T.byName name = some d := by rw [← hname]; exact Printable.defP_byName (hP d hd)
      have hin : Arg.strs k items ∈ args := List.mem_of_find?_eq_some hk
      obtain ⟨⟨a, ha, hak, _⟩, hitems⟩ := hargs _ hin
      have hslot := (Printable.defP_slot (hP d hd) a ha).1
      rw [hak] at hslot
      have hg := Reprint.items_genuine (fun tok htok => Lex.lex_genuine text lr0 hl0 tok htok) items hitems x hx
      have := Reprint.recorded_item_in_flatN T name args extra children comments d hbn k items hk a ha hslot x hx
      rwa [(Reprint.renderItem_string x hg).1] at this
  rw [← h3] at hmem
  simp only [List.mem_map] at hmem
  obtain ⟨tok, htok, hkt⟩ := hmem
  simp only [Lex.kt, Prod.mk.injEq] at hkt
  exact ⟨tok, htok, hkt.2, hkt.1⟩

/-- the printed text never contains a byte sequence that is no token -/
theorem printed_script_has_no_lexical_error (text : Bytes) (prev : PState) (r : List Node)
    (h : Machine.parse Generated.builtinTable text prev = .accept r) (out : Bytes) (hs : Ser.script Generated.builtinTable r = some out) :
    ∃ lr, Lex.lex out = some lr ∧ lr.err = none := by
  obtain ⟨lr, h1, h2, _⟩ := printed_script_lexes_to_its_tokens_live text prev r h out hs
  exact ⟨lr, h1, h2⟩

/-- non-vacuity: a script with an escaped quote, a list, a multi-line block and a nested test list is accepted, printed,
    and the printed text lexes to the tokens of its tree -/
example :
    (match Machine.parse Generated.builtinTable
        (sb "require [\"fileinto\",\"reject\"]; if anyof(header :is \"a\\\"b\" [\"x\",\"y, z\"], not true) { fileinto \"in]box\"; reject text:\nno $1\n.\n; }") with
     | .accept r =>
       (match Ser.script Generated.builtinTable r with
        | some out => (match Lex.lex out with
            | some lr => lr.err.isNone && decide (lr.toks.map Lex.kt = Reprint.flatNs Generated.builtinTable r) && decide (lr.toks.length = 30)
            | none => false)
        | none => false)
     | _ => false) = true := by decide +kernel

end C04
