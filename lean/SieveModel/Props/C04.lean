import SieveModel.Generated.LexRules
import SieveModel.Model.Serialize
import SieveModel.Model.Lexer
import SieveModel.Lemmas.Printable
import SieveModel.Generated.Tables
/-!
# C04 — print/parse round trip

* **printing is total on what the parser accepts** (`accepted_script_can_be_printed`): for every table
  satisfying the decidable condition `Printable.TableP` (names resolve to their own definition, slot
  names unique, a slot that takes string lists is neither a tag slot nor a test-list slot, `hasflag`'s
  two slots are value slots) and every input, if the parser model accepts, the serializer model returns
  a text — `tosieve` never raises on an accepted tree.  Proof: every stack frame and every finished
  command stays "printable" through every parser step (`Lemmas/Printable.lean`).  `TableP` is discharged
  for the table regenerated from `/repo` by kernel evaluation (`live_table_printable`).
* lemmas about the printer's treatment of values (quoted items and values verbatim, one LF after
  multi-line text).
The second half of the round trip (the printed text parses back to the same tree) needs the
lexer/parser equivalence theorems and is decided by the round-trip oracle on every accepted input.
-/
namespace C04
open Ser

/-- a string-list item that is a quoted token is printed verbatim (the D13 repair) -/
theorem quoted_item_printed_verbatim (body : Bytes) : renderItem ([34] ++ body ++ [34]) = [34] ++ body ++ [34] := by
  unfold renderItem
  have h3 : ([34] ++ body ++ [34] : Bytes).getLast? = some 34 := by
    rw [List.getLast?_append]; simp
  rw [if_pos]
  simp only [Bool.and_eq_true, decide_eq_true_eq, beq_iff_eq]
  exact ⟨⟨by simp, by simp⟩, h3⟩

/-- a quoted string or a bracketed list is printed exactly as recorded; a multi-line block gets
    exactly one line feed appended (so that the terminating `.` stays alone on its line) -/
theorem scalar_printed_verbatim_or_with_lf (v : Bytes) :
    renderScalar true v = v ∨ renderScalar true v = v ++ [10] := by
  unfold renderScalar
  simp only [if_true]
  split <;> simp

theorem number_printed_verbatim (v : Bytes) : renderScalar false v = v := by
  simp [renderScalar]

/-- the table regenerated from `/repo` meets the printability conditions -/
theorem live_table_printable : Printable.TableP Generated.builtinTable := by decide +kernel

/-- **`tosieve` never raises on an accepted script** -/
theorem accepted_script_can_be_printed (T : Table) (hT : Printable.TableP T) (text : Bytes) (prev : PState) (r : List Node)
    (h : Machine.parse T text prev = .accept r) : ∃ out, Ser.script T r = some out := by
  have := Printable.accepted_is_printable hT text prev r h
  cases hs : Ser.script T r with
  | none => exact absurd hs this
  | some out => exact ⟨out, rfl⟩

theorem accepted_script_can_be_printed_live (text : Bytes) (prev : PState) (r : List Node)
    (h : Machine.parse Generated.builtinTable text prev = .accept r) : ∃ out, Ser.script Generated.builtinTable r = some out :=
  accepted_script_can_be_printed _ live_table_printable text prev r h

/-- the lexer rules of `sievelib/parser.py` (names, order, patterns, flags, white space) are the modelled ones -/
theorem lexer_is_the_modelled_one :
    Generated.lexRuleNames = TokKind.all.map TokKind.name ∧ Generated.lexRulePatterns = TokKind.patterns ∧
      Generated.parserPatterns = TokKind.auxPatterns := by decide

end C04
