import SieveModel.Model.Client
import SieveModel.Generated.MsConsts
/-! # C16 — SASL mechanism selection and payloads -/
namespace C16
open Client

/-- the preference order the property states, re-checked against the constant regenerated from the code -/
theorem preference_order_is_the_stated_one :
    Generated.supportedAuthMechs = ["DIGEST-MD5", "PLAIN", "LOGIN", "OAUTHBEARER"] := by decide

/-- a selected mechanism is implemented by the client and announced by the server -/
theorem selected_is_supported_and_announced (authmech : Option Bytes) (srv : List Bytes) (m : Bytes)
    (h : selectMech authmech srv = some m) : m ∈ supportedMechs ∧ m ∈ srv := by
  unfold selectMech at h
  have hf := List.find?_some h
  have hm := List.mem_of_find?_eq_some h
  refine ⟨?_, by simpa using hf⟩
  split at hm
  · rename_i m'
    split at hm
    · rename_i hin
      simp at hm; subst hm; simpa using hin
    · exact hm
  · exact hm

/-- if the caller names an implemented mechanism, that one and no other is used -/
theorem named_mechanism_is_the_only_candidate (a : Bytes) (srv : List Bytes) (m : Bytes)
    (ha : a ∈ supportedMechs) (h : selectMech (some a) srv = some m) : m = a := by
  unfold selectMech at h
  simp only [ha, decide_true, if_true] at h
  have hm := List.mem_of_find?_eq_some h
  simpa using hm

/-- nothing announced that the client implements ⇒ no mechanism (and `authenticate` sends nothing) -/
theorem none_selected_when_none_announced (authmech : Option Bytes) (srv : List Bytes)
    (h : ∀ m ∈ supportedMechs, m ∉ srv) : selectMech authmech srv = none := by
  unfold selectMech
  rw [List.find?_eq_none]
  intro x hx
  have hxs : x ∈ supportedMechs := by
    split at hx
    · rename_i m'
      split at hx
      · rename_i hin; simp at hx; subst hx; simpa using hin
      · exact hx
    · exact hx
  simpa using h x hxs

end C16
