import SieveModel.Model.Client
import SieveModel.Lemmas.AuthWrites
import SieveModel.Lemmas.Base64
import SieveModel.Generated.MsConsts
/-! # C16 — SASL mechanism selection and payloads -/
namespace C16
open Client

/-- the preference order the property states, re-checked against the constant regenerated from the code -/
theorem preference_order_is_the_stated_one :
    Generated.supportedAuthMechs = ["DIGEST-MD5", "PLAIN", "LOGIN", "OAUTHBEARER"] := by decide

/-- a selected mechanism is implemented by the client and announced by the server -/
theorem selected_is_supported_and_announced (authmech : Option Bytes) (srv : List Bytes) (m : Bytes)
    (h : selectMech authmech srv = some m) : m ∈ supportedMechs ∧ m ∈ srv := by
  unfold selectMech at h
  have hf := List.find?_some h
  have hm := List.mem_of_find?_eq_some h
  refine ⟨?_, by simpa using hf⟩
  split at hm
  · rename_i m'
    split at hm
    · rename_i hin
      simp at hm; subst hm; simpa using hin
    · exact hm
  · exact hm

/-- if the caller names an implemented mechanism, that one and no other is used -/
theorem named_mechanism_is_the_only_candidate (a : Bytes) (srv : List Bytes) (m : Bytes)
    (ha : a ∈ supportedMechs) (h : selectMech (some a) srv = some m) : m = a := by
  unfold selectMech at h
  simp only [ha, decide_true, if_true] at h
  have hm := List.mem_of_find?_eq_some h
  simpa using hm

/-- nothing announced that the client implements ⇒ no mechanism (and `authenticate` sends nothing) -/
theorem none_selected_when_none_announced (authmech : Option Bytes) (srv : List Bytes)
    (h : ∀ m ∈ supportedMechs, m ∉ srv) : selectMech authmech srv = none := by
  unfold selectMech
  rw [List.find?_eq_none]
  intro x hx
  have hxs : x ∈ supportedMechs := by
    split at hx
    · rename_i m'
      split at hx
      · rename_i hin; simp at hx; subst hx; simpa using hin
      · exact hx
    · exact hx
  simpa using h x hxs


/-! ### payloads -/

/-- split at NUL bytes -/
def splitNul : Bytes → List Bytes
  | [] => [[]]
  | c :: rest =>
    match splitNul rest with
    | [] => [[c]]
    | p :: ps => if c == 0 then [] :: p :: ps else (c :: p) :: ps

theorem splitNul_nulfree (a : Bytes) (h : ∀ c ∈ a, c ≠ 0) : splitNul a = [a] := by
  induction a with
  | nil => rfl
  | cons c cs ih =>
    have hc : (c == 0) = false := by simpa using h c (by simp)
    simp [splitNul, ih (fun x hx => h x (by simp [hx])), hc]

theorem splitNul_append (a b : Bytes) (h : ∀ c ∈ a, c ≠ 0) : splitNul (a ++ 0 :: b) = a :: splitNul b := by
  induction a with
  | nil =>
    simp only [List.nil_append, splitNul]
    cases hs : splitNul b with
    | nil =>
      -- splitNul never returns []
      exfalso
      clear h
      induction b with
      | nil => simp [splitNul] at hs
      | cons x xs ih =>
        simp only [splitNul] at hs
        cases hx : splitNul xs with
        | nil => exact ih hx
        | cons p ps => rw [hx] at hs; simp only at hs; split at hs <;> simp at hs
    | cons p ps => simp
  | cons c cs ih =>
    have hc : (c == 0) = false := by simpa using h c (by simp)
    simp only [List.cons_append, splitNul, ih (fun x hx => h x (by simp [hx])), hc]
    simp

/-- RFC 4616 PLAIN: the base64 argument decodes to `authzid NUL authcid NUL passwd` and splitting at
    the NULs gives back exactly the caller's three values (for NUL-free credentials) -/
theorem plain_carries_exactly_the_credentials (login pw authz : Bytes)
    (h1 : ∀ c ∈ login, c ≠ 0) (h2 : ∀ c ∈ pw, c ≠ 0) (h3 : ∀ c ∈ authz, c ≠ 0) :
    (Base64.decode (plainPayload login pw authz)).map splitNul = some [authz, login, pw] := by
  unfold plainPayload intercalate0
  rw [Base64.decode_encode]
  simp only [Option.map, List.append_assoc, List.singleton_append]
  have e : authz ++ (0 :: login ++ 0 :: pw) = authz ++ 0 :: (login ++ 0 :: pw) := by simp
  rw [e, splitNul_append authz _ h3, splitNul_append login _ h1, splitNul_nulfree pw h2]

/-- LOGIN: each continuation line is the quoted base64 of the value -/
theorem login_lines_carry_the_credentials (v : Bytes) : Base64.decode (Base64.encode v) = some v :=
  Base64.decode_encode v

/-- RFC 7628 saslname un-escaping -/
def unSaslName : Bytes → Bytes
  | 61 :: 50 :: 67 :: rest => 44 :: unSaslName rest
  | 61 :: 51 :: 68 :: rest => 61 :: unSaslName rest
  | c :: rest => c :: unSaslName rest
  | [] => []

theorem saslName_roundtrip (l : Bytes) : unSaslName (saslName l) = l := by
  induction l with
  | nil => simp [saslName, unSaslName]
  | cons c cs ih =>
    unfold saslName
    by_cases h61 : c = 61
    · subst h61; simp [unSaslName, ih]
    · have h61' : (c == 61) = false := by simpa using h61
      simp only [h61', Bool.false_eq_true, if_false]
      by_cases h44 : c = 44
      · subst h44; simp [unSaslName, ih]
      · have h44' : (c == 44) = false := by simpa using h44
        simp only [h44', Bool.false_eq_true, if_false]
        rw [unSaslName.eq_def]
        simp [h61, ih]

/-- the escaped user name contains no comma: it cannot end the gs2 header early -/
theorem saslName_has_no_comma (l : Bytes) : ∀ c ∈ saslName l, c ≠ 44 := by
  induction l with
  | nil => simp [saslName]
  | cons x xs ih =>
    unfold saslName
    intro c hc
    split at hc
    · simp only [List.mem_cons] at hc
      rcases hc with rfl | rfl | rfl | hc
      · decide
      · decide
      · decide
      · exact ih c hc
    · split at hc
      · simp only [List.mem_cons] at hc
        rcases hc with rfl | rfl | rfl | hc
        · decide
        · decide
        · decide
        · exact ih c hc
      · rename_i h44
        simp only [List.mem_cons] at hc
        rcases hc with rfl | hc
        · simpa using h44
        · exact ih c hc

/-- the OAUTHBEARER message decodes (base64) to `n,a=<saslname>,^Aauth=Bearer <token>^A^A` -/
theorem oauthbearer_message (login token : Bytes) :
    Base64.decode (oauthPayload login token)
      = some (sb "n,a=" ++ saslName login ++ [44, 1] ++ sb "auth=Bearer " ++ token ++ [1, 1]) := by
  unfold oauthPayload
  exact Base64.decode_encode _

/-! ## on the wire: one mechanism, once -/

open Client in
/-- **the credentials go out once, by the one mechanism selected**: `__authenticate` writes nothing when no SASL
    capability is known or no mechanism is selected, and otherwise exactly the lines of the selected mechanism's
    exchange, on the current channel — whatever the server answers (a refusal is not followed by a second attempt) -/
theorem authenticate_writes_one_mechanism_once (c : Client) (login password authz : Bytes) (authmech : Option Bytes)
    (hc : c.connected = true) :
    (authenticate c login password authz authmech).2.writes =
      c.writes ++ (match capGet c (sb "SASL") with
        | none => []
        | some v =>
          match selectMech authmech (splitWs (v.getD [])) with
          | none => []
          | some m => (authLines m login password authz).map (fun b => (c.tls, b))) :=
  authenticate_writes c login password authz authmech hc

open Client in
/-- … and those lines hold exactly one AUTHENTICATE command (LOGIN's two further lines are quoted strings) -/
theorem one_authenticate_command_per_exchange (mech login password authz : Bytes) :
    ((authLines mech login password authz).filter isAuthCmd).length = 1 :=
  authLines_one_command mech login password authz

end C16
