import SieveModel.Generated.LexRules
import SieveModel.Lemmas.Lex
import SieveModel.Model.Show
import SieveModel.Lemmas.Pos
import SieveModel.Lemmas.Machine
/-!
# C18 — Parse errors point at the offending place

Proved here (all inputs, all tables):
* `position_is_editor_position`: the `(line, column)` the model reports for byte offset `p`
  (`curlineno`, `curcolno`) is the position a text editor shows for that byte: line = 1 + number of
  line feeds before `p`, column = 1-based byte offset within the line;
* `rejection_located_at_a_token`: every rejection raised while tokens are processed is reported
  at the start of the token being processed (or one byte before it when the lexer was rewound in
  that very step) with that token's byte length;
* `reported_span_is_the_offending_token`: for a whole parse, a rejection raised while tokens are processed
  reports an offset and a length that delimit, in the input bytes, exactly the text of the token the parser
  was processing (`text[p : p+len]` is that token; `p + len ≤ |text|`), `p` possibly one byte early after a
  lexer rewind;
* `rejection_independent_of_what_follows`: once the token loop has stopped on a prefix of the
  token stream, no continuation changes the outcome (prefix determinism).

Open: `rejection_is_immediate_statement` (every surviving prefix is completable, i.e. the machine
rejects at the *first* token that makes the script invalid) needs `parse_complete`.
-/
namespace C18

theorem position_is_editor_position (text : Bytes) (p : Nat) (hp : p ≤ text.length) :
    (Lex.lineno text p, Lex.colno text p) = Lex.posOf text p (1, 1) :=
  Lex.lineno_colno_eq_posOf text p hp

theorem rejection_located_at_a_token (T : Table) (toks : List Tok) (s : PState) (n : Nat)
    (o : Machine.Outcome) (h : Machine.feed T toks s n = .stop o) :
    o = .hang ∨ (∃ w, o = .crash w) ∨
      ∃ tok ∈ toks, ∃ e, (o = .reject tok.pos tok.text.length e ∨
                          o = .reject (tok.pos - 1) tok.text.length e) :=
  Machine.feed_stop_located T toks s n o h

theorem rejection_independent_of_what_follows (T : Table) (pre rest : List Tok) (s : PState) (n : Nat)
    (o : Machine.Outcome) (h : Machine.feed T pre s n = .stop o) :
    Machine.feed T (pre ++ rest) s n = .stop o :=
  Machine.feed_prefix_stop T pre rest s n o h

/-- the reported span of a token-loop rejection is the offending token, as it stands in the input -/
theorem reported_span_is_the_offending_token (T : Table) (text : Bytes) (prev : PState) (lr : Lex.Result)
    (hl : Lex.lex text = some lr) (p n : Nat) (e : PErr)
    (hs : Machine.feed T lr.toks {} 0 = .stop (.reject p n e)) :
    ∃ tok ∈ lr.toks, (p = tok.pos ∨ p = tok.pos - 1) ∧ n = tok.text.length ∧
      (text.drop tok.pos).take n = tok.text ∧ tok.pos + n ≤ text.length := by
  rcases Machine.feed_stop_located T lr.toks {} 0 _ hs with h | ⟨w, h⟩ | ⟨tok, hmem, e', h | h⟩
  · simp at h
  · simp at h
  · injection h with h1 h2 h3
    obtain ⟨s1, s2⟩ := Lex.lex_slices text lr hl tok hmem
    exact ⟨tok, hmem, Or.inl h1, h2, by rw [h2]; exact s1, by rw [h2]; exact s2⟩
  · injection h with h1 h2 h3
    obtain ⟨s1, s2⟩ := Lex.lex_slices text lr hl tok hmem
    exact ⟨tok, hmem, Or.inr h1, h2, by rw [h2]; exact s1, by rw [h2]; exact s2⟩

/-- non-vacuity: offset 7 of "ab\ncd\nefg" is line 3, column 2 -/
example : (Lex.lineno (sb "ab\ncd\nefg") 7, Lex.colno (sb "ab\ncd\nefg") 7) = (3, 2) := by decide

/-- the offending token of a multi-line script is reported on its own line -/
example : Show.outcome (sb "keep;\n\nfoo;") (Machine.parse [] (sb "keep;\n\nfoo;"))
    = "reject 1 1 4 unknownCommand 6b656570" := by decide

/-- full-strength statement still to be proved: the machine never rejects later than necessary -/
def rejection_is_immediate_statement : Prop :=
  ∀ (T : Table) (toks : List Tok) (s : PState) (n : Nat), Machine.feed T toks {} 0 = .done s n →
    ∃ suffix r, Machine.run T 0 none (toks ++ suffix) {} 0 = .accept r

/-- the lexer rules of `sievelib/parser.py` (names, order, patterns, flags, white space) are the modelled ones -/
theorem lexer_is_the_modelled_one :
    Generated.lexRuleNames = TokKind.all.map TokKind.name ∧ Generated.lexRulePatterns = TokKind.patterns ∧
      Generated.parserPatterns = TokKind.auxPatterns := by decide

end C18
