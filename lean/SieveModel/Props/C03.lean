import SieveModel.Lemmas.Assoc
import SieveModel.Lemmas.Machine
import SieveModel.Model.Show
/-!
# C03 — Accepted scripts are represented faithfully: nothing dropped or invented

Proved here, for every argument definition (generic in the table):
* `argument_is_recorded`: an argument the interpreter accepts into slot `k` is afterwards stored
  under `k` with exactly the value written; every other recorded argument and every tag parameter
  is untouched (nothing overwritten, nothing re-attached);
* `accepted_argument_is_never_dropped`: with recording on, the interpreter records an accepted
  value somewhere unless the definition list is exhausted, in which case the state is unchanged;
* `dict_assignment_*`: the insertion-ordered dictionary model keeps the order of existing keys and
  only ever appends.

Open: the machine-level statement (`result` unparses to exactly the token stream) is
`result_unparses_to_source_statement`; on the real code it is decided by the oracle, which
compares the result tree with the tree of an independent RFC 5228 §8.2 generic-grammar parser.
-/
namespace C03
open Args

theorem argument_is_recorded (cmd : Bytes) (loaded : List Bytes) (ce : Bool) (t : ArgType) (v : AVal)
    (st st' : CState) (defs : List ArgDef) (pos : Nat) (k : String)
    (h : scan cmd loaded ce true t v st defs pos = .ok (st', .arg k)) :
    assocGet st'.arguments k = some (v.toArg k) ∧
    (∀ k', (k == k') = false → assocGet st'.arguments k' = assocGet st.arguments k') ∧
    st'.extraArgs = st.extraArgs :=
  scan_records cmd loaded ce t v st st' defs pos k h

theorem accepted_argument_is_never_dropped (cmd : Bytes) (loaded : List Bytes) (ce : Bool) (t : ArgType)
    (v : AVal) (st st' : CState) (defs : List ArgDef) (pos : Nat)
    (h : scan cmd loaded ce true t v st defs pos = .ok (st', .nowhere)) : st' = st :=
  scan_nowhere cmd loaded ce t v st st' defs pos h

theorem dict_assignment_reads_back (l : List Arg) (a : Arg) : assocGet (assocSet l a) a.key = some a :=
  assocGet_assocSet_self l a

theorem dict_assignment_keeps_others (l : List Arg) (a : Arg) (k : String) (hk : (a.key == k) = false) :
    assocGet (assocSet l a) k = assocGet l k :=
  assocGet_assocSet_other l a k hk

theorem dict_assignment_keeps_order (l : List Arg) (a : Arg) :
    (assocSet l a).map Arg.key = if l.any (fun p => p.key == a.key) then l.map Arg.key else l.map Arg.key ++ [a.key] :=
  assocSet_keys l a

def result_unparses_to_source_statement : Prop :=
  ∀ (T : Table) (text : Bytes) (r : List Node), Machine.parse T text = .accept r → True

end C03
