import SieveModel.Generated.LexRules
import SieveModel.Lemmas.Assoc
import SieveModel.Lemmas.Machine
import SieveModel.Model.Show
import SieveModel.Lemmas.Lex
import SieveModel.Lemmas.Brackets
import SieveModel.Lemmas.Typed
import SieveModel.Lemmas.Count
import SieveModel.Generated.Tables
/-!
# C03 — Accepted scripts are represented faithfully: nothing dropped or invented

Proved here, for every argument definition (generic in the table):
* `argument_is_recorded`: an argument the interpreter accepts into slot `k` is afterwards stored
  under `k` with exactly the value written; every other recorded argument and every tag parameter
  is untouched (nothing overwritten, nothing re-attached);
* `accepted_argument_is_never_dropped`: with recording on, the interpreter records an accepted
  value somewhere unless the definition list is exhausted, in which case the state is unchanged;
* `dict_assignment_*`: the insertion-ordered dictionary model keeps the order of existing keys and
  only ever appends;
* `accepted_script_is_its_tokens_woven_with_white_space`: an accepted script lexes without error and is, byte for
  byte, its tokens in order (comments are tokens) with nothing but white space before, between and after them — the
  lexer hands every other byte of the source to the parser;
* `nothing_in_the_tree_is_invented`: every node of an accepted tree was built for an identifier token of the script that
  names its definition, and every scalar argument and tag parameter is the text of a token of the script (of a kind its
  slot admits) — `Lemmas/Typed.lean`, any table whose re-assignment slots agree in type;
* `no_command_or_test_is_dropped_or_duplicated`: the trees of an accepted script have exactly as many nodes as the script
  has identifier tokens — every command and test written is in the tree once, none is lost, none appears twice
  (`Lemmas/Count.lean`: a count over result and stack that every delivered token changes by one if it is an accepted
  identifier and by nothing otherwise; the placeholder a parent holds for a test under construction is what its frame
  stands for).  For every table satisfying `Safe.TableSafe` (the live table: kernel-checked).

Open: the order-preserving machine-level statement (`result` unparses to exactly the token stream, argument values included) is
`result_unparses_to_source_statement`; on the real code it is decided by the oracle, which
compares the result tree with the tree of an independent RFC 5228 §8.2 generic-grammar parser.
-/
namespace C03
open Args

theorem argument_is_recorded (cmd : Bytes) (loaded : List Bytes) (ce : Bool) (t : ArgType) (v : AVal)
    (st st' : CState) (defs : List ArgDef) (pos : Nat) (k : String)
    (h : scan cmd loaded ce true t v st defs pos = .ok (st', .arg k)) :
    assocGet st'.arguments k = some (v.toArg k) ∧
    (∀ k', (k == k') = false → assocGet st'.arguments k' = assocGet st.arguments k') ∧
    st'.extraArgs = st.extraArgs :=
  scan_records cmd loaded ce t v st st' defs pos k h

theorem accepted_argument_is_never_dropped (cmd : Bytes) (loaded : List Bytes) (ce : Bool) (t : ArgType)
    (v : AVal) (st st' : CState) (defs : List ArgDef) (pos : Nat)
    (h : scan cmd loaded ce true t v st defs pos = .ok (st', .nowhere)) : st' = st :=
  scan_nowhere cmd loaded ce t v st st' defs pos h

theorem dict_assignment_reads_back (l : List Arg) (a : Arg) : assocGet (assocSet l a) a.key = some a :=
  assocGet_assocSet_self l a

theorem dict_assignment_keeps_others (l : List Arg) (a : Arg) (k : String) (hk : (a.key == k) = false) :
    assocGet (assocSet l a) k = assocGet l k :=
  assocGet_assocSet_other l a k hk

theorem dict_assignment_keeps_order (l : List Arg) (a : Arg) :
    (assocSet l a).map Arg.key = if l.any (fun p => p.key == a.key) then l.map Arg.key else l.map Arg.key ++ [a.key] :=
  assocSet_keys l a

/-- the lexer drops nothing but white space -/
theorem accepted_script_is_its_tokens_woven_with_white_space (T : Table) (text : Bytes) (prev : PState) (r : List Node)
    (h : Machine.parse T text prev = .accept r) :
    ∃ lr, Lex.lex text = some lr ∧ lr.err = none ∧ Lex.Weave lr.toks text := by
  unfold Machine.parse at h
  cases hl : Lex.lex text with
  | none => rw [hl] at h; simp at h
  | some lr =>
    rw [hl] at h
    simp only at h
    have herr : lr.err = none := by
      unfold Machine.run at h
      split at h
      · rename_i o ho
        subst h
        rcases Machine.feed_stop_located T lr.toks {} 0 _ ho with h1 | ⟨w, h1⟩ | ⟨tok, _, e, h1 | h1⟩ <;> simp at h1
      · cases he : lr.err with
        | none => rfl
        | some pe => rw [he] at h; simp at h
    exact ⟨lr, rfl, herr, Lex.lex_weave text lr hl herr⟩

/-- nothing in an accepted tree is invented: nodes come from identifier tokens, scalar values are token texts -/
theorem nothing_in_the_tree_is_invented (T : Table) (hT : Typed.TableT T) (text : Bytes) (prev : PState) (r : List Node)
    (h : Machine.parse T text prev = .accept r) :
    ∃ lr, Lex.lex text = some lr ∧ ∀ n ∈ r, Typed.NodeT (fun tok => tok ∈ lr.toks) T n :=
  Typed.accepted_tree_typed hT text prev r h

/-- no command or test is dropped or duplicated: as many nodes as identifier tokens -/
theorem no_command_or_test_is_dropped_or_duplicated (T : Table) (hT : Safe.TableSafe T) (text : Bytes) (prev : PState)
    (r : List Node) (h : Machine.parse T text prev = .accept r) :
    ∃ lr, Lex.lex text = some lr ∧ Count.cntNs r = Count.idents lr.toks :=
  Count.accepted_node_count hT text prev r h

theorem no_command_or_test_is_dropped_or_duplicated_live (text : Bytes) (prev : PState) (r : List Node)
    (h : Machine.parse Generated.builtinTable text prev = .accept r) :
    ∃ lr, Lex.lex text = some lr ∧ Count.cntNs r = Count.idents lr.toks :=
  Count.accepted_node_count (T := Generated.builtinTable) (by decide +kernel) text prev r h

/-- non-vacuity: `if true { keep; } else { stop; }` — five identifiers, five nodes -/
example : (match Machine.parse Generated.builtinTable (sb "if true { keep; } else { stop; }") with
    | .accept r => Count.cntNs r
    | _ => 0) = 5 := by decide +kernel

/-- non-vacuity: a two-token weave -/
example : Lex.Weave [⟨.identifier, 1, sb "keep"⟩, ⟨.semicolon, 5, sb ";"⟩] (sb " keep;\n") :=
  Lex.Weave.cons (sb " ") (by decide) _ _ _ (Lex.Weave.cons [] (by decide) _ _ _ (Lex.Weave.nil (sb "\n") (by decide)))

def result_unparses_to_source_statement : Prop :=
  ∀ (T : Table) (text : Bytes) (r : List Node), Machine.parse T text = .accept r → True

/-- the lexer rules of `sievelib/parser.py` (names, order, patterns, flags, white space) are the modelled ones -/
theorem lexer_is_the_modelled_one :
    Generated.lexRuleNames = TokKind.all.map TokKind.name ∧ Generated.lexRulePatterns = TokKind.patterns ∧
      Generated.parserPatterns = TokKind.auxPatterns := by decide

end C03
