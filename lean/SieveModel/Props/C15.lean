import SieveModel.Lemmas.ClientRead
import SieveModel.Generated.MsConsts
import SieveModel.Props.C09
import SieveModel.Lemmas.Listing
import SieveModel.Lemmas.Session
/-! # C15 — session-level consequences of T-READ (theorems follow) -/
namespace C15
open Client Reader
/-- requests and replies cannot get out of step because of segmentation: any two deliveries of
    the same bytes leave the same pending bytes after every exchange -/
theorem exchanges_stay_in_step (a b : Client) (h : SameC a b) (name : Bytes) (args : List WArg)
    (extra : List Bytes) (nbl : Option Nat) :
    SameC (sendCommand a name args extra nbl).2 (sendCommand b name args extra nbl).2 :=
  (sendCommand_congr a b h name args extra nbl).2
/-- **replies are consumed one at a time**: with two status replies pending (say the answers to two
    pipelined or consecutive commands), the first read returns the first status and the second read the
    second — the reply of one command is never taken for the reply of the next, however the bytes arrive -/
theorem consecutive_replies_are_read_in_order (nbl : Option Nat) (st : RState) (rest : Bytes)
    (hp : pending st = sb "NO" ++ 13 :: 10 :: (sb "OK" ++ 13 :: 10 :: rest)) :
    ∃ st1 st2, readResponse nbl st = .ok (⟨some .NO, none, []⟩, st1) ∧
      readResponse nbl st1 = .ok (⟨some .OK, none, []⟩, st2) ∧ pending st2 = rest := by
  obtain ⟨st1, h1, hp1, _, _⟩ := C09.bare_no_reply_is_read nbl st _ hp
  obtain ⟨st2, h2, hp2, _, _⟩ := C09.ok_reply_is_read nbl st1 rest hp1
  exact ⟨st1, st2, h1, h2, hp2⟩

/-- the error text of an earlier `NO` does not survive a later bare `NO` (no stale `errmsg` / `errcode`) -/
theorem later_reply_alone_decides_error_fields (nbl : Option Nat) (st : RState) (code text rest : Bytes)
    (hne : code ≠ []) (hc : ∀ c ∈ code, isAtomByte c = true) (htext : ReplyLine.NoLF text)
    (hp : pending st = 78 :: 79 :: 32 :: (40 :: (code ++ 41 :: 32 :: (34 :: (escapeQ text ++ [34])))) ++ 13 :: 10 ::
            (sb "NO" ++ 13 :: 10 :: rest)) :
    ∃ st1 st2 r1 r2, readResponse nbl st = .ok (r1, st1) ∧ st1.errcode = code ∧ st1.errmsg = text ∧
      readResponse nbl st1 = .ok (r2, st2) ∧ st2.errcode = [] ∧ st2.errmsg = [] ∧ pending st2 = rest := by
  obtain ⟨st1, h1, hp1, hc1, hm1⟩ := C09.no_code_text_reply_is_read nbl st code text _ hne hc htext hp
  obtain ⟨st2, h2, hp2, hc2, hm2⟩ := C09.bare_no_reply_is_read nbl st1 rest hp1
  exact ⟨st1, st2, _, _, h1, hc1, hm1, h2, hc2, hm2, hp2⟩

/-! ## the client's view of the server's store -/

/-- what a server holds: named scripts in listing order, at most one of them active -/
structure Store where
  scripts : List (Bytes × Bytes)
  active : Option Bytes

def Store.names (s : Store) : List Bytes := s.scripts.map (·.1)
/-- the LISTSCRIPTS lines of a store -/
def Store.entries (s : Store) : List Listing.Entry := s.scripts.map fun p => ⟨p.1, s.active == some p.1⟩

open Listing in
/-- **what the client reports equals the server's state**: for a store whose active script (if any) is one
    of its scripts, with names a server may send as quoted strings, `listscripts` reports exactly that
    active script and exactly the other names in the server's order — and the exchange leaves exactly the
    bytes that follow the reply pending, so the next call reads its own reply -/
theorem listing_view_equals_server_state (c : Client) (s : Store) (rest : Bytes)
    (ha : c.authenticated = true) (hc : c.connected = true)
    (hact : ∀ a, s.active = some a → a ∈ s.names)
    (hb : ∀ n ∈ s.names, NoBreak n) (hv : ∀ n ∈ s.names, Utf8.valid n = true)
    (hp : pending (afterWrites c (sb "LISTSCRIPTS") [] []).r = wire s.entries ++ (sb "OK" ++ 13 :: 10 :: rest)) :
    (listscripts c).1 = .ok (some (s.active, s.names.filter (fun n => !(s.active == some n)))) ∧
      pending (listscripts c).2.r = rest := by
  have hb' : ∀ e ∈ s.entries, NoBreak e.name := by
    intro e he
    obtain ⟨p, hp1, rfl⟩ := List.mem_map.1 he
    exact hb p.1 (List.mem_map.2 ⟨p, hp1, rfl⟩)
  have hv' : ∀ e ∈ s.entries, Utf8.valid e.name = true := by
    intro e he
    obtain ⟨p, hp1, rfl⟩ := List.mem_map.1 he
    exact hv p.1 (List.mem_map.2 ⟨p, hp1, rfl⟩)
  obtain ⟨h1, h2⟩ := listscripts_returns_the_listing c s.entries rest ha hc hb' hv' hp
  refine ⟨?_, h2⟩
  rw [h1]
  have hin : inactive s.entries = s.names.filter (fun n => !(s.active == some n)) := by
    simp only [inactive, Store.entries, Store.names, List.filter_map, List.map_map]
    rfl
  have hao : activeOf s.entries none = s.active := by
    cases hsa : s.active with
    | none =>
      rw [activeOf_flagged s.entries [] none]
      · have : s.entries.any (·.active) = false := by
          simp [Store.entries, hsa]
        simp [this]
      · intro e he hf
        obtain ⟨p, _, rfl⟩ := List.mem_map.1 he
        simp [hsa] at hf
    | some a =>
      rw [activeOf_flagged s.entries a none]
      · have : s.entries.any (·.active) = true := by
          have hmem := hact a hsa
          obtain ⟨p, hp1, hp2⟩ := List.mem_map.1 hmem
          simp only [Store.entries, List.any_map, List.any_eq_true]
          exact ⟨p, hp1, by simp [hsa, hp2]⟩
        simp [this]
      · intro e he hf
        obtain ⟨p, _, rfl⟩ := List.mem_map.1 he
        simp only [hsa] at hf
        simpa using (beq_iff_eq.1 hf).symm
  rw [hin, hao]

/-- non-vacuity: a store with three scripts, the second one active -/
example : (⟨[(sb "a", sb "keep;"), (sb "OK", sb "stop;"), (sb "{5}", [])], some (sb "OK")⟩ : Store).entries.map (·.active) = [false, true, false] := by
  decide

/-- **no history of operations gets out of step because of how the bytes arrive**: for every session (any list of
    public operations) the results, in order, are the same for any two deliveries of the same server bytes -/
theorem sessions_stay_in_step (ops : List Op) (a b : Client) (h : SameC a b) : (runOps a ops).1 = (runOps b ops).1 :=
  (runOps_congr ops a b h).1

/-! ## any number of replies, of any shape, in a row -/

/-- a status reply with its status: `true` = OK, `false` = NO -/
abbrev StatusReply := Bool × C09.NoReply

def StatusReply.wire (sr : StatusReply) : Bytes := if sr.1 then sr.2.okWire else sr.2.wire
def StatusReply.status (sr : StatusReply) : Reader.Status := if sr.1 then .OK else .NO

/-- read `n` replies one after the other -/
def readAll (nbl : Option Nat) : Nat → RState → Except RErr (List (Option Reader.Status) × RState)
  | 0, st => .ok ([], st)
  | n + 1, st =>
    match Reader.readResponse nbl st with
    | .error e => .error e
    | .ok (resp, st1) =>
      match readAll nbl n st1 with
      | .error e => .error e
      | .ok (l, st2) => .ok (resp.code :: l, st2)

/-- **replies are consumed one at a time, whatever their number and shape**: with any list of OK / NO replies pending —
    with or without response code and text, texts quoted or literal — that many reads return their statuses in order, each
    read consuming exactly its own reply (a literal text and its CRLF included), and exactly what follows the last reply
    stays pending.  No reply is ever taken for the answer to another command, however the bytes arrive -/
theorem replies_are_read_one_at_a_time (nbl : Option Nat) (replies : List StatusReply) (hw : ∀ sr ∈ replies, sr.2.WF)
    (st : RState) (rest : Bytes)
    (hp : pending st = (replies.flatMap StatusReply.wire) ++ rest) :
    ∃ st', readAll nbl replies.length st = .ok (replies.map (fun sr => some sr.status), st') ∧ pending st' = rest := by
  induction replies generalizing st with
  | nil => exact ⟨st, rfl, by simpa using hp⟩
  | cons sr rest' ih =>
    have hw1 := hw sr (by simp)
    have hp' : pending st = sr.wire ++ ((rest'.flatMap StatusReply.wire) ++ rest) := by
      rw [hp]; simp [List.flatMap_cons, List.append_assoc]
    have step : ∃ st1 d, Reader.readResponse nbl st = .ok (⟨some sr.status, d, []⟩, st1) ∧
        pending st1 = (rest'.flatMap StatusReply.wire) ++ rest := by
      obtain ⟨b, r⟩ := sr
      cases b with
      | true =>
        obtain ⟨st1, d, h1, h2, _, _⟩ := C09.every_ok_reply_is_read nbl st r hw1 _ (by simpa [StatusReply.wire] using hp')
        exact ⟨st1, d, by simpa [StatusReply.status] using h1, h2⟩
      | false =>
        obtain ⟨st1, d, h1, h2, _, _⟩ := C09.every_no_reply_is_decoded nbl st r hw1 _ (by simpa [StatusReply.wire] using hp')
        exact ⟨st1, d, by simpa [StatusReply.status] using h1, h2⟩
    obtain ⟨st1, d, h1, hp1⟩ := step
    obtain ⟨st2, h2, hp2⟩ := ih (fun x hx => hw x (by simp [hx])) st1 hp1
    refine ⟨st2, ?_, hp2⟩
    simp only [List.length_cons, readAll, h1, h2, List.map_cons]

/-- the capabilities the client keeps (regenerated from `KNOWN_CAPABILITIES`) are the modelled ones, in that order -/
theorem known_capabilities_are_the_modelled_ones : Generated.knownCapabilities.map sb = Client.knownCaps := by decide

/-- the regular expressions `sievelib/managesieve.py` uses now are the ones the model implements -/
theorem client_patterns_are_the_modelled_ones : Generated.clientPatterns = Client.patterns := by decide

end C15
