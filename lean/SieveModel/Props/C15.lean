import SieveModel.Lemmas.ClientRead
import SieveModel.Props.C09
/-! # C15 — session-level consequences of T-READ (theorems follow) -/
namespace C15
open Client Reader
/-- requests and replies cannot get out of step because of segmentation: any two deliveries of
    the same bytes leave the same pending bytes after every exchange -/
theorem exchanges_stay_in_step (a b : Client) (h : SameC a b) (name : Bytes) (args : List WArg)
    (extra : List Bytes) (nbl : Option Nat) :
    SameC (sendCommand a name args extra nbl).2 (sendCommand b name args extra nbl).2 :=
  (sendCommand_congr a b h name args extra nbl).2
/-- **replies are consumed one at a time**: with two status replies pending (say the answers to two
    pipelined or consecutive commands), the first read returns the first status and the second read the
    second — the reply of one command is never taken for the reply of the next, however the bytes arrive -/
theorem consecutive_replies_are_read_in_order (nbl : Option Nat) (st : RState) (rest : Bytes)
    (hp : pending st = sb "NO" ++ 13 :: 10 :: (sb "OK" ++ 13 :: 10 :: rest)) :
    ∃ st1 st2, readResponse nbl st = .ok (⟨some .NO, none, []⟩, st1) ∧
      readResponse nbl st1 = .ok (⟨some .OK, none, []⟩, st2) ∧ pending st2 = rest := by
  obtain ⟨st1, h1, hp1, _, _⟩ := C09.bare_no_reply_is_read nbl st _ hp
  obtain ⟨st2, h2, hp2, _, _⟩ := C09.ok_reply_is_read nbl st1 rest hp1
  exact ⟨st1, st2, h1, h2, hp2⟩

/-- the error text of an earlier `NO` does not survive a later bare `NO` (no stale `errmsg` / `errcode`) -/
theorem later_reply_alone_decides_error_fields (nbl : Option Nat) (st : RState) (code text rest : Bytes)
    (hne : code ≠ []) (hc : ∀ c ∈ code, isAtomByte c = true) (htext : ReplyLine.NoLF text)
    (hp : pending st = 78 :: 79 :: 32 :: (40 :: (code ++ 41 :: 32 :: (34 :: (escapeQ text ++ [34])))) ++ 13 :: 10 ::
            (sb "NO" ++ 13 :: 10 :: rest)) :
    ∃ st1 st2 r1 r2, readResponse nbl st = .ok (r1, st1) ∧ st1.errcode = code ∧ st1.errmsg = text ∧
      readResponse nbl st1 = .ok (r2, st2) ∧ st2.errcode = [] ∧ st2.errmsg = [] ∧ pending st2 = rest := by
  obtain ⟨st1, h1, hp1, hc1, hm1⟩ := C09.no_code_text_reply_is_read nbl st code text _ hne hc htext hp
  obtain ⟨st2, h2, hp2, hc2, hm2⟩ := C09.bare_no_reply_is_read nbl st1 rest hp1
  exact ⟨st1, st2, _, _, h1, hc1, hm1, h2, hc2, hm2, hp2⟩

end C15
