import SieveModel.Lemmas.ClientRead
/-! # C15 — session-level consequences of T-READ (theorems follow) -/
namespace C15
open Client Reader
/-- requests and replies cannot get out of step because of segmentation: any two deliveries of
    the same bytes leave the same pending bytes after every exchange -/
theorem exchanges_stay_in_step (a b : Client) (h : SameC a b) (name : Bytes) (args : List WArg)
    (extra : List Bytes) (nbl : Option Nat) :
    SameC (sendCommand a name args extra nbl).2 (sendCommand b name args extra nbl).2 :=
  (sendCommand_congr a b h name args extra nbl).2
end C15
