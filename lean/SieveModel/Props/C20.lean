import SieveModel.Generated.LexRules
import SieveModel.Lemmas.Assoc
import SieveModel.Lemmas.Gating
import SieveModel.Lemmas.NoCrash
import SieveModel.Generated.Tables
import SieveModel.Lemmas.Typed
import SieveModel.Lemmas.Count
/-!
# C20 — registered custom commands

The interpreter theorems of C03 / C07 are *generic in the definition list*; this file instantiates
them as statements about an arbitrary registered definition and adds the registry lemmas:
`add_commands` makes exactly the registered name resolvable and leaves every other name alone.
Per-definition table conditions survive registration (`register_forall`), so the theorems proved for every table that
meets them hold with custom commands registered: every input gets a verdict (`custom_commands_keep_the_verdict`), no
command or test of an accepted script is dropped or duplicated (`custom_commands_keep_the_node_count`), and every argument
of an accepted tree is a token of the script in a slot that admits its kind and value (`custom_commands_are_typed`).
-/
namespace C20

/-- the identifier (in any letter case) of a registered definition resolves to it -/
theorem registered_name_resolves (T : Table) (d : CmdDef) (ident : Bytes)
    (h : B.capitalize (B.lower ident) = d.key) : (T.register d).lookup ident = some d := by
  unfold Table.lookup Table.findKey Table.register
  rw [h]
  split
  · rename_i hany
    induction T with
    | nil => simp at hany
    | cons e rest ih =>
      simp only [List.map_cons, List.find?_cons]
      by_cases he : e.key == d.key
      · simp [he]
      · simp only [he, Bool.false_eq_true, if_false]
        simp only [List.any_cons, he, Bool.false_or] at hany
        exact ih hany
  · rename_i hany
    simp only [List.find?_append, List.find?_cons, beq_self_eq_true, List.find?_nil]
    have : List.find? (fun e => e.key == d.key) T = none := by
      simp only [Bool.not_eq_true, List.any_eq_false] at hany
      rw [List.find?_eq_none]
      intro x hx; simpa using hany x hx
    simp [this]

theorem find_map_other (T : Table) (d : CmdDef) (k : Bytes) (hdk : (d.key == k) = false) :
    List.find? (fun e => e.key == k) (T.map (fun e => if e.key == d.key then d else e)) =
      List.find? (fun e => e.key == k) T := by
  induction T with
  | nil => simp
  | cons e rest ih =>
    simp only [List.map_cons, List.find?_cons]
    by_cases he : e.key == d.key
    · have hek : (e.key == k) = false := by
        have : e.key = d.key := by simpa using he
        rw [this]; exact hdk
      simp only [he, if_true, hdk, hek]; exact ih
    · simp only [he, Bool.false_eq_true, if_false]
      by_cases hek : e.key == k
      · simp [hek]
      · simp only [hek]; exact ih

/-- registering a definition does not change how any other name resolves -/
theorem other_names_unchanged (T : Table) (d : CmdDef) (ident : Bytes)
    (h : (B.capitalize (B.lower ident) == d.key) = false) :
    (T.register d).lookup ident = T.lookup ident := by
  unfold Table.lookup Table.findKey Table.register
  generalize B.capitalize (B.lower ident) = k at h
  have hdk : (d.key == k) = false := by
    cases hc : d.key == k
    · rfl
    · have : d.key = k := by simpa using hc
      subst this
      simp at h
  split
  · exact find_map_other T d k hdk
  · simp only [List.find?_append, List.find?_cons, hdk]
    cases List.find? (fun e => e.key == k) T <;> simp

/-- arguments of a registered command are recorded under the names its definition gives -/
theorem custom_argument_recorded_under_defined_name (d : CmdDef) (loaded : List Bytes) (t : ArgType) (v : AVal)
    (st st' : CState) (pos : Nat) (k : String)
    (h : Args.scan d.name loaded true true t v st (d.args.drop pos) pos = .ok (st', .arg k)) :
    (∃ a ∈ d.args, a.name = k) ∧ assocGet st'.arguments k = some (v.toArg k) := by
  obtain ⟨a, ha, hk, _⟩ := Gating.scan_gated d.name loaded true t v st st' (d.args.drop pos) pos k h
  exact ⟨⟨a, List.mem_of_mem_drop ha, hk⟩, (Args.scan_records d.name loaded true t v st st' _ pos k h).1⟩

/-- registering a definition that meets the per-definition condition keeps the table safe -/
theorem register_keeps_table_safe (T : Table) (d : CmdDef) (hT : Safe.TableSafe T) (hd : Safe.cmdSafe d = true) :
    Safe.TableSafe (T.register d) := by
  intro x hx
  unfold Table.register at hx
  split at hx
  · simp only [List.mem_map] at hx
    obtain ⟨e, he, rfl⟩ := hx
    split
    · exact hd
    · exact hT e he
  · simp only [List.mem_append, List.mem_singleton] at hx
    rcases hx with hx | rfl
    · exact hT x hx
    · exact hd

/-- **custom commands cannot make the parser raise or hang**: whatever definitions satisfying `cmdSafe` are
    registered on top of the library's own table, every input still gets a verdict -/
theorem custom_commands_keep_the_verdict (ds : List CmdDef) (hds : ∀ d ∈ ds, Safe.cmdSafe d = true) (text : Bytes) :
    Safe.Verdict (Machine.parse (ds.foldl Table.register Generated.builtinTable) text) := by
  have hsafe : ∀ (T : Table), Safe.TableSafe T → (∀ d ∈ ds, Safe.cmdSafe d = true) →
      Safe.TableSafe (ds.foldl Table.register T) := by
    induction ds with
    | nil => intro T hT _; exact hT
    | cons d rest ih =>
      intro T hT h
      exact ih (fun d' hd' => hds d' (by simp [hd'])) (T.register d)
        (register_keeps_table_safe T d hT (h d (by simp))) (fun d' hd' => h d' (by simp [hd']))
  exact Safe.parse_verdict _ (hsafe _ (by decide +kernel) hds) text {}

/-- a condition every definition meets survives registration of a definition that meets it -/
theorem register_forall (P : CmdDef → Prop) (T : Table) (d : CmdDef) (hT : ∀ x ∈ T, P x) (hd : P d) :
    ∀ x ∈ T.register d, P x := by
  intro x hx
  unfold Table.register at hx
  split at hx
  · simp only [List.mem_map] at hx
    obtain ⟨e, he, rfl⟩ := hx
    split
    · exact hd
    · exact hT e he
  · simp only [List.mem_append, List.mem_singleton] at hx
    rcases hx with hx | rfl
    · exact hT x hx
    · exact hd

theorem registerAll_forall (P : CmdDef → Prop) (ds : List CmdDef) (hds : ∀ d ∈ ds, P d) :
    ∀ (T : Table), (∀ x ∈ T, P x) → ∀ x ∈ ds.foldl Table.register T, P x := by
  induction ds with
  | nil => intro T hT; exact hT
  | cons d rest ih =>
    intro T hT
    exact ih (fun d' hd' => hds d' (by simp [hd'])) (T.register d) (register_forall P T d hT (hds d (by simp)))

/-- with custom commands registered, no command or test of an accepted script is dropped or duplicated -/
theorem custom_commands_keep_the_node_count (ds : List CmdDef) (hds : ∀ d ∈ ds, Safe.cmdSafe d = true) (text : Bytes)
    (prev : PState) (r : List Node)
    (h : Machine.parse (ds.foldl Table.register Generated.builtinTable) text prev = .accept r) :
    ∃ lr, Lex.lex text = some lr ∧ Count.cntNs r = Count.idents lr.toks :=
  Count.accepted_node_count
    (registerAll_forall (fun d => Safe.cmdSafe d = true) ds hds Generated.builtinTable (by decide +kernel)) text prev r h

/-- with custom commands registered, every argument of an accepted tree is a token of the script in a slot of its
    command's definition that admits its kind and its value -/
theorem custom_commands_are_typed (ds : List CmdDef) (hds : ∀ d ∈ ds, Typed.reassignOK d = true) (text : Bytes)
    (prev : PState) (r : List Node)
    (h : Machine.parse (ds.foldl Table.register Generated.builtinTable) text prev = .accept r) :
    ∃ lr, Lex.lex text = some lr ∧
      ∀ n ∈ r, Typed.NodeT (fun tok => tok ∈ lr.toks) (ds.foldl Table.register Generated.builtinTable) n :=
  Typed.accepted_tree_typed
    (registerAll_forall (fun d => Typed.reassignOK d = true) ds hds Generated.builtinTable (by decide +kernel)) text prev r h

/-- the lexer rules of `sievelib/parser.py` (names, order, patterns, flags, white space) are the modelled ones -/
theorem lexer_is_the_modelled_one :
    Generated.lexRuleNames = TokKind.all.map TokKind.name ∧ Generated.lexRulePatterns = TokKind.patterns ∧
      Generated.parserPatterns = TokKind.auxPatterns := by decide

end C20
