import SieveModel.Model.Factory
/-!
# M6c — reading a filter back: `get_filter_conditions`, `get_filter_actions`, `get_filter_matchtype`,
`Command.walk`, the `args_as_tuple` methods, and the loader `from_parser_result`

Transliteration of `sievelib/factory.py` / `sievelib/commands.py`.  Argument values are what Python holds:
a `str` (`Arg.str`, raw text — quotes included) or a `list` of `str` (`Arg.strs`); an `int` the factory stored
is shown by its decimal text (the harness compares `str()` of what the real code returns).  What Python raises
on (`KeyError`, `AttributeError` on a list, …) is `Except.error`.
-/
namespace Readback
open ToList

/-- an element of a returned tuple -/
inductive RVal where
  | s (b : Bytes)
  | l (items : List Bytes)
  deriving DecidableEq, Repr, Inhabited

abbrev R := Except String

/-- `self.arguments[k]` as the `str` or `list` it is -/
inductive PV where
  | s (b : Bytes)
  | l (items : List Bytes)

def pvOf : Arg → R PV
  | .str _ v => .ok (.s v)
  | .strs _ v => .ok (.l v)
  | _ => .error "unmodelled: a command as value"

def arg (n : Node) (k : String) : R PV :=
  match assocGet n.args k with
  | some a => pvOf a
  | none => .error "KeyError"

def extra (n : Node) (k : String) : R PV :=
  match assocGet n.extra k with
  | some a => pvOf a
  | none => .error "KeyError"

def strip (b : Bytes) : Bytes := B.stripC 34 b

/-- the receiver of a `str` method -/
def asStr : PV → R Bytes
  | .s b => .ok b
  | .l _ => .error "AttributeError: list"

/-- `"[{}]".format(",".join('"{}"'.format(item) for item in value))` -/
def relist (items : List Bytes) : Bytes := ToList.render items

/-- `value = arguments[k]; if isinstance(value, list): value = "[...]"` -/
def flat : PV → Bytes
  | .s b => b
  | .l items => relist items

/-- `"," in value` (substring of a `str`; element of a `list`) -/
def hasComma : PV → Bool
  | .s b => b.contains 44
  | .l items => items.contains [44]

/-- `HeaderCommand.args_as_tuple` -/
def headerTuple (n : Node) : R (List RVal) := do
  let hn ← arg n "header-names"
  let p1 ← (if hasComma hn then (do
              -- `tools.to_list(list)`: a list has no `split`
              let b ← asStr hn
              pure ((toList b true).map RVal.s))
            else (do let b ← asStr hn; pure [RVal.s (strip b)]) : R (List RVal))
  let mt ← asStr (← arg n "match-type")   -- a tag is a `str`; returned as it is
  let kl ← arg n "key-list"
  let p3 ← (if hasComma kl then (do
              let b ← asStr kl
              pure ((toList b false).map RVal.s))
            else (do let b ← asStr kl; pure [RVal.s (strip b)]) : R (List RVal))
  pure (p1 ++ [RVal.s mt] ++ p3)

/-- `value.startswith("[")` → `to_list(value)`, else `value.strip('"')` — as one list -/
def listOrOne (v : Bytes) : List Bytes :=
  if B.startsWith v [91] then toList v true else [strip v]

/-- `EnvelopeCommand.args_as_tuple` -/
def envelopeTuple (n : Node) : R (List RVal) := do
  let mt ← asStr (← arg n "match-type")
  let hl := flat (← arg n "header-list")
  let kl := flat (← arg n "key-list")
  pure [RVal.s (sb "envelope"), RVal.s mt, RVal.l (listOrOne hl), RVal.l (listOrOne kl)]

/-- `ExistsCommand.args_as_tuple` -/
def existsTuple (n : Node) : R (List RVal) := do
  let v := flat (← arg n "header-names")
  pure (RVal.s (sb "exists") :: (listOrOne v).map RVal.s)

/-- `BodyCommand.args_as_tuple` -/
def bodyTuple (n : Node) : R (List RVal) := do
  let bt ← asStr (← arg n "body-transform")
  let mt ← asStr (← arg n "match-type")
  let v := flat (← arg n "key-list")
  pure ([RVal.s (sb "body"), RVal.s bt, RVal.s mt] ++ (listOrOne v).map RVal.s)

/-- `CurrentdateCommand.args_as_tuple` -/
def currentdateTuple (n : Node) : R (List RVal) := do
  let zone ← asStr (← extra n "zone")
  let mt ← asStr (← arg n "match-type")
  let rel ← (if mt == sb ":count" || mt == sb ":value" then (do
               let o ← asStr (← extra n "match-type")
               pure [RVal.s (strip o)])
             else pure [] : R (List RVal))
  let dp ← asStr (← arg n "date-part")
  let v := flat (← arg n "key-list")
  pure ([RVal.s (sb "currentdate"), RVal.s (sb ":zone"), RVal.s (strip zone), RVal.s mt] ++ rel ++ [RVal.s (strip dp)] ++
    (listOrOne v).map RVal.s)

/-- `SizeCommand.args_as_tuple` -/
def sizeTuple (n : Node) : R (List RVal) := do
  let c ← arg n "comparator"
  let l ← arg n "limit"
  let show_ : PV → RVal := fun | .s b => .s b | .l i => .l i
  pure [RVal.s (sb "size"), show_ c, show_ l]

/-- `ActionCommand.args_as_tuple`: every recorded argument in insertion order; values of string / string-list slots
    unquoted (split at commas if any), the others as they are.  Tag parameters (`extra_arguments`) are not included. -/
def actionTuple (d : CmdDef) (n : Node) : R (List RVal) := do
  let one : Arg → R (List RVal) := fun a => do
    let v ← pvOf a
    let unq := match d.args.find? (fun s => s.name == a.key) with
      | some s => decide (ArgType.string ∈ s.types) || decide (ArgType.stringlist ∈ s.types)
      | none => false
    if unq then
      if hasComma v then (do let b ← asStr v; pure ((toList b true).map RVal.s))
      else (do let b ← asStr v; pure [RVal.s (strip b)])
    else
      pure [match v with | .s b => RVal.s b | .l i => RVal.l i]
  let rec go : List Arg → R (List RVal)
    | [] => pure []
    | a :: rest => do
      let x ← one a
      let xs ← go rest
      pure (x ++ xs)
  let vals ← go n.args
  pure (RVal.s n.name :: vals)

/-- `Command.walk()` (pre-order: the command, the commands among its arguments in definition order, its children);
    `fuel` ≥ depth of the tree -/
def walk (T : Table) : Nat → Node → List Node
  | 0, n => [n]
  | fuel + 1, n =>
    let viaArgs : List Node :=
      match T.byName n.name with
      | none => []
      | some d =>
        d.args.flatMap fun slot =>
          match assocGet n.args slot.name with
          | some (.tests _ ts) => if slot.types == [.testlist] then ts.flatMap (walk T fuel) else []
          | some (.test _ t) => walk T fuel t
          | _ => []
    n :: viaArgs ++ n.children.flatMap (walk T fuel)

def condNames : List Bytes := [sb "header", sb "size", sb "exists", sb "body", sb "envelope", sb "currentdate"]

def tupleOf (n : Node) : R (List RVal) :=
  if n.name == sb "header" then headerTuple n
  else if n.name == sb "size" then sizeTuple n
  else if n.name == sb "exists" then existsTuple n
  else if n.name == sb "body" then bodyTuple n
  else if n.name == sb "envelope" then envelopeTuple n
  else currentdateTuple n

/-- `x[1:]` of a `str`: without its first character (one UTF-8 sequence: lead byte and its continuation bytes) -/
def dropChar : Bytes → Bytes
  | [] => []
  | _ :: rest => rest.dropWhile (fun c => c &&& 0xC0 == 0x80)

/-- `":not{}".format(x[1:])` -/
def notTag : RVal → R RVal
  | .s b => .ok (.s (sb ":not" ++ dropChar b))
  | .l _ => .error "TypeError: list in format"      -- `[1:]` of a list then formatted: prints a repr (not modelled)

/-- the rewriting of a condition that sits under a `not` -/
def negated (name : Bytes) (args : List RVal) : R (List RVal) :=
  if name == sb "header" || name == sb "envelope" then
    -- `(args[0], ":not" + args[1][1:]) + (args[2:] if len(args) > 3 else (args[2],))`
    match args with
    | a0 :: a1 :: a2 :: rest => do
      let t ← notTag a1
      pure (a0 :: t :: a2 :: rest)
    | _ => .error "IndexError"
  else if name == sb "body" then
    match args with
    | a0 :: a1 :: a2 :: rest => do
      let t ← notTag a2
      pure (a0 :: a1 :: t :: rest)
    | _ => .error "IndexError"
  else if name == sb "currentdate" then
    match args with
    | a0 :: a1 :: a2 :: a3 :: rest => do
      let t ← notTag a3
      pure (a0 :: a1 :: a2 :: t :: rest)
    | _ => .error "IndexError"
  else if name == sb "exists" then
    match args with
    | .s a0 :: rest => pure (RVal.s (sb "not" ++ a0) :: rest)
    | _ => .error "IndexError"
  else pure args

/-- the loop of `get_filter_conditions` over the walked nodes -/
def condLoop : List Node → Bool → R (List (List RVal))
  | [], _ => pure []
  | n :: rest, negate =>
    if n.name == sb "not" then condLoop rest true
    else if condNames.contains n.name then do
      let args ← tupleOf n
      let args' ← (if negate then negated n.name args else pure args)
      let more ← condLoop rest false
      pure (args' :: more)
    else condLoop rest negate

/-- enough fuel for any tree the factory or the loader hands over (depth ≤ number of nodes; capped) -/
def fuelFor (_n : Node) : Nat := 64

def conditions (T : Table) (n : Node) : R (List (List RVal)) := condLoop (walk T (fuelFor n) n) false

def actions (T : Table) (n : Node) : R (List (List RVal)) :=
  let rec go : List Node → R (List (List RVal))
    | [] => pure []
    | x :: rest =>
      match T.byName x.name with
      | some d => if d.kind == .action then do
          let t ← actionTuple d x
          let ts ← go rest
          pure (t :: ts)
        else go rest
      | none => go rest
  go (walk T (fuelFor n) n)

def matchtype (T : Table) (n : Node) : Option Bytes :=
  ((walk T (fuelFor n) n).find? (fun x => x.name == sb "allof" || x.name == sb "anyof")).map Node.name

/-! ## the loader -/

/-- `s.replace(pre, "")` for a non-empty `pre`: every non-overlapping occurrence, left to right -/
def removeAllAux (pre : Bytes) : Nat → Bytes → Bytes
  | _, [] => []
  | k + 1, _ :: cs => removeAllAux pre k cs
  | 0, c :: cs => if B.startsWith (c :: cs) pre then removeAllAux pre (pre.length - 1) cs else c :: removeAllAux pre 0 cs

def removeAll (pre s : Bytes) : Bytes := if pre.isEmpty then s else removeAllAux pre 0 s

/-- the `for comment in f.hash_comments` loop -/
def nameDescL (namePre descPre : Bytes) : List Bytes → Bytes × Bytes → Bytes × Bytes
  | [], acc => acc
  | c :: rest, (n, d) =>
    let n' := if B.startsWith c namePre then removeAll namePre c else n
    let d' := if B.startsWith c descPre then removeAll descPre c else d
    nameDescL namePre descPre rest (n', d')

/-- `__isdisabled`: an `if` whose test is `false` -/
def isDisabled (n : Node) : Bool :=
  n.name == sb "if" && (match assocGet n.args "test" with
    | some (.test _ t) => t.name == sb "false"
    | _ => false)

structure Loaded where
  name : Bytes
  description : Bytes
  content : Node
  enabled : Bool

/-- `from_parser_result`: requirement list and filters (`cpt` = number for unnamed rules) -/
def load (namePre descPre : Bytes) : List Node → Nat → List Bytes → List Loaded → List Bytes × List Loaded
  | [], _, reqs, acc => (reqs, acc.reverse)
  | f :: rest, cpt, reqs, acc =>
    if f.name == sb "require" then
      let caps : List Bytes := match assocGet f.args "capabilities" with
        | some (.strs _ l) => l
        | some (.str _ v) => [v]
        | _ => []
      load namePre descPre rest cpt (caps.foldl Factory.require reqs) acc
    else
      let (nm, ds) := nameDescL namePre descPre f.comments (sb "Unnamed rule " ++ B.natToDec cpt, [])
      load namePre descPre rest (cpt + 1) reqs ({ name := nm, description := ds, content := f, enabled := !isDisabled f } :: acc)

/-- `getfilter`: the content, or what is inside the `if false` wrapper of a disabled filter -/
def filterBody (l : Loaded) : Option Node :=
  if l.enabled then some l.content else l.content.children.head?

end Readback
