import SieveModel.Model.Machine
import SieveModel.Model.ToList
/-!
# M6b — `FiltersSet.__create_filter`: from condition / action descriptions to a command tree

Transliteration of `sievelib/factory.py` (`require`, `check_if_arg_is_extension`, `__quote*`,
`__add_match_tag`, `__build_condition`, `__create_filter`).  The factory drives the same generic
argument interpreter as the parser (`Args.checkNextArg`), ignoring a `False` answer, and keeps the
requirement list of the set as it goes (also when it ends by raising: the list is an in/out state).

Descriptions are tuples of `str`, `list` of `str` and `int`; text is UTF-8 bytes here.  Shapes the
documented condition / action kinds do not use (a list where a tag is expected, …) make Python raise
`AttributeError` / `IndexError` / `TypeError`: `Err.crash`.
-/
namespace Factory
open Args

inductive Val where
  | s (b : Bytes)
  | l (items : List Bytes)
  | n (k : Nat)
  deriving DecidableEq, Repr, Inhabited

/-- what the factory consults besides the command table -/
structure Cfg where
  T : Table
  /-- `commands.match_type["extension_values"]` -/
  matchExt : List (Bytes × Bytes)
  /-- `args_using_extensions` in `check_if_arg_is_extension` -/
  argExt : List (Bytes × Bytes)
  /-- `RequireCommand.loaded_extensions` at the time of the call (class attribute) -/
  gl : List Bytes
  /-- `none`: the code as it is.  `some L`: the same construction with every extension check switched on
      (`checkexists`, `check_extension`) against the list `L` — what a parser that has loaded `L` would insist on -/
  strict : Option (List Bytes) := none

inductive Err where
  | cmd (e : CmdErr)
  | parse (e : PErr)
  | crash (w : String)
  /-- Python does something the model does not follow (outside the documented kinds) -/
  | unmodelled
  deriving DecidableEq, Repr

/-- `'"%s"' % value.replace("\\", "\\\\").replace('"', '\\"')` -/
def escape : Bytes → Bytes
  | [] => []
  | c :: rest => if c == 92 then 92 :: 92 :: escape rest else if c == 34 then 92 :: 34 :: escape rest else c :: escape rest

def quote (v : Bytes) : Bytes := [34] ++ escape v ++ [34]

/-- `__quote_if_necessary`: a value that starts with a quote character is taken as already quoted -/
def quoteIfNecessary (v : Bytes) : Bytes :=
  match v with
  | 34 :: _ => v
  | 39 :: _ => v
  | _ => quote v

/-- `__quote_list`: `"[%s]" % ",".join(quote(v) for v in values)` -/
def quoteList (vs : List Bytes) : Bytes := [91] ++ ToList.joinComma (vs.map quote) ++ [93]

/-- `self.require(name)` -/
def require (reqs : List Bytes) (name : Bytes) : List Bytes := Machine.addExt reqs name

/-- `s.replace("not", "")`: every non-overlapping occurrence, left to right (`skip` = bytes of a match still to drop) -/
def dropNotAux : Nat → Bytes → Bytes
  | _, [] => []
  | k + 1, _ :: cs => dropNotAux k cs
  | 0, c :: cs => if B.startsWith (c :: cs) [110, 111, 116] then dropNotAux 2 cs else c :: dropNotAux 0 cs

def dropNot (b : Bytes) : Bytes := dropNotAux 0 b

/-- `s.replace("not", "", 1)` -/
def dropNotFirst : Bytes → Bytes
  | [] => []
  | c :: cs => if B.startsWith (c :: cs) [110, 111, 116] then cs.drop 2 else c :: dropNotFirst cs

/-- a command object under construction -/
structure Cmd where
  d : CmdDef
  st : CState := {}
  children : List Node := []

def Cmd.node (c : Cmd) : Node := .mk c.d.name c.st.arguments c.st.extraArgs c.children []

/-- the list extension checks are made against, and whether an optional check is made -/
def Cfg.loaded (cfg : Cfg) : List Bytes := cfg.strict.getD cfg.gl
def Cfg.check (cfg : Cfg) (asked : Bool) : Bool := cfg.strict.isSome || asked

/-- `get_command_instance(name, parent, checkexists)` -/
def newCmd (cfg : Cfg) (name : Bytes) (checkexists : Bool := true) : Except Err Cmd :=
  match Machine.getCommand cfg.T cfg.loaded name (cfg.check checkexists) with
  | .error e => .error (.parse e)
  | .ok d => .ok { d := d }

/-- `cmd.check_next_arg(t, v, check_extension=ce)`; a `False` answer is ignored by the factory -/
def Cmd.arg (cfg : Cfg) (c : Cmd) (t : ArgType) (v : AVal) (ce : Bool := true) : Except Err Cmd :=
  match checkNextArg c.d cfg.loaded c.st t v true (cfg.check ce) with
  | .error e => .error (.cmd e)
  | .ok none => .ok c
  | .ok (some (st', _)) => .ok { c with st := st' }

/-- requirement list in, (requirement list, outcome) out -/
abbrev Out (α : Type) := List Bytes × Except Err α

/-- `r, x ← step; rest r x` on `Out` -/
def Out.andThen {α β : Type} (o : Out α) (f : List Bytes → α → Out β) : Out β :=
  match o with
  | (r, .error e) => (r, .error e)
  | (r, .ok a) => f r a

/-- `c[i]` -/
def idx (c : List Val) (i : Nat) : Except Err Val :=
  match c[i]? with
  | some v => .ok v
  | none => .error (.crash "IndexError")

/-- the item as the receiver of a `str` method (`startswith`, `replace`) -/
def strOf : Val → Except Err Bytes
  | .s b => .ok b
  | _ => .error (.crash "AttributeError: not a str")

/-- the item handed to `check_next_arg` as it is (an `int` is shown by its decimal text: it only ever lands in slots
    without a value list, where the interpreter does not look into it) -/
def toAVal : Val → AVal
  | .s b => .str b
  | .l items => .strs items
  | .n k => .str (B.natToDec k)

/-- an item handed over as a tag: an `int` there makes `.lower()` raise or not depending on the slot (not modelled) -/
def tagAVal : Val → Except Err AVal
  | .n _ => .error .unmodelled
  | v => .ok (toAVal v)

/-- `str(value)` inside `__quote` (a list would print its `repr`: not modelled) -/
def textOf : Val → Except Err Bytes
  | .s b => .ok b
  | .n k => .ok (B.natToDec k)
  | .l _ => .error .unmodelled

def textsOf : List Val → Except Err (List Bytes)
  | [] => .ok []
  | v :: rest =>
    match textOf v, textsOf rest with
    | .ok b, .ok bs => .ok (b :: bs)
    | .error e, _ => .error e
    | _, .error e => .error e

/-- `__quote_list(x)` where `x` is one item of the description: a list of `str` (a `str` would be quoted character by
    character: not modelled; an `int` is not iterable) -/
def quoteListOf : Val → Except Err Bytes
  | .l items => .ok (quoteList items)
  | .s _ => .error .unmodelled
  | .n _ => .error (.crash "TypeError: int is not iterable")

/-! ## One command, step by step

What `__create_filter` does to build one test or one action is a fixed sequence of calls determined by the
description alone (which items exist, which are lists, whether a tag starts with `:not`); the table, the
loaded extensions and the requirement list only decide how each call ends.  `Step` is one such call;
a shape error of the description (`IndexError`, a method missing on an `int`) is the step `fail`, placed
where Python would raise. -/
inductive Step where
  /-- `self.__add_match_tag(cmd, tag)` -/
  | matchTag (tag : Bytes)
  /-- `cmd.check_next_arg(t, v)` -/
  | arg (t : ArgType) (v : AVal)
  | fail (e : Err)

/-- how the extension of the command's own class gets into the requirement list -/
inductive Cover where
  /-- `get_command_instance` checks it (`checkexists=True`) -/
  | checked
  /-- `self.require(cmd.extension)` — raises if the class has none -/
  | own
  /-- `if action.extension is not None: self.require(action.extension)` -/
  | ownIfAny
  /-- `self.require(<literal>)` -/
  | lit (e : Bytes)
  /-- nothing is required -/
  | nothing
  deriving DecidableEq

/-- continue with `f a`, or raise here -/
def seq {α : Type} (x : Except Err α) (f : α → List Step) : List Step :=
  match x with
  | .error e => [.fail e]
  | .ok a => f a

/-- `__add_match_tag`: which extension, if any, the tag brings -/
def matchTagExt (cfg : Cfg) (tag : Bytes) : Option Bytes :=
  match extLookup cfg.matchExt (B.lower tag) with
  | some e => if e.isEmpty then none else some e
  | none => none

/-- `check_if_arg_is_extension(arg)`: which extension, if any, the argument brings -/
def argExt (cfg : Cfg) (a : Val) : Option Bytes :=
  match a with
  | .s b => extLookup cfg.argExt (B.lower b)
  | _ => none

def requireOpt (reqs : List Bytes) : Option Bytes → List Bytes
  | some e => require reqs e
  | none => reqs

/-- the typed `check_next_arg` call an action argument becomes -/
def actCall (v : Val) : ArgType × AVal :=
  match v with
  | .n k => (.number, .str (B.natToDec k))
  | .l items => (.stringlist, .strs (items.map quoteIfNecessary))
  | .s b => if B.startsWith b [58] then (.tag, .str b) else (.string, .str (quoteIfNecessary b))

def runStep (cfg : Cfg) (reqs : List Bytes) (c : Cmd) : Step → Out Cmd
  | .matchTag tag => (requireOpt reqs (matchTagExt cfg tag), c.arg cfg .tag (.str tag) false)
  | .arg t v => (reqs, c.arg cfg t v)
  | .fail e => (reqs, .error e)

def runSteps (cfg : Cfg) : List Bytes → Cmd → List Step → Out Cmd
  | reqs, c, [] => (reqs, .ok c)
  | reqs, c, s :: rest =>
    match runStep cfg reqs c s with
    | (r, .error e) => (r, .error e)
    | (r, .ok c') => runSteps cfg r c' rest

/-- one argument of an action: `check_if_arg_is_extension(arg)`, then
    `check_next_arg(<type by shape>, arg, check_extension=False)` -/
def runAct (cfg : Cfg) (reqs : List Bytes) (c : Cmd) (v : Val) : Out Cmd :=
  (requireOpt reqs (argExt cfg v), c.arg cfg (actCall v).1 (actCall v).2 false)

def runActs (cfg : Cfg) : List Bytes → Cmd → List Val → Out Cmd
  | reqs, c, [] => (reqs, .ok c)
  | reqs, c, v :: rest =>
    match runAct cfg reqs c v with
    | (r, .error e) => (r, .error e)
    | (r, .ok c') => runActs cfg r c' rest

/-- one command to build: class name, how its own extension is covered, the calls that follow (a test: `steps`;
    an action: its arguments `acts`) -/
structure Plan where
  name : Bytes
  cover : Cover
  steps : List Step
  acts : List Val := []

/-- the requirement made right after the instance exists -/
def coverReqs (reqs : List Bytes) (d : CmdDef) : Cover → Out Unit
  | .checked => (reqs, .ok ())
  | .nothing => (reqs, .ok ())
  | .lit e => (require reqs e, .ok ())
  | .ownIfAny => (requireOpt reqs d.extension, .ok ())
  | .own =>
    match d.extension with
    | none => (reqs, .error (.crash "AttributeError: NoneType has no strip"))
    | some e => (require reqs e, .ok ())

def runPlan (cfg : Cfg) (reqs : List Bytes) (p : Plan) : Out Cmd :=
  match newCmd cfg p.name (p.cover == .checked) with
  | .error e => (reqs, .error e)
  | .ok cmd =>
    match coverReqs reqs cmd.d p.cover with
    | (r, .error e) => (r, .error e)
    | (r, .ok _) => (runSteps cfg r cmd p.steps).andThen fun r1 c1 => runActs cfg r1 c1 p.acts

/-- `if x.startswith(":not"): comp_tag = x.replace("not", ""); negate = True` -/
def compTag (x : Bytes) (negate : Bool) : Bytes × Bool :=
  if B.startsWith x (sb ":not") then (dropNot x, true) else (x, negate)

/-- a string or string-list argument built from a header-style item:
    `[quote_if_necessary(c) for c in item]` as a list, or `quote_if_necessary(item)` -/
def headerArgStep : Val → Step
  | .l items => .arg .stringlist (.strs (items.map quoteIfNecessary))
  | .s b => .arg .string (.str (quoteIfNecessary b))
  | .n _ => .fail (.crash "AttributeError: int has no startswith")

/-- `__build_condition(condition, parent, tag)` — the `header` fallback -/
def headerPlan (c : List Val) (tag : Bytes) : Plan :=
  { name := sb "header", cover := .checked,
    steps := .matchTag tag :: seq (idx c 0) fun c0 => headerArgStep c0 :: seq (idx c 2) fun c2 => [headerArgStep c2] }

/-- `for arg in c[2:]: cmd.check_next_arg("stringlist", quote_if_necessary(arg) | quote_list(arg))` -/
def addressArgStep : Val → Step
  | .s b => .arg .stringlist (.str (quoteIfNecessary b))
  | .l items => .arg .stringlist (.str (quoteList items))
  | .n _ => .fail (.crash "TypeError: int is not iterable")

/-- which branch of `__create_filter` a condition takes, by its (un-negated) name -/
inductive CondKind | truefalse | size | exists_ | envelope | address | body | currentdate | header
  deriving DecidableEq, Repr

def kindOf (cname : Option Bytes) : CondKind :=
  if cname == some (sb "true") || cname == some (sb "false") then .truefalse
  else if cname == some (sb "size") then .size
  else if cname == some (sb "exists") then .exists_
  else if cname == some (sb "envelope") then .envelope
  else if cname == some (sb "address") then .address
  else if cname == some (sb "body") then .body
  else if cname == some (sb "currentdate") then .currentdate
  else .header

/-- the comparison tag of a condition and the negation it implies (`c[i]` must be a `str`) -/
def tagNeg (c : List Val) (i : Nat) (neg0 : Bool) : Except Err (Bytes × Bool) := do
  let t ← strOf (← idx c i)
  pure (compTag t neg0)

def negOf (tn : Except Err (Bytes × Bool)) (neg0 : Bool) : Bool :=
  match tn with
  | .ok (_, n) => n
  | .error _ => neg0

/-- the plan for a condition of a given kind (`c0` = `c[0]`, `neg0` = "the name starts with `not`") -/
def planFor (c : List Val) (c0 : Val) (neg0 : Bool) : CondKind → Except Err (Plan × Bool)
  | .truefalse =>
    -- `get_command_instance(c[0], ifcontrol)`: the name as given, `not` prefix included
    (strOf c0).map fun nm => ({ name := nm, cover := .checked, steps := [] }, neg0)
  | .size =>
    .ok ({ name := sb "size", cover := .checked,
           steps := seq (idx c 1) fun c1 => seq (tagAVal c1) fun t => .arg .tag t :: seq (idx c 2) fun c2 => [.arg .number (toAVal c2)] }, neg0)
  | .exists_ =>
    .ok ({ name := sb "exists", cover := .checked,
           steps := seq (textsOf (c.drop 1)) fun items => [.arg .stringlist (.str (quoteList items))] }, neg0)
  | .envelope =>
    -- the comparison tag decides the negation: known only if `c[1]` is a `str`; otherwise Python raises after the `require`
    .ok ({ name := sb "envelope", cover := .lit (sb "envelope"),
           steps := seq (tagNeg c 1 neg0) fun (tag, _) =>
             .matchTag tag :: seq (idx c 2) fun c2 => seq (quoteListOf c2) fun l2 =>
               .arg .stringlist (.str l2) :: seq (idx c 3) fun c3 => seq (quoteListOf c3) fun l3 => [.arg .stringlist (.str l3)] },
         negOf (tagNeg c 1 neg0) neg0)
  | .address =>
    .ok ({ name := sb "address", cover := .nothing,
           steps := seq (tagNeg c 1 neg0) fun (tag, _) => .matchTag tag :: (c.drop 2).map addressArgStep },
         negOf (tagNeg c 1 neg0) neg0)
  | .body =>
    .ok ({ name := sb "body", cover := .own,
           steps := seq (idx c 1) fun c1 => seq (strOf c1) fun t1 =>
             .matchTag t1 :: seq (tagNeg c 2 neg0) fun (tag, _) =>
               .matchTag tag :: seq (textsOf (c.drop 3)) fun items => [.arg .stringlist (.str (quoteList items))] },
         negOf (tagNeg c 2 neg0) neg0)
  | .currentdate =>
    .ok ({ name := sb "currentdate", cover := .own,
           steps := seq (idx c 1) fun c1 => seq (strOf c1) fun t1 =>
             .matchTag t1 :: seq (idx c 2) fun c2 => seq (strOf c2) fun zone =>
               .arg .string (.str (quoteIfNecessary zone)) :: seq (tagNeg c 3 neg0) fun (tag, _) =>
                 .matchTag tag ::
                   -- `:value` takes the relational operator first
                   (if tag == sb ":value" then
                      seq (idx c 4) fun c4 => seq (strOf c4) fun o =>
                        .arg .string (.str (quoteIfNecessary o)) :: seq (idx c 5) fun c5 => seq (strOf c5) fun p =>
                          .arg .string (.str (quoteIfNecessary p)) :: seq (textsOf (c.drop 6)) fun ks => [.arg .stringlist (.str (quoteList ks))]
                    else
                      seq (idx c 4) fun c4 => seq (strOf c4) fun p =>
                        .arg .string (.str (quoteIfNecessary p)) :: seq (textsOf (c.drop 5)) fun ks => [.arg .stringlist (.str (quoteList ks))]) },
         negOf (tagNeg c 3 neg0) neg0)
  | .header =>
    -- header fallback: `(names, tag, keys)`
    (do strOf (← idx c 1) : Except Err Bytes).map fun t1 =>
      if B.startsWith t1 (sb ":not") then (headerPlan c (dropNotFirst t1), true) else (headerPlan c t1, neg0)

/-- the plan of one condition and whether its test is to be wrapped in `not`;
    `Except`: what is raised before any command exists -/
def condPlan (c : List Val) : Except Err (Plan × Bool) :=
  match c with
  | [] => .error (.crash "IndexError")
  | c0 :: _ =>
    -- `if not isinstance(c[0], list) and c[0].startswith("not")`
    match c0 with
    | .n _ => .error (.crash "AttributeError: int has no startswith")
    | .l _ => planFor c c0 false (kindOf none)
    | .s b =>
      let neg0 := B.startsWith b (sb "not")
      planFor c c0 neg0 (kindOf (some (if neg0 then dropNotFirst b else b)))

/-- one condition: its test, wrapped in `not` if negated -/
def buildCond (cfg : Cfg) (reqs : List Bytes) (c : List Val) : Out Node :=
  match condPlan c with
  | .error e => (reqs, .error e)
  | .ok (plan, negate) =>
    (runPlan cfg reqs plan).andThen fun r cmd =>
      if negate then
        match newCmd cfg (sb "not") with
        | .error e => (r, .error e)
        | .ok nc => (r, (nc.arg cfg .test (.test cmd.node)).map Cmd.node)
      else (r, .ok cmd.node)

/-- the conditions, each handed to the match-type test (`anyof` / `allof`) as it is built -/
def buildConds (cfg : Cfg) : List Bytes → Cmd → List (List Val) → Out Cmd
  | reqs, mt, [] => (reqs, .ok mt)
  | reqs, mt, c :: rest =>
    (buildCond cfg reqs c).andThen fun r n =>
      match mt.arg cfg .test (.test n) with
      | .error e => (r, .error e)
      | .ok mt' => buildConds cfg r mt' rest

/-- the plan of one action: `(name, arg, …)` -/
def actionPlan (act : List Val) : Except Err Plan :=
  match act with
  | [] => .error (.crash "IndexError")
  | a0 :: args => (strOf a0).map fun name => { name := name, cover := .ownIfAny, steps := [], acts := args }

def buildAction (cfg : Cfg) (reqs : List Bytes) (act : List Val) : Out Node :=
  match actionPlan act with
  | .error e => (reqs, .error e)
  | .ok plan => (runPlan cfg reqs plan).andThen fun r c => (r, .ok c.node)

/-- the actions, each added to the `if` as it is built (`addchild` refuses silently if the command does
    not accept children) -/
def buildActions (cfg : Cfg) : List Bytes → Cmd → List (List Val) → Out Cmd
  | reqs, ifc, [] => (reqs, .ok ifc)
  | reqs, ifc, a :: rest =>
    (buildAction cfg reqs a).andThen fun r n =>
      buildActions cfg r (if ifc.d.acceptChildren then { ifc with children := ifc.children ++ [n] } else ifc) rest

/-- `__create_filter(conditions, actions, matchtype)` -/
def createFilter (cfg : Cfg) (reqs : List Bytes) (conds acts : List (List Val)) (matchtype : Bytes) : Out Node :=
  match newCmd cfg (sb "if") with
  | .error e => (reqs, .error e)
  | .ok ifc =>
    match newCmd cfg matchtype with
    | .error e => (reqs, .error e)
    | .ok mt =>
      (buildConds cfg reqs mt conds).andThen fun r mt' =>
        match ifc.arg cfg .test (.test mt'.node) with
        | .error e => (r, .error e)
        | .ok ifc1 => (buildActions cfg r ifc1 acts).andThen fun r' ifc2 => (r', .ok ifc2.node)

end Factory
