import SieveModel.Model.Args
import SieveModel.Model.Utf8
/-!
# M4 — the push-down parser (`sievelib.parser.Parser`, after the `fix:` commits)

The chain `__curcommand → parent → …` is a stack of `Frame`s (head = `__curcommand`).  Python
attaches a node to its parent when it is *created*; here a placeholder is attached at creation
and replaced by the finished node when the frame is popped (`cur := cur.parent`).
-/

inductive Attach where
  | top                     -- no parent
  | child                   -- parent.children
  | place (p : Placement)   -- where `check_next_arg("test", …)` stored it
  deriving DecidableEq, Repr, Inhabited

structure Frame where
  d : CmdDef
  st : CState := {}
  children : List Node := []
  attach : Attach := .top
  deriving Inhabited

inductive CS | none | arguments | stringlist
  deriving DecidableEq, Repr, Inhabited

structure PState where
  result : List Node := []
  comments : List Bytes := []
  stack : List Frame := []
  cstate : CS := .none
  curlist : List Bytes := []
  expected : Option (List TokKind) := none
  brackets : List TokKind := []
  loaded : List Bytes := []
  deriving Inhabited

inductive PErr where
  | lexical
  | expected (found : TokKind) (exp : List TokKind)
  | unexpectedToken
  | unknownCommand (ident : Bytes)
  | extNotLoaded (e : Bytes)
  | badArgument (cmd : Bytes)
  | badValue (arg : String)
  | mustFollow (cmd : Bytes)
  | firstCommandTest (cmd : Bytes)
  | expectedTest (cmd : Bytes)
  | unexpectedAfter (cmd : Bytes)
  | closingBracket
  | endExpected (exp : List TokKind)
  | endUnfinished (cmd : Bytes)
  | decodeError
  deriving DecidableEq, Repr

/-- result of feeding one token -/
inductive StepResult where
  | ok (s : PState)
  | rewind (s : PState)          -- `self.lexer.pos -= 1`: the same token is delivered again
  | reject (e : PErr) (rewound : Bool)
  | crash (what : String)

namespace Machine

def Frame.toNode (f : Frame) (comments : List Bytes := []) : Node :=
  .mk f.d.name f.st.arguments f.st.extraArgs f.children comments

def Frame.complete (f : Frame) : Bool := Args.isComplete f.d.variableArgs f.d.args f.st none

/-- replace the last element of a test list -/
def replaceLast (l : List Node) (n : Node) : List Node :=
  match l.reverse with
  | [] => [n]
  | _ :: r => (n :: r).reverse

/-- store the finished node `n` of a popped frame into its parent `p` -/
def plug (p : Frame) (a : Attach) (n : Node) : Frame :=
  match a with
  | .top => p
  | .child => { p with children := p.children ++ [n] }
  | .place .nowhere => p
  | .place (.arg k) => { p with st := { p.st with arguments := assocSet p.st.arguments (.test k n) } }
  | .place (.extra k) => { p with st := { p.st with extraArgs := assocSet p.st.extraArgs (.test k n) } }
  | .place (.elem k) =>
    match assocGet p.st.arguments k with
    | some (.tests _ ts) =>
      { p with st := { p.st with arguments := assocSet p.st.arguments (.tests k (replaceLast ts n)) } }
    | _ => p

def liftCmdErr : CmdErr → StepResult
  | .badValue a => .reject (.badValue a) false
  | .badArgument c => .reject (.badArgument c) false
  | .extNotLoaded e => .reject (.extNotLoaded e) false
  | .crash w => .crash w

/-- `get_command_instance` -/
def getCommand (T : Table) (loaded : List Bytes) (ident : Bytes) (checkexists : Bool := true) :
    Except PErr CmdDef :=
  match T.lookup ident with
  | none => .error (.unknownCommand ident)
  | some d =>
    if checkexists && Args.extMissing d.extension loaded then
      .error (.extNotLoaded (d.extension.getD []))
    else .ok d

/-- the `while self.__curcommand:` loop of `__up`; `f` is the frame being left.
    Returns the new stack and whether `comma|right_parenthesis` becomes expected. -/
def upLoop (f : Frame) : List Frame → List Frame × Bool
  | [] => ([], false)
  | p :: rest =>
    let p' := plug p f.attach (Frame.toNode f)
    if p'.d.kind == .test && Frame.complete p' then upLoop p' rest
    else (p' :: rest, p'.d.kind == .test && p'.d.variableArgs)

/-- a finished top-level command is recorded in `result` with the pending hash comments -/
def record (s : PState) (f : Frame) (rest : List Frame) : PState :=
  match rest with
  | [] => { s with result := s.result ++ [Frame.toNode f s.comments], comments := [] }
  | _ => s

/-- `__up()` -/
def up (s : PState) : Except String PState :=
  match s.stack with
  | [] => .error "AttributeError: NoneType (up without current command)"
  | f :: rest =>
    .ok { record s f rest with
            stack := (upLoop f rest).1,
            expected := if (upLoop f rest).2 then some [.comma, .right_parenthesis]
                        else (record s f rest).expected }

structure ComplOut where
  ok : Bool
  stack : List Frame
  expected : Option (List TokKind)   -- `none`: unchanged

/-- the `while self.__curcommand.parent:` loop of `__check_command_completion` -/
def complLoop (loaded : List Bytes) (f : Frame) : List Frame → Except CmdErr ComplOut
  | [] => .ok ⟨true, [f], none⟩
  | p :: rest =>
    let p' := plug p f.attach (Frame.toNode f)
    if p'.d.kind == .control || p'.d.kind == .test then
      if Frame.complete p' then
        if p'.d.kind == .control then .ok ⟨true, p' :: rest, some [.left_cbracket]⟩
        else complLoop loaded p' rest
      else
        match Args.checkNextArg p'.d loaded p'.st .test (.test (Frame.toNode f)) (add := false) with
        | .error e => .error e
        | .ok none => .ok ⟨false, p' :: rest, none⟩
        | .ok (some (st', _)) =>
          let p'' := { p' with st := st' }
          if !Frame.complete p'' then
            .ok ⟨true, p'' :: rest, if p''.d.variableArgs then some [.comma, .right_parenthesis] else none⟩
          else complLoop loaded p'' rest
    else complLoop loaded p' rest

/-- `__check_command_completion(testsemicolon)`: returns (ok, state) -/
def completion (s : PState) (testsemicolon : Bool) : Except CmdErr (Bool × PState) :=
  match s.stack with
  | [] => .error (.crash "AttributeError: NoneType (completion without current command)")
  | f :: rest =>
    if !Frame.complete f then .ok (true, s)
    else if f.d.kind == .action || (f.d.kind == .control && !f.d.acceptChildren) then
      .ok (true, if testsemicolon then { s with expected := some [.semicolon] } else s)
    else
      match complLoop s.loaded f rest with
      | .error e => .error e
      | .ok o =>
        .ok (o.ok, { s with stack := o.stack,
                            expected := match o.expected with | some e => some e | none => s.expected })

/-- `__pop_expected_bracket` -/
def popBracket (s : PState) (k : TokKind) : Option PState :=
  match s.brackets with
  | [] => none
  | b :: rest => if b == k then some { s with brackets := rest } else none

/-- the capability strings of a `require` frame (`arguments["capabilities"]`, str or list) -/
def capabilityArgs (args : List Arg) : List Bytes :=
  match assocGet args "capabilities" with
  | some (.str _ v) => [v]
  | some (.strs _ vs) => vs
  | _ => []

/-- `ext = ext.strip('"'); if ext not in loaded: loaded += [ext]` -/
def addExt (loaded : List Bytes) (e : Bytes) : List Bytes :=
  if decide (B.stripC 34 e ∈ loaded) then loaded else loaded ++ [B.stripC 34 e]

def addExts (loaded : List Bytes) (exts : List Bytes) : List Bytes := exts.foldl addExt loaded

/-- `RequireCommand.complete_cb` (other classes: no-op) -/
def completeCb (f : Frame) (loaded : List Bytes) : List Bytes :=
  match f.d.special with
  | .require => addExts loaded (capabilityArgs f.st.arguments)
  | _ => loaded

/-- `HasflagCommand.reassign_arguments`; `none` = returned False -/
def reassign (f : Frame) : Option Frame :=
  match f.d.special with
  | .hasflag =>
    match assocGet f.st.arguments "variable-list" with
    | some a =>
      if assocHas f.st.arguments "list-of-flags" then none else
      let v : Arg := a.rekey "list-of-flags"
      some { f with st := { f.st with arguments := assocErase f.st.arguments "variable-list" ++ [v],
                                       rargsCnt := 1 } }
    | none => none
  | _ => none

def withTop (s : PState) (f : Frame) : PState :=
  match s.stack with
  | [] => s
  | _ :: rest => { s with stack := f :: rest }

/-- apply `cur.check_next_arg(t, v)`; `ok (false, s)` = returned False -/
def curCheck (s : PState) (t : ArgType) (v : AVal) : Except CmdErr (Bool × PState × Placement) :=
  match s.stack with
  | [] => .error (.crash "AttributeError: NoneType (argument without current command)")
  | f :: _ =>
    match Args.checkNextArg f.d s.loaded f.st t v with
    | .error e => .error e
    | .ok none => .ok (false, s, .nowhere)
    | .ok (some (st', pl)) => .ok (true, withTop s { f with st := st' }, pl)

/-- result of a state function: Python's True/False plus the rewind flag -/
inductive FnResult where
  | ret (b : Bool) (s : PState) (rewound : Bool)
  | err (e : PErr) (rewound : Bool)
  | crash (w : String)

def ofCmdErr (rew : Bool) : CmdErr → FnResult
  | .badValue a => .err (.badValue a) rew
  | .badArgument c => .err (.badArgument c) rew
  | .extNotLoaded e => .err (.extNotLoaded e) rew
  | .crash w => .crash w

def complThen (s : PState) (ts : Bool) (rew : Bool) : FnResult :=
  match completion s ts with
  | .error e => ofCmdErr rew e
  | .ok (b, s') => .ret b s' rew

/-- `__stringlist` -/
def stringlistFn (s : PState) (k : TokKind) (text : Bytes) : FnResult :=
  match k with
  | .string =>
    if !Utf8.valid text then .err .decodeError false
    else .ret true { s with curlist := s.curlist ++ [text],
                            expected := some [.comma, .right_bracket] } false
  | .comma => .ret true { s with expected := some [.string] } false
  | .right_bracket =>
    match popBracket s k with
    | none => .err .closingBracket false
    | some s1 =>
      match curCheck s1 .stringlist (.strs s1.curlist) with
      | .error e => ofCmdErr false e
      | .ok (false, s2, _) => .ret false s2 false
      | .ok (true, s2, _) => complThen { s2 with cstate := .arguments } true false
  | _ => .ret false s false

/-- `self.__curcommand.check_next_arg(t, v)` as the result of a state function -/
def offer (s : PState) (t : ArgType) (v : AVal) : FnResult :=
  match curCheck s t v with
  | .error e => ofCmdErr false e
  | .ok (b, s', _) => .ret b s' false

/-- `{`, `,` or `)` where an argument could follow: a command with a non-deterministic argument
    order re-assigns what it has got and the token is delivered again -/
def tryReassign (s : PState) : FnResult :=
  match s.stack with
  | [] => .crash "AttributeError: NoneType"
  | f :: _ =>
    if f.d.nonDet then
      match reassign f with
      | none => .ret false s false
      | some f' => .ret true (withTop s f') true
    else .ret false s false

/-- `[`: the list state is entered -/
def openList (s : PState) : PState :=
  { s with brackets := .right_bracket :: s.brackets, cstate := .stringlist, curlist := [], expected := some [.string] }

/-- `__argument` -/
def argumentFn (s : PState) (k : TokKind) (text : Bytes) : FnResult :=
  match k with
  | .string | .multiline => if !Utf8.valid text then .err .decodeError false else offer s .string (.str text)
  | .number => offer s .number (.str text)
  | .tag => offer s .tag (.str text)
  | .left_bracket => .ret true (openList s) false
  | .left_cbracket | .comma | .right_parenthesis => tryReassign s
  | _ => .ret false s false

/-- `if self.__argument(...): return self.__check_command_completion(testsemicolon=False)` -/
def thenCompl (r : FnResult) : FnResult :=
  match r with
  | .ret true s' rew => complThen s' false rew
  | r => r

def argThenCompl (s : PState) (k : TokKind) (text : Bytes) : FnResult := thenCompl (argumentFn s k text)

/-- an identifier among the arguments: a test, pushed as the new current command -/
def pushTest (T : Table) (s : PState) (text : Bytes) : FnResult :=
  match getCommand T s.loaded text with
  | .error e => .err e false
  | .ok d =>
    if d.kind != .test then .err (.expectedTest d.name) false else
    match curCheck s .test (.test (.mk d.name [] [] [] [])) with
    | .error e => ofCmdErr false e
    | .ok (false, s1, _) => .ret false s1 false
    | .ok (true, s1, pl) =>
      complThen { s1 with expected := d.expectedFirst,
                          stack := { d := d, attach := .place pl } :: s1.stack } false false

/-- `)` closing a test list -/
def closeParen (s : PState) : FnResult :=
  match popBracket s .right_parenthesis with
  | none => .err .closingBracket false
  | some s1 =>
    match up s1 with
    | .error w => .crash w
    | .ok s2 => .ret true s2 false

/-- `__arguments` -/
def argumentsFn (T : Table) (s : PState) (k : TokKind) (text : Bytes) : FnResult :=
  match s.stack with
  | [] => .crash "AttributeError: NoneType (arguments without current command)"
  | f :: _ =>
    match k with
    | .identifier => pushTest T s text
    | .left_parenthesis =>
      if f.d.variableArgs then
        .ret true { s with brackets := .right_parenthesis :: s.brackets,
                           expected := some [.identifier] } false
      else argThenCompl s k text
    | .comma =>
      if f.d.variableArgs then .ret true { s with expected := some [.identifier] } false
      else argThenCompl s k text
    | .right_parenthesis =>
      if f.d.nonDet then argThenCompl s k text else closeParen s
    | _ => argThenCompl s k text

def lastName (l : List Node) : Option Bytes := (l.getLast?).map Node.name

/-- a control command that takes a block and has arguments announces that an identifier follows -/
def announce (s : PState) (d : CmdDef) : PState :=
  if d.kind == .control && d.acceptChildren && !d.args.isEmpty then { s with expected := some [.identifier] } else s

/-- name of the previous sibling (top level: last command of the result; in a block: last child) -/
def prevName (s : PState) : Option Bytes :=
  match s.stack with
  | [] => lastName s.result
  | f :: _ => lastName f.children

/-- `must_follow` -/
def followOk (d : CmdDef) (prev : Option Bytes) : Bool :=
  match d.mustFollow with
  | none => true
  | some names =>
    match prev with
    | none => false
    | some p => decide (p ∈ names)

/-- the new command becomes the current one (child of the current block owner, if any) -/
def pushCommand (s1 : PState) (d : CmdDef) : FnResult :=
  match s1.stack with
  | [] => .ret true { s1 with stack := [{ d := d, attach := .top }], cstate := .arguments } false
  | f :: _ =>
    if !f.d.acceptChildren then .err (.unexpectedAfter f.d.name) false
    else .ret true { s1 with stack := { d := d, attach := .child } :: s1.stack, cstate := .arguments } false

/-- `__command` when no command is being parsed: a closing brace or the name of a new command -/
def startCommand (T : Table) (s : PState) (k : TokKind) (text : Bytes) : FnResult :=
  if k == .right_cbracket then
    match popBracket s k with
    | none => .err .closingBracket false
    | some s1 =>
      match up s1 with
      | .error w => .crash w
      | .ok s2 => .ret true { s2 with cstate := .none } false
  else if k != .identifier then .ret false s false
  else
    match getCommand T s.loaded text with
    | .error e => .err e false
    | .ok d =>
      if d.kind == .test then .err (.firstCommandTest d.name) false
      else if !followOk d (prevName (announce s d)) then .err (.mustFollow d.name) false
      else pushCommand (announce s d) d

/-- `__command` after the state function declined the token: `{` opens the block of a complete
    control, `;` ends an action -/
def closeCommand (s' : PState) (k : TokKind) (rew : Bool) : FnResult :=
  if k == .left_cbracket then
    match s'.stack with
    | [] => .crash "AttributeError: NoneType"
    | f :: _ =>
      if f.d.kind == .control && f.d.acceptChildren && Frame.complete f then
        .ret true { s' with brackets := .right_cbracket :: s'.brackets, cstate := .none } rew
      else .ret false s' rew
  else if k == .semicolon then
    match s'.stack with
    | [] => .crash "AttributeError: NoneType"
    | f :: _ =>
      if f.d.kind == .test || f.d.acceptChildren then .ret false s' rew
      else
        match completion { s' with cstate := .none } false with
        | .error e => ofCmdErr rew e
        | .ok (false, s2) => .ret false s2 rew
        | .ok (true, s2) =>
          match s2.stack with
          | [] => .crash "AttributeError: NoneType"
          | g :: _ =>
            let s3 := { s2 with loaded := completeCb g s2.loaded }
            match up s3 with
            | .error w => .crash w
            | .ok s4 => .ret true s4 rew
  else .ret false s' rew

/-- the state function of the current state (`self.__cstate`) -/
def stateFn (T : Table) (s : PState) (k : TokKind) (text : Bytes) : FnResult :=
  match s.cstate with
  | .stringlist => stringlistFn s k text
  | _ => argumentsFn T s k text

/-- `__command` -/
def commandFn (T : Table) (s : PState) (k : TokKind) (text : Bytes) : FnResult :=
  match s.cstate with
  | .none => startCommand T s k text
  | _ =>
    match stateFn T s k text with
    | .ret false s' rew => closeCommand s' k rew
    | r => r

/-- `bytes.strip()` -/
def stripWs (b : Bytes) : Bytes :=
  ((b.dropWhile B.isWs).reverse.dropWhile B.isWs).reverse

/-- `if self.__expected is not None: if ttype not in self.__expected: raise …; self.__expected = None` -/
def admitTok (s : PState) (k : TokKind) : Option PState :=
  match s.expected with
  | none => some s
  | some exp => if decide (k ∈ exp) then some { s with expected := none } else none

/-- what the loop body does with the answer of `__command` -/
def ofFn (r : FnResult) : StepResult :=
  match r with
  | .ret true s2 false => .ok s2
  | .ret true s2 true => .rewind s2
  | .ret false _ rew => .reject .unexpectedToken rew
  | .err e rew => .reject e rew
  | .crash w => .crash w

/-- a token that is not a comment -/
def stepTok (T : Table) (s : PState) (k : TokKind) (text : Bytes) : StepResult :=
  match admitTok s k with
  | none => .reject (.expected k (s.expected.getD [])) false
  | some s1 => ofFn (commandFn T s1 k text)

/-- the body of the `for ttype, tvalue in self.lexer.scan(text)` loop -/
def step (T : Table) (s : PState) (tok : Tok) : StepResult :=
  match tok.kind with
  | .hash_comment => .ok { s with comments := s.comments ++ [stripWs tok.text] }
  | .bracket_comment => .ok s
  | k => stepTok T s k tok.text

inductive Outcome where
  | accept (result : List Node)
  | reject (pos : Nat) (tlen : Nat) (e : PErr)
  | crash (what : String)
  | hang

/-- what is still expected when the input ends: the innermost open bracket, else `__expected` -/
def endExpectation (s : PState) : Option (List TokKind) :=
  match s.brackets with
  | b :: _ => some [b]
  | [] => s.expected

/-- end-of-input checks -/
def finish (s : PState) (endPos : Nat) (lastLen : Nat) : Outcome :=
  match endExpectation s with
  | some e => .reject endPos lastLen (.endExpected e)
  | none =>
    match s.stack with
    | f :: _ => .reject endPos lastLen (.endUnfinished f.d.name)
    | [] => .accept s.result

/-- deliver one token, re-delivering it once after a `rewind` (`lexer.pos -= 1`). -/
def deliver (T : Table) (s : PState) (tok : Tok) : Except Outcome PState :=
  match step T s tok with
  | .ok s' => .ok s'
  | .reject e rew => .error (.reject (if rew then tok.pos - 1 else tok.pos) tok.text.length e)
  | .crash w => .error (.crash w)
  | .rewind s' =>
    match step T s' tok with
    | .ok s'' => .ok s''
    | .reject e rew => .error (.reject (if rew then tok.pos - 1 else tok.pos) tok.text.length e)
    | .crash w => .error (.crash w)
    | .rewind _ => .error .hang

/-- result of feeding a token list: stopped with an outcome, or all consumed -/
inductive Fed where
  | stop (o : Outcome)
  | done (s : PState) (lastLen : Nat)

/-- the `for` loop: fold `deliver` over the tokens, stopping at the first rejection -/
def feed (T : Table) : List Tok → PState → Nat → Fed
  | [], s, lastLen => .done s lastLen
  | tok :: rest, s, _ =>
    match deliver T s tok with
    | .error o => .stop o
    | .ok s' => feed T rest s' tok.text.length

def run (T : Table) (endPos : Nat) (lexErr : Option (Nat × Bytes)) (toks : List Tok)
    (s : PState) (lastLen : Nat) : Outcome :=
  match feed T toks s lastLen with
  | .stop o => o
  | .done s' n =>
    match lexErr with
    | some (p, _) => .reject p n .lexical
    | none => finish s' endPos n

/-- `Parser.parse(text)` on bytes; `prev` is the parser object's previous state (ignored: reset) -/
def parse (T : Table) (text : Bytes) (_prev : PState := {}) : Outcome :=
  match Lex.lex text with
  | none => .hang
  | some r => run T r.endPos r.err r.toks {} 0

end Machine
