import SieveModel.Model.Bytes
/-!
# M6a — `FiltersSet` editing operations (list level)

A filter's content is abstract: either the command tree built from definition number `id`, or an
`if false { … }` wrapper around another content (what `disablefilter` builds).  `__isdisabled`
is "the content is such a wrapper".  Operations are transliterated from `factory.py` (after the
`fix:` commits): first match by name, in-place update, remove/insert for moves.
-/

inductive Content where
  | plain (id : Nat)
  | wrapped (inner : Content)
  deriving DecidableEq, Repr, Inhabited

namespace Content
def isDisabled : Content → Bool
  | .wrapped _ => true
  | .plain _ => false
/-- `content.children[0]` of a wrapper (a plain content has no such child: Python raises) -/
def unwrap : Content → Option Content
  | .wrapped c => some c
  | .plain _ => none
/-- the definition the content was built from -/
def core : Content → Nat
  | .plain i => i
  | .wrapped c => core c
end Content

structure Flt where
  name : Bytes
  content : Content
  enabled : Bool
  deriving DecidableEq, Repr, Inhabited

abbrev FS := List Flt

/-- outcome of an operation: return value or exception -/
inductive FRes where
  | ret (b : Bool)
  | exists_          -- FilterAlreadyExists
  | crash
  deriving DecidableEq, Repr

namespace FS

def filterExists (fs : FS) (n : Bytes) : Bool := fs.any (fun f => f.name == n)

/-- apply `g` to the first filter called `n` -/
def updateFirst (n : Bytes) (g : Flt → Flt) : FS → FS
  | [] => []
  | f :: rest => if f.name == n then g f :: rest else f :: updateFirst n g rest

def findFirst (fs : FS) (n : Bytes) : Option Flt := fs.find? (fun f => f.name == n)

def removeFirst (n : Bytes) : FS → FS
  | [] => []
  | f :: rest => if f.name == n then rest else f :: removeFirst n rest

def wrapIfNeeded (c : Content) : Content := if c.isDisabled then c else .wrapped c

def addfilter (fs : FS) (n : Bytes) (id : Nat) : FRes × FS :=
  if filterExists fs n then (.exists_, fs) else (.ret true, fs ++ [⟨n, .plain id, true⟩])

/-- `disablefilter` -/
def disablefilter (fs : FS) (n : Bytes) : FRes × FS :=
  match findFirst fs n with
  | none => (.ret false, fs)
  | some _ => (.ret true, updateFirst n (fun f => { f with content := wrapIfNeeded f.content, enabled := false }) fs)

/-- shared tail of `updatefilter` / `replacefilter`: rename, install the content and, for a filter
    that was disabled, wrap it again (`return self.disablefilter(newname)`; names being unique,
    that call finds the very filter just updated) -/
def install (fs : FS) (old new : Bytes) (c : Content) : FRes × FS :=
  match findFirst fs old with
  | none => (.ret false, fs)
  | some _ =>
    if new != old && filterExists fs new then (.exists_, fs)
    else (.ret true, updateFirst old
            (fun g => { g with name := new, content := if g.enabled then c else wrapIfNeeded c }) fs)

def updatefilter (fs : FS) (old new : Bytes) (id : Nat) : FRes × FS := install fs old new (.plain id)

def replacefilter (fs : FS) (old : Bytes) (c : Content) (new : Option Bytes) : FRes × FS :=
  install fs old (new.getD old) c

def removefilter (fs : FS) (n : Bytes) : FRes × FS :=
  if filterExists fs n then (.ret true, removeFirst n fs) else (.ret false, fs)

def enablefilter (fs : FS) (n : Bytes) : FRes × FS :=
  match findFirst fs n with
  | none => (.ret false, fs)
  | some f =>
    match f.content.unwrap with
    | none => (.ret false, fs)
    | some inner => (.ret true, updateFirst n (fun g => { g with content := inner, enabled := true }) fs)

def isFilterDisabled (fs : FS) (n : Bytes) : Bool :=
  match findFirst fs n with
  | none => true
  | some f => f.content.isDisabled

/-- `getfilter`: `none` = Python `None`; a crash is `children[0]` of a plain content -/
def getfilter (fs : FS) (n : Bytes) : Option (Option Content) :=
  match findFirst fs n with
  | none => some none
  | some f => if !f.enabled then (match f.content.unwrap with | some c => some (some c) | none => none) else some (some f.content)

def indexOf (fs : FS) (n : Bytes) : Option Nat := fs.findIdx? (fun f => f.name == n)

/-- `movefilter(name, "up" | anything else)` -/
def movefilter (fs : FS) (n : Bytes) (up : Bool) : FRes × FS :=
  match indexOf fs n, findFirst fs n with
  | some i, some f =>
    if up then
      if i == 0 then (.ret false, fs) else (.ret true, (removeFirst n fs).insertIdx (i - 1) f)
    else
      if i == fs.length - 1 then (.ret false, fs) else (.ret true, (removeFirst n fs).insertIdx (i + 1) f)
  | _, _ => (.ret false, fs)

end FS
