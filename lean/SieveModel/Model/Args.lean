import SieveModel.Model.Tree
/-!
# M3 — the generic argument interpreter (`Command.check_next_arg`, `Command.iscomplete`)

Literal transliteration of `sievelib/commands.py` (after the `fix:` commits), generic in the
definition list.  Python operations that can raise something the parser does not catch are
explicit `crash` results.
-/

inductive CmdErr where
  | badValue (arg : String)
  | badArgument (cmd : Bytes)
  | extNotLoaded (e : Bytes)
  | crash (what : String)
  deriving DecidableEq, Repr

structure CState where
  nextargpos : Nat := 0
  rargsCnt : Nat := 0
  curarg : Option ArgDef := none
  arguments : List Arg := []
  extraArgs : List Arg := []
  deriving Inhabited

/-- where `check_next_arg(..., add=True)` stored the value -/
inductive Placement where
  | nowhere
  | arg (k : String)      -- arguments[k] = v
  | elem (k : String)     -- arguments[k] += [v]
  | extra (k : String)    -- extra_arguments[k] = v
  deriving DecidableEq, Repr, Inhabited

namespace Args

def AVal.typeTag : AVal → Nat | .str _ => 0 | .strs _ => 1 | .test _ => 2

/-- `atype in extra_arg["type"]` (list membership, or substring search when `type` is a str) -/
def atypeIn (a : ArgType) (e : ExtraDef) : Bool :=
  decide (a ∈ e.types) || (e.typeIsStr && a == .string && decide (ArgType.stringlist ∈ e.types))

/-- `avalue in <list of str>` -/
def valIn (v : AVal) (l : List Bytes) : Bool :=
  match v with
  | .str r => decide (r ∈ l)
  | _ => false

/-- `avalue.lower() in <list of str>`; `.lower()` on a list or Command raises -/
def valLowerIn (v : AVal) (l : List Bytes) : Except CmdErr Bool :=
  match v with
  | .str r => .ok (decide (B.lower r ∈ l))
  | _ => .error (.crash "AttributeError: lower")

def requiredCount (defs : List ArgDef) : Nat := (defs.filter (·.required)).length

/-- the pending-parameter part of `iscomplete` -/
def pendingOk (st : CState) (a : Option (ArgType × AVal)) : Bool :=
  match st.curarg with
  | none => true
  | some c =>
    match c.extra with
    | none => true
    | some e =>
      match e.validFor, a with
      | some vf, some (t, v) => atypeIn t e && !valIn v vf
      | _, _ => false

def isComplete (variableArgs : Bool) (defs : List ArgDef) (st : CState)
    (a : Option (ArgType × AVal)) : Bool :=
  if variableArgs then false else pendingOk st a && st.rargsCnt == requiredCount defs

/-- `ext and ext not in loaded_extensions` -/
def extMissing (ext : Option Bytes) (loaded : List Bytes) : Bool :=
  match ext with
  | some e => !decide (e ∈ loaded)
  | none => false

/-- `"values" in arg and x in arg["values"]` -/
def inValues (vals : Option (List Bytes)) (x : Bytes) : Bool :=
  match vals with
  | some vs => decide (x ∈ vs)
  | none => false

/-- `__is_valid_type` -/
def validType (t : ArgType) (ts : List ArgType) : Bool :=
  decide (t ∈ ts) || (t == .string && decide (ArgType.stringlist ∈ ts))

def extLookup (l : List (Bytes × Bytes)) (k : Bytes) : Option Bytes :=
  (l.find? (fun p => p.1 == k)).map (·.2)

/-- `__is_valid_value_for_arg` -/
def validValue (d : ArgDef) (v : AVal) (loaded : List Bytes) (checkExt : Bool) : Except CmdErr Bool :=
  if d.values.isNone && d.extValues.isEmpty then .ok true else
  match v with
  | .str raw =>
    if inValues d.values (B.lower raw) then .ok true else
    match extLookup d.extValues (B.lower raw) with
    | some ext => if checkExt && !decide (ext ∈ loaded) then .error (.extNotLoaded ext) else .ok true
    | none => .ok false
  | _ => .error (.crash "AttributeError: lower")

/-- does the optional slot keep waiting for a parameter after this tag? -/
def wantsExtra (d : ArgDef) (v : AVal) : Except CmdErr Bool :=
  match d.extra with
  | none => .ok false
  | some e =>
    match e.validFor with
    | none => .ok true
    | some vf => valLowerIn v vf

def setArg (add : Bool) (l : List Arg) (a : Arg) : List Arg := if add then assocSet l a else l

/-- `arguments[name] += [test]` -/
def appendTest (l : List Arg) (k : String) (v : AVal) : Except CmdErr (List Arg) :=
  match v with
  | .test n =>
    match assocGet l k with
    | some (.tests _ ts) => .ok (assocSet l (.tests k (ts ++ [n])))
    | some _ => .error (.crash "TypeError: += on non-list")
    | none => .ok (l ++ [.tests k [n]])
  | _ => .error (.crash "unreachable: non-test appended")

/-- an optional slot takes the value: extension check, then record -/
def takeOptional (loaded : List Bytes) (checkExt add : Bool) (v : AVal) (st : CState) (d : ArgDef) :
    Except CmdErr (CState × Placement) :=
  if checkExt && extMissing d.extension loaded then
    .error (.extNotLoaded (d.extension.getD []))
  else
    match wantsExtra d v with
    | .error e => .error e
    | .ok w =>
      .ok ({ st with curarg := if w then some d else st.curarg,
                     arguments := setArg add st.arguments (v.toArg d.name) },
           if add then .arg d.name else .nowhere)

/-- a required (non-testlist) slot takes the value -/
def takeRequired (add : Bool) (v : AVal) (st : CState) (d : ArgDef) (pos : Nat) : CState × Placement :=
  ({ st with curarg := some d, rargsCnt := st.rargsCnt + 1, nextargpos := pos + 1,
             arguments := setArg add st.arguments (v.toArg d.name) },
   if add then .arg d.name else .nowhere)

/-- the `while pos < len(args_definition)` loop; first argument = `args_definition[pos:]`. -/
def scan (cmdName : Bytes) (loaded : List Bytes) (checkExt add : Bool) (t : ArgType) (v : AVal)
    (st : CState) : List ArgDef → Nat → Except CmdErr (CState × Placement)
  | [], _ => .ok (st, .nowhere)
  | d :: rest, pos =>
    if d.required then
      if d.types == [.testlist] then
        if t != .test then .error (.badArgument cmdName)
        else if add then
          match appendTest st.arguments d.name v with
          | .error e => .error e
          | .ok args => .ok ({ st with arguments := args }, .elem d.name)
        else .ok (st, .nowhere)
      else if !validType t d.types then .error (.badArgument cmdName)
      else
        match validValue d v loaded checkExt with
        | .error e => .error e
        | .ok false => .error (.badArgument cmdName)
        | .ok true => .ok (takeRequired add v st d pos)
    else if decide (t ∈ d.types) then
      match validValue d v loaded checkExt with
      | .error e => .error e
      | .ok ok =>
        if ok && (decide (ArgType.tag ∈ d.types) || !assocHas st.arguments d.name) then
          takeOptional loaded checkExt add v st d
        else scan cmdName loaded checkExt add t v st rest (pos + 1)
    else scan cmdName loaded checkExt add t v st rest (pos + 1)

/-- the pending tag parameter, if the current argument expects one -/
def pendingExtra (st : CState) : Option (ArgDef × ExtraDef) :=
  match st.curarg with
  | none => none
  | some c => match c.extra with
    | none => none
    | some e => some (c, e)

def extraAccepts (e : ExtraDef) (t : ArgType) (v : AVal) : Bool :=
  atypeIn t e && (match e.values with | none => true | some vs => valIn v vs)

/-- `check_next_arg`; `ok none` = Python `return False` -/
def checkNextArg (d : CmdDef) (loaded : List Bytes) (st : CState) (t : ArgType) (v : AVal)
    (add : Bool := true) (checkExt : Bool := true) : Except CmdErr (Option (CState × Placement)) :=
  if d.args.isEmpty then .ok none
  else if isComplete d.variableArgs d.args st (some (t, v)) then .ok none
  else
    match pendingExtra st with
    | some (c, e) =>
      if extraAccepts e t v then
        .ok (some ({ st with extraArgs := setArg add st.extraArgs (v.toArg c.name), curarg := none },
                    if add then .extra c.name else .nowhere))
      else .error (.badValue c.name)
    | none =>
      match scan d.name loaded checkExt add t v st (d.args.drop st.nextargpos) st.nextargpos with
      | .error e => .error e
      | .ok r => .ok (some r)

end Args
