import SieveModel.Model.Lexer
import SieveModel.Model.Utf8
/-!
# M7 — the ManageSieve socket reader (`Client.__read_block/__read_line/__read_response/__parse_error`)

Environment: the bytes the server will send (`stream`) and a schedule of per-`recv` caps.  A `recv`
on an exhausted stream is a timeout or an orderly close; both raise `Error` in the client.
-/

structure Net where
  stream : Bytes
  /-- `k`-th `recv` delivers at most `sched[k]` (≥ 1) bytes; when exhausted, as many as asked for -/
  sched : List Nat
  /-- what the server will say *in reaction* to the client's next writes (one segment per `sendall`,
      one for a completed TLS handshake); never touched by the reader -/
  later : List Bytes := []
  deriving Repr, Inhabited

namespace Net
/-- how many bytes the next `recv(n)` may deliver at most -/
def cap (n : Nat) (sched : List Nat) : Nat :=
  match sched with
  | [] => n
  | k :: _ => min n (max k 1)

/-- `sock.recv(n)`; `none` = `socket.timeout` or `b""` (peer closed) -/
def recv (n : Nat) (net : Net) : Option (Bytes × Net) :=
  if net.stream.isEmpty then none else
  some (net.stream.take (cap n net.sched),
        { net with stream := net.stream.drop (cap n net.sched), sched := net.sched.tail })

/-- the peer reacts to something the client did: the next reply segment becomes readable -/
def release (net : Net) : Net :=
  match net.later with
  | [] => net
  | seg :: rest => { net with stream := net.stream ++ seg, later := rest }
end Net

/-- why a read stopped abnormally -/
inductive RErr where
  | error                 -- `managesieve.Error` raised (documented failure)
  | crash (what : String) -- any other exception escaping the public API
  deriving DecidableEq, Repr

structure RState where
  buf : Bytes
  net : Net
  /-- `errcode`, `errmsg` attributes -/
  errcode : Bytes := []
  errmsg : Bytes := []
  deriving Repr, Inhabited

namespace Reader

def readSize : Nat := 4096
def CRLF : Bytes := [13, 10]

/-- `\{(\d+)\+?\}` anchored at the start: the number -/
def sizeMatch (t : Bytes) : Option Nat :=
  match t with
  | 123 :: rest =>
    let n := Lex.spanLen B.isDigit rest
    if n == 0 then none else
    match rest.drop n with
    | 125 :: _ => some (B.decToNat (rest.take n))
    | 43 :: 125 :: _ => some (B.decToNat (rest.take n))
    | _ => none
  | _ => none

/-- `\{(\d+)\+?\}$` searched anywhere: the line ends with a size indication -/
def trailingSize (t : Bytes) : Option Nat :=
  match t with
  | [] => none
  | c :: rest =>
    match (if c == 123 then sizeMatchFull (c :: rest) else none) with
    | some n => some n
    | none => trailingSize rest
where
  /-- whole string is `{digits+?}` (optionally followed by one final `\n`, as `$` allows) -/
  sizeMatchFull (t : Bytes) : Option Nat :=
    match t with
    | 123 :: rest =>
      let n := Lex.spanLen B.isDigit rest
      if n == 0 then none else
      match rest.drop n with
      | [125] => some (B.decToNat (rest.take n))
      | [125, 10] => some (B.decToNat (rest.take n))
      | [43, 125] => some (B.decToNat (rest.take n))
      | [43, 125, 10] => some (B.decToNat (rest.take n))
      | _ => none
    | _ => none

inductive Status | OK | NO | BYE
  deriving DecidableEq, Repr

def Status.bytes : Status → Bytes
  | .OK => sb "OK" | .NO => sb "NO" | .BYE => sb "BYE"

/-- `(OK|NO|BYE)\s*(.+)?` anchored at the start: status and group 2 -/
def respMatch (t : Bytes) : Option (Status × Option Bytes) :=
  let go (st : Status) (rest : Bytes) : Option (Status × Option Bytes) :=
    let r := rest.dropWhile B.isWs
    let d := r.takeWhile (· != 10)
    some (st, if d.isEmpty then none else some d)
  match t with
  | 79 :: 75 :: rest => go .OK rest
  | 78 :: 79 :: rest => go .NO rest
  | 66 :: 89 :: 69 :: rest => go .BYE rest
  | _ => none

/-- `(?:[^"\\]|\\.)*"` : body of a quoted string up to and including the closing quote;
    returns (raw body, rest after the quote) -/
def quotedBody : Bytes → Option (Bytes × Bytes)
  | [] => none
  | 34 :: rest => some ([], rest)
  | 92 :: c :: rest =>
    if c == 10 then none else
    match quotedBody rest with
    | some (b, r) => some (92 :: c :: b, r)
    | none => none
  | 92 :: [] => none
  | c :: rest =>
    match quotedBody rest with
    | some (b, r) => some (c :: b, r)
    | none => none

/-- `re.sub(rb"\\(.)", rb"\1", b)` -/
def unescape : Bytes → Bytes
  | 92 :: c :: rest => if c == 10 then 92 :: c :: unescape rest else c :: unescape rest
  | c :: rest => c :: unescape rest
  | [] => []

def isAtomByte (c : UInt8) : Bool := !(B.isWs c || c == 40 || c == 41 || c == 34)

/-- `\(([^\s()"]+)(?:\s+"(?:[^"\\]|\\.)*")?\)\s*` : (code, rest of text) -/
def codeMatch (t : Bytes) : Option (Bytes × Bytes) :=
  match t with
  | 40 :: rest =>
    let atom := rest.takeWhile isAtomByte
    if atom.isEmpty then none else
    let r1 := rest.dropWhile isAtomByte
    let closeAt (r : Bytes) : Option (Bytes × Bytes) :=
      match r with
      | 41 :: r' => some (atom, r'.dropWhile B.isWs)
      | _ => none
    let r2 := r1.dropWhile B.isWs
    let withParam : Option (Bytes × Bytes) :=
      if r2.length < r1.length then
        match r2 with
        | 34 :: r3 =>
          match quotedBody r3 with
          | some (_, r4) => closeAt r4
          | none => none
        | _ => none
      else none
    match withParam with
    | some x => some x
    | none => closeAt r1
  | _ => none

/-- `"((?:[^"\\]|\\.)*)"` anchored at the start: group 1 -/
def textMatch (t : Bytes) : Option Bytes :=
  match t with
  | 34 :: rest => (quotedBody rest).map (·.1)
  | _ => none

/-- `__read_block` loop part: `size` bytes still wanted -/
def blockLoop : Nat → Nat → Bytes → Net → Except RErr (Bytes × Net)
  | _, 0, acc, net => .ok (acc, net)
  | 0, _ + 1, _, _ => .error (.crash "fuel")
  | fuel + 1, size + 1, acc, net =>
    match net.recv (size + 1) with
    | none => .error .error
    | some (chunk, net') => blockLoop fuel (size + 1 - chunk.length) (acc ++ chunk) net'

/-- `__read_block(size)` -/
def readBlock (size : Nat) (st : RState) : Except RErr (Bytes × RState) :=
  let limit := min size st.buf.length
  let head := st.buf.take limit
  let buf' := st.buf.drop limit
  match blockLoop (size - limit) (size - limit) head st.net with
  | .error e => .error e
  | .ok (b, net') => .ok (b, { st with buf := buf', net := net' })

/-- split at the first CRLF: (before, after) -/
def splitCRLF : Bytes → Option (Bytes × Bytes)
  | [] => none
  | c :: rest =>
    if c == 13 && rest.head? == some 10 then some ([], rest.tail)
    else
      match splitCRLF rest with
      | some (a, b) => some (c :: a, b)
      | none => none

/-- the `while True` loop of `__read_line`: returns the raw line (without CRLF) -/
def rawLine : Nat → RState → Except RErr (Bytes × RState)
  | 0, _ => .error (.crash "fuel")
  | fuel + 1, st =>
    match splitCRLF st.buf with
    | some (line, rest) => .ok (line, { st with buf := rest })
    | none =>
      match st.net.recv readSize with
      | none => .error .error
      | some (chunk, net') => rawLine fuel { st with buf := st.buf ++ chunk, net := net' }

/-- optional response code in front of the text: (code or empty, rest) -/
def splitCode (t : Bytes) : Bytes × Bytes :=
  match codeMatch t with
  | some (code, rest) => (code, rest)
  | none => ([], t)

/-- `__parse_error(text)` -/
def parseError (text : Option Bytes) (st : RState) : Except RErr RState :=
  match text with
  | none => .ok { st with errcode := [], errmsg := [] }
  | some t =>
    match sizeMatch (splitCode t).2 with
    | some n =>
      match readBlock (n + 2) { st with errcode := (splitCode t).1, errmsg := [] } with
      | .error e => .error e
      | .ok (b, st') => .ok { st' with errmsg := b.take (b.length - 2) }
    | none =>
      match textMatch (splitCode t).2 with
      | some body => .ok { st with errcode := (splitCode t).1, errmsg := unescape body }
      | none =>
        if (splitCode t).2.isEmpty then .ok { st with errcode := (splitCode t).1, errmsg := [] }
        else .error .error

/-- what `__read_line` delivers -/
inductive LineEv where
  | line (l : Bytes)
  | literal (n : Nat)
  | response (st : Status) (data : Option Bytes)
  deriving DecidableEq, Repr

/-- `__read_line()` -/
def readLine (st : RState) : Except RErr (LineEv × RState) :=
  match rawLine (st.net.stream.length + 1) st with
  | .error e => .error e
  | .ok (ret, st1) =>
    if ret.isEmpty then .ok (.line ret, st1) else
    match sizeMatch ret with
    | some n => .ok (.literal n, st1)
    | none =>
      match respMatch ret with
      | none => .ok (.line ret, st1)
      | some (.BYE, _) => .error .error
      | some (.NO, d) =>
        match parseError d st1 with
        | .error e => .error e
        | .ok st2 => .ok (.response .NO d, st2)
      | some (.OK, d) =>
        match d.bind trailingSize with
        | some n =>
          match readBlock (n + 2) st1 with
          | .error e => .error e
          | .ok (_, st2) => .ok (.response .OK d, st2)
        | none => .ok (.response .OK d, st1)

def endsWithCRLF (b : Bytes) : Bool :=
  match b.reverse with
  | 10 :: 13 :: _ => true
  | _ => false

structure Resp where
  code : Option Status
  data : Option Bytes
  content : Bytes
  deriving DecidableEq, Repr

/-- `__read_response(nblines)`; `nblines = none` is `-1` -/
def respLoop (nblines : Option Nat) : Nat → Bytes → Nat → RState → Except RErr (Resp × RState)
  | 0, _, _, _ => .error (.crash "fuel")
  | fuel + 1, resp, cpt, st =>
    match readLine st with
    | .error e => .error e
    | .ok (.response code data, st1) => .ok (⟨some code, data, resp⟩, st1)
    | .ok (.literal n, st1) =>
      match readBlock n st1 with
      | .error e => .error e
      | .ok (b, st2) =>
        let resp' := resp ++ b
        if endsWithCRLF resp' then respLoop nblines fuel resp' cpt st2
        else
          match readLine st2 with
          | .error e => .error e
          | .ok (.line l, st3) => respLoop nblines fuel (resp' ++ l ++ CRLF) cpt st3
          | .ok (.literal _, _) => .error (.crash "Literal")
          | .ok (.response _ _, _) => .error (.crash "Response")
    | .ok (.line l, st1) =>
      if l.isEmpty then respLoop nblines fuel resp cpt st1
      else
        let resp' := resp ++ l ++ CRLF
        if nblines == some (cpt + 1) then .ok (⟨none, none, resp'⟩, st1)
        else respLoop nblines fuel resp' (cpt + 1) st1

def readResponse (nblines : Option Nat) (st : RState) : Except RErr (Resp × RState) :=
  respLoop nblines (st.buf.length + st.net.stream.length + 1) [] 0 st

end Reader
