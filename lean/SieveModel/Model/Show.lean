import SieveModel.Model.Machine
/-! Canonical text rendering of trees and outcomes for the line protocol. -/
namespace Show

mutual
def node : Node → String
  | .mk n a e c h =>
    "(" ++ B.toHex n ++ " A[" ++ args a ++ "] E[" ++ args e ++ "] C[" ++ nodes c ++ "] H[" ++
      ",".intercalate (h.map B.toHex) ++ "])"
def nodes : List Node → String
  | [] => ""
  | n :: rest => node n ++ nodes rest
def arg : Arg → String
  | .str k v => k ++ "=s:" ++ B.toHex v
  | .strs k v => k ++ "=l:" ++ ",".intercalate (v.map B.toHex)
  | .test k n => k ++ "=t:" ++ node n
  | .tests k l => k ++ "=T:" ++ nodes l
def args : List Arg → String
  | [] => ""
  | a :: rest => arg a ++ ";" ++ args rest
end

def toks (l : List TokKind) : String := "|".intercalate (l.map TokKind.name)

def perr : PErr → String
  | .lexical => "lexical"
  | .expected f e => s!"expected {f.name} {toks e}"
  | .unexpectedToken => "unexpectedToken"
  | .unknownCommand i => s!"unknownCommand {B.toHex i}"
  | .extNotLoaded e => s!"extNotLoaded {B.toHex e}"
  | .badArgument c => s!"badArgument {B.toHex c}"
  | .badValue a => s!"badValue {a}"
  | .mustFollow c => s!"mustFollow {B.toHex c}"
  | .firstCommandTest c => s!"firstCommandTest {B.toHex c}"
  | .expectedTest c => s!"expectedTest {B.toHex c}"
  | .unexpectedAfter c => s!"unexpectedAfter {B.toHex c}"
  | .closingBracket => "closingBracket"
  | .endExpected e => s!"endExpected {toks e}"
  | .endUnfinished c => s!"endUnfinished {B.toHex c}"
  | .decodeError => "decodeError"

def outcome (text : Bytes) : Machine.Outcome → String
  | .accept r => "accept " ++ nodes r
  | .reject p n e => s!"reject {Lex.lineno text p} {Lex.colno text p} {n} {perr e}"
  | .crash w => "crash " ++ w
  | .hang => "hang"

end Show
