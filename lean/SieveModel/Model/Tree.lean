import SieveModel.Model.Table
/-!
# Command trees as Python builds them

A `Node` is a finished `Command` object: its name, the `arguments` dict in insertion order, the
`extra_arguments` dict (tag parameters), its `children`, and (top level only) its hash comments.
Values are the *raw source text* of each argument (strings keep their quotes).
-/

mutual
inductive Node where
  | mk (name : Bytes) (args : List Arg) (extra : List Arg) (children : List Node)
       (comments : List Bytes)
inductive Arg where
  | str (key : String) (v : Bytes)
  | strs (key : String) (v : List Bytes)
  | test (key : String) (n : Node)
  | tests (key : String) (l : List Node)
end

instance : Inhabited Node := ⟨.mk [] [] [] [] []⟩

namespace Arg
def key : Arg → String
  | .str k _ => k | .strs k _ => k | .test k _ => k | .tests k _ => k
/-- the same value under another dict key -/
def rekey (k : String) : Arg → Arg
  | .str _ v => .str k v | .strs _ v => .strs k v | .test _ n => .test k n | .tests _ l => .tests k l
end Arg

namespace Node
def name : Node → Bytes | .mk n _ _ _ _ => n
def args : Node → List Arg | .mk _ a _ _ _ => a
def extra : Node → List Arg | .mk _ _ e _ _ => e
def children : Node → List Node | .mk _ _ _ c _ => c
def comments : Node → List Bytes | .mk _ _ _ _ h => h
end Node

/-- dict assignment `d[k] = v`: overwrite in place, else append -/
def assocSet (l : List Arg) (a : Arg) : List Arg :=
  if l.any (fun p => p.key == a.key) then l.map (fun p => if p.key == a.key then a else p)
  else l ++ [a]

def assocGet (l : List Arg) (k : String) : Option Arg := l.find? (fun p => p.key == k)

def assocHas (l : List Arg) (k : String) : Bool := l.any (fun p => p.key == k)

def assocErase (l : List Arg) (k : String) : List Arg := l.filter (fun p => p.key != k)

/-- value handed to `check_next_arg` -/
inductive AVal where
  | str (v : Bytes)
  | strs (v : List Bytes)
  | test (n : Node)

def AVal.toArg (k : String) : AVal → Arg
  | .str v => .str k v
  | .strs v => .strs k v
  | .test n => .test k n
