import SieveModel.Model.Reader
import SieveModel.Model.Base64
/-!
# M8 — the ManageSieve client (`sievelib.managesieve.Client`, after the `fix:` commits)

Command encoding, one reply per command, the public operations, capability handling, SASL,
STARTTLS sequencing and the emulated rename.  Strings are bytes (already UTF-8 encoded).
-/

/-- argument of `__send_command` before `__prepare_args` -/
inductive WArg where
  | str (b : Bytes)        -- `bytes`: quoted (or literal when it contains CR/LF/NUL)
  | lit (content : Bytes)  -- `LiteralBytes` built by `__prepare_content`
  | num (n : Nat)          -- `int`
  deriving DecidableEq, Repr

structure Client where
  r : RState
  connected : Bool := false
  authenticated : Bool := false
  /-- `__capabilities` in insertion order -/
  caps : List (Bytes × Option Bytes) := []
  tls : Bool := false
  /-- every `sendall`, tagged with the channel it went out on (`true` = TLS-wrapped socket) -/
  writes : List (Bool × Bytes) := []
  deriving Repr, Inhabited

/-- environment events of `connect` -/
structure ConnEnv where
  tcpOk : Bool := true
  tlsOk : Bool := true
  deriving Repr, Inhabited

namespace Client
open Reader

def hasCtl (a : Bytes) : Bool := a.any (fun c => c == 13 || c == 10 || c == 0)

/-- `a.replace(b"\\", b"\\\\").replace(b'"', b'\\"')` -/
def escapeQ : Bytes → Bytes
  | [] => []
  | c :: rest => if c == 92 then 92 :: 92 :: escapeQ rest
                 else if c == 34 then 92 :: 34 :: escapeQ rest else c :: escapeQ rest

/-- `b"{%d+}%s%s" % (len(c), CRLF, c)` -/
def literalOf (c : Bytes) : Bytes := [123] ++ B.natToDec c.length ++ [43, 125, 13, 10] ++ c

def quote (a : Bytes) : Bytes := [34] ++ escapeQ a ++ [34]

/-- one element of `__prepare_args` -/
def prepareArg : WArg → Bytes
  | .lit c => literalOf c
  | .str a => if hasCtl a then literalOf a else quote a
  | .num n => B.natToDec n

def joinSp : List Bytes → Bytes
  | [] => []
  | [a] => a
  | a :: rest => a ++ [32] ++ joinSp rest

/-- the bytes of the command line(s): `name [SP args] CRLF` -/
def commandBytes (name : Bytes) (args : List WArg) : Bytes :=
  (if args.isEmpty then name else name ++ [32] ++ joinSp (args.map prepareArg)) ++ CRLF

def capHas (c : Client) (k : Bytes) : Bool := c.caps.any (fun p => p.1 == k)
def capGet (c : Client) (k : Bytes) : Option (Option Bytes) := (c.caps.find? (fun p => p.1 == k)).map (·.2)
def capSet (caps : List (Bytes × Option Bytes)) (k : Bytes) (v : Option Bytes) :=
  if caps.any (fun p => p.1 == k) then caps.map (fun p => if p.1 == k then (k, v) else p) else caps ++ [(k, v)]

abbrev Res (α : Type) := Except RErr α × Client

def write (c : Client) (b : Bytes) : Client :=
  { c with writes := c.writes ++ [(c.tls, b)], r := { c.r with net := c.r.net.release } }

structure Reply where
  code : Option Status
  data : Option Bytes
  content : Bytes
  deriving DecidableEq, Repr

/-- the client after `sendall(command line)` and one `sendall` per extra line -/
def afterWrites (c : Client) (name : Bytes) (args : List WArg) (extralines : List Bytes) : Client :=
  extralines.foldl (fun acc l => write acc (l ++ CRLF)) (write c (commandBytes name args))

/-- `code.decode()`, `data.decode("utf-8")` -/
def decodeReply (resp : Resp) : Except RErr Reply :=
  match resp.data with
  | some d => if Utf8.valid d then .ok ⟨resp.code, resp.data, resp.content⟩
              else .error (.crash "UnicodeDecodeError")
  | none => .ok ⟨resp.code, resp.data, resp.content⟩

/-- read the one reply that answers what was just written -/
def awaitReply (c : Client) (nblines : Option Nat) : Res Reply :=
  match readResponse nblines c.r with
  | .error e => (.error e, c)   -- state of the reader after a failure is not observable
  | .ok (resp, r') => (decodeReply resp, { c with r := r' })

/-- `__send_command` -/
def sendCommand (c : Client) (name : Bytes) (args : List WArg) (extralines : List Bytes := [])
    (nblines : Option Nat := none) : Res Reply :=
  if !c.connected then (.error (.crash "AttributeError: sock is None"), c)
  else awaitReply (afterWrites c name args extralines) nblines

/-- `bytes.splitlines()` -/
def splitLinesAux : Bytes → Bytes → List Bytes
  | [], cur => if cur.isEmpty then [] else [cur.reverse]
  | 13 :: 10 :: rest, cur => cur.reverse :: splitLinesAux rest []
  | 13 :: rest, cur => cur.reverse :: splitLinesAux rest []
  | 10 :: rest, cur => cur.reverse :: splitLinesAux rest []
  | c :: rest, cur => splitLinesAux rest (c :: cur)
def splitLines (b : Bytes) : List Bytes := splitLinesAux b []

/-- `l.split(None, 1)` -/
def splitWs1 (l : Bytes) : List Bytes :=
  let l1 := l.dropWhile B.isWs
  if l1.isEmpty then [] else
  let a := l1.takeWhile (fun c => !B.isWs c)
  let r := (l1.dropWhile (fun c => !B.isWs c)).dropWhile B.isWs
  if r.isEmpty then [a] else [a, r]

/-- `s.split()` -/
def splitWs (l : Bytes) : List Bytes :=
  go l.length l
where go : Nat → Bytes → List Bytes
  | 0, _ => []
  | fuel + 1, l =>
    let l1 := l.dropWhile B.isWs
    if l1.isEmpty then [] else
    l1.takeWhile (fun c => !B.isWs c) :: go fuel (l1.dropWhile (fun c => !B.isWs c))

/-- the regular expressions of `sievelib/managesieve.py` this model (the reader, the reply decoder, the listing
    decoder) implements by hand, in source order: where each is used and the pattern with its replacement / flags.
    Compared on every run with what the module says now (`Generated.clientPatterns`). -/
def patterns : List (String × String) :=
  [("compile __respcode_expr", "(OK|NO|BYE)\\s*(.+)?"),
   ("compile __error_code_expr", "\\(([^\\s()\"]+)(?:\\s+\"(?:[^\"\\\\]|\\\\.)*\")?\\)\\s*"),
   ("compile __error_expr", "\"((?:[^\"\\\\]|\\\\.)*)\""),
   ("compile __size_expr", "\\{(\\d+)\\+?\\}"),
   ("compile __trailing_size_expr", "\\{(\\d+)\\+?\\}$"),
   ("compile __active_expr", "ACTIVE  flags re.IGNORECASE"),
   ("sub errmsg", "\\\\(.)  → \\1"),
   ("match listscripts", "\"((?:[^\"\\\\]|\\\\.)*)\"\\s*(.*)"),
   ("sub listscripts", "\\\\(.)  → \\1")]

def knownCaps : List Bytes :=
  [sb "IMPLEMENTATION", sb "SASL", sb "SIEVE", sb "STARTTLS", sb "NOTIFY", sb "LANGUAGE", sb "VERSION"]

def parseCapLines : List Bytes → List (Bytes × Option Bytes) → Except RErr (List (Bytes × Option Bytes))
  | [], caps => .ok caps
  | l :: rest, caps =>
    match splitWs1 l with
    | [] => .error (.crash "IndexError")
    | p0 :: more =>
      let cname := B.stripC 34 p0
      if !Utf8.valid cname then .error (.crash "UnicodeDecodeError") else
      if !decide (cname ∈ knownCaps) then parseCapLines rest caps else
      match more with
      | p1 :: _ =>
        let v := B.stripC 34 p1
        if !Utf8.valid v then .error (.crash "UnicodeDecodeError")
        else parseCapLines rest (capSet caps cname (some v))
      | [] => parseCapLines rest (capSet caps cname none)

/-- `__get_capabilities` -/
def getCapabilities (c : Client) : Res Bool :=
  match readResponse none c.r with
  | .error e => (.error e, c)
  | .ok (resp, r') =>
    let c1 := { c with r := r' }
    if resp.code == some .NO then (.ok false, c1) else
    match parseCapLines (splitLines resp.content) c1.caps with
    | .error e => (.error e, c1)
    | .ok caps => (.ok true, { c1 with caps := caps })

def okOf (r : Res Reply) : Res Bool :=
  match r with
  | (.error e, c) => (.error e, c)
  | (.ok rep, c) => (.ok (rep.code == some .OK), c)

def guarded {α} (c : Client) (f : Client → Res α) : Res α :=
  if c.authenticated then f c else (.error .error, c)

def havespace (c : Client) (name : Bytes) (size : Nat) : Res Bool :=
  guarded c fun c => okOf (sendCommand c (sb "HAVESPACE") [.str name, .num size])

def putscript (c : Client) (name content : Bytes) : Res Bool :=
  guarded c fun c => okOf (sendCommand c (sb "PUTSCRIPT") [.str name, .lit content])

def deletescript (c : Client) (name : Bytes) : Res Bool :=
  guarded c fun c => okOf (sendCommand c (sb "DELETESCRIPT") [.str name])

def setactive (c : Client) (name : Bytes) : Res Bool :=
  guarded c fun c => okOf (sendCommand c (sb "SETACTIVE") [.str name])

def checkscript (c : Client) (content : Bytes) : Res Bool :=
  guarded c fun c =>
    if !capHas c (sb "VERSION") then (.error (.crash "NotImplementedError"), c)
    else okOf (sendCommand c (sb "CHECKSCRIPT") [.lit content])

/-- `ACTIVE` matched case-insensitively at the start -/
def activeMatch (t : Bytes) : Bool := B.startsWith (t.map B.upperC) (sb "ACTIVE")

/-- the listing decoder of `listscripts` -/
def parseListing : List Bytes → Option Bytes → List Bytes → Except RErr (Option Bytes × List Bytes)
  | [], act, acc => .ok (act, acc)
  | l :: rest, act, acc =>
    match (match l with | 34 :: r => quotedBody r | _ => none) with
    | none => if Utf8.valid l then parseListing rest act (acc ++ [l]) else .error (.crash "UnicodeDecodeError")
    | some (body, after) =>
      let name := unescape body
      if !Utf8.valid name then .error (.crash "UnicodeDecodeError") else
      -- `\s*(.*)`: group 2 = after the whitespace, up to the next `\n`
      let g2 := (after.dropWhile B.isWs).takeWhile (· != 10)
      if activeMatch g2 then parseListing rest (some name) acc
      else parseListing rest act (acc ++ [name])

def listscripts (c : Client) : Res (Option (Option Bytes × List Bytes)) :=
  guarded c fun c =>
    match sendCommand c (sb "LISTSCRIPTS") [] with
    | (.error e, c1) => (.error e, c1)
    | (.ok rep, c1) =>
      if rep.code == some .NO then (.ok none, c1) else
      match parseListing (splitLines rep.content) none [] with
      | .error e => (.error e, c1)
      | .ok r => (.ok (some r), c1)

def joinNl : List Bytes → Bytes
  | [] => []
  | [a] => a
  | a :: rest => a ++ [10] ++ joinNl rest

def getscript (c : Client) (name : Bytes) : Res (Option Bytes) :=
  guarded c fun c =>
    match sendCommand c (sb "GETSCRIPT") [.str name] with
    | (.error e, c1) => (.error e, c1)
    | (.ok rep, c1) =>
      if rep.code == some .OK then
        let lines := splitLines rep.content
        if lines.all Utf8.valid then (.ok (some (joinNl lines)), c1)
        else (.error (.crash "UnicodeDecodeError"), c1)
      else (.ok none, c1)

def setErrmsg (c : Client) (m : Bytes) : Client := { c with r := { c.r with errmsg := m } }

/-- activate the copy when the renamed script was the active one -/
def activateIfNeeded (c : Client) (active : Option Bytes) (old new : Bytes) : Res Bool :=
  if active == some old then setactive c new else (.ok true, c)

/-- the emulated rename: LISTSCRIPTS → GETSCRIPT old → PUTSCRIPT new → [SETACTIVE new] → DELETESCRIPT old -/
def emulatedRename (c : Client) (old new : Bytes) : Res Bool :=
  match listscripts c with
  | (.error e, c1) => (.error e, c1)
  | (.ok none, c1) => (.ok false, c1)
  | (.ok (some (active, scripts)), c1) =>
    if active != some old && !decide (old ∈ scripts) then
      (.ok false, setErrmsg c1 (sb "Old script does not exist"))
    else if decide (new ∈ scripts) || active == some new then
      (.ok false, setErrmsg c1 (sb "New script already exists"))
    else
      match getscript c1 old with
      | (.error e, c2) => (.error e, c2)
      | (.ok none, c2) => (.ok false, c2)
      | (.ok (some body), c2) =>
        match putscript c2 new body with
        | (.error e, c3) => (.error e, c3)
        | (.ok false, c3) => (.ok false, c3)
        | (.ok true, c3) =>
          match activateIfNeeded c3 active old new with
          | (.error e, c4) => (.error e, c4)
          | (.ok false, c4) => (.ok false, c4)
          | (.ok true, c4) => deletescript c4 old

/-- `renamescript`, native or emulated -/
def renamescript (c : Client) (old new : Bytes) : Res Bool :=
  guarded c fun c =>
    if capHas c (sb "VERSION") then
      okOf (sendCommand c (sb "RENAMESCRIPT") [.str old, .str new])
    else emulatedRename c old new

def capability (c : Client) : Res (Option Bytes) :=
  match sendCommand c (sb "CAPABILITY") [] with
  | (.error e, c1) => (.error e, c1)
  | (.ok rep, c1) => (.ok (if rep.code == some .OK then some rep.content else none), c1)

def logout (c : Client) : Res Unit :=
  match sendCommand c (sb "LOGOUT") [] with
  | (.error e, c1) => (.error e, c1)
  | (.ok _, c1) => (.ok (), c1)

/-! ### SASL -/

def supportedMechs : List Bytes := [sb "DIGEST-MD5", sb "PLAIN", sb "LOGIN", sb "OAUTHBEARER"]

def intercalate0 (a b c : Bytes) : Bytes := a ++ [0] ++ b ++ [0] ++ c

def plainPayload (login password authz : Bytes) : Bytes := Base64.encode (intercalate0 authz login password)

/-- `login.replace(b"=", b"=3D").replace(b",", b"=2C")` -/
def saslName : Bytes → Bytes
  | [] => []
  | c :: rest => if c == 61 then 61 :: 51 :: 68 :: saslName rest
                 else if c == 44 then 61 :: 50 :: 67 :: saslName rest else c :: saslName rest

def oauthPayload (login token : Bytes) : Bytes :=
  Base64.encode (sb "n,a=" ++ saslName login ++ [44, 1] ++ sb "auth=Bearer " ++ token ++ [1, 1])

def authWith (c : Client) (mech login password authz : Bytes) : Res Bool :=
  if mech == sb "PLAIN" then
    okOf (sendCommand c (sb "AUTHENTICATE") [.str (sb "PLAIN"), .str (plainPayload login password authz)])
  else if mech == sb "LOGIN" then
    okOf (sendCommand c (sb "AUTHENTICATE") [.str (sb "LOGIN")]
      [[34] ++ Base64.encode login ++ [34], [34] ++ Base64.encode password ++ [34]])
  else if mech == sb "OAUTHBEARER" then
    okOf (sendCommand c (sb "AUTHENTICATE") [.str (sb "OAUTHBEARER"), .str (oauthPayload login password)])
  else
    -- DIGEST-MD5: the Python-2 module raises TypeError right after the first exchange
    match sendCommand c (sb "AUTHENTICATE") [.str (sb "DIGEST-MD5")] [] (some 1) with
    | (.error e, c1) => (.error e, c1)
    | (.ok _, c1) => (.error (.crash "TypeError: digest_md5"), c1)

/-- mechanism selection of `__authenticate` -/
def selectMech (authmech : Option Bytes) (srv : List Bytes) : Option Bytes :=
  let mechList := match authmech with
    | some m => if decide (m ∈ supportedMechs) then [m] else supportedMechs
    | none => supportedMechs
  mechList.find? (fun m => decide (m ∈ srv))

/-- the tail of `__authenticate` once a mechanism has (or has not) been selected -/
def finishAuth (c : Client) (sel : Option Bytes) (login password authz : Bytes) : Res Bool :=
  match sel with
  | none => (.ok false, setErrmsg c (sb "No suitable mechanism found"))
  | some m =>
    match authWith c m login password authz with
    | (.error e, c1) => (.error e, c1)
    | (.ok true, c1) => (.ok true, { c1 with authenticated := true })
    | (.ok false, c1) => (.ok false, c1)

/-- `__authenticate` -/
def authenticate (c : Client) (login password authz : Bytes) (authmech : Option Bytes) : Res Bool :=
  match capGet c (sb "SASL") with
  | none => (.error .error, c)
  | some v => finishAuth c (selectMech authmech (splitWs (v.getD []))) login password authz

/-- the client right after a successful handshake: wrapped socket, buffer and capabilities cleared -/
def tlsWrapped (c : Client) : Client :=
  { c with tls := true, r := { c.r with buf := [], net := c.r.net.release }, caps := [] }

/-- `__starttls` -/
def starttls (c : Client) (env : ConnEnv) : Res Bool :=
  if !capHas c (sb "STARTTLS") then (.error .error, c) else
  match sendCommand c (sb "STARTTLS") [] with
  | (.error e, c1) => (.error e, c1)
  | (.ok rep, c1) =>
    if rep.code != some .OK then (.ok false, c1) else
    if !env.tlsOk then (.error .error, c1) else
    match getCapabilities (tlsWrapped c1) with
    | (.error e, c3) => (.error e, c3)
    | (.ok _, c3) => (.ok true, c3)

/-- the state `connect` starts from: flags, capabilities and buffer cleared, a fresh socket -/
def freshConn (c : Client) (net : Net) : Client :=
  { c with authenticated := false, caps := [], connected := true, tls := false, writes := [],
           r := { c.r with buf := [], net := net } }

/-- STARTTLS if asked for, else nothing -/
def maybeTls (c : Client) (env : ConnEnv) (useTls : Bool) : Res Bool :=
  if useTls then starttls c env else (.ok true, c)

/-- `connect(login, password, authz_id, starttls, authmech)` on a fresh socket fed by `net` -/
def connect (c : Client) (env : ConnEnv) (net : Net) (login password authz : Bytes)
    (useTls : Bool) (authmech : Option Bytes) : Res Bool :=
  if !env.tcpOk then
    (.error .error, { c with authenticated := false, caps := [], writes := [], r := { c.r with buf := [] } })
  else
    match getCapabilities (freshConn c net) with
    | (.error e, c2) => (.error e, c2)
    | (.ok false, c2) => (.error .error, c2)
    | (.ok true, c2) =>
      match maybeTls c2 env useTls with
      | (.error e, c3) => (.error e, c3)
      | (.ok false, c3) => (.ok false, c3)
      | (.ok true, c3) => authenticate c3 login password authz authmech

end Client
