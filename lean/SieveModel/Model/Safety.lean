import SieveModel.Model.Args
/-!
# Decidable conditions on command definitions (`cmdSafe`)

The hypotheses of the "parse always ends with a verdict" theorem (C02), kept with the model so that
the driver can evaluate them on any table it is sent (`table-safe`).
-/
namespace ArgsSafe
open Args

/-- per-slot conditions: value sets and `valid_for` only on scalar-typed slots; a `testlist` slot is
    required and alone in its definition -/
def slotSafe (a : ArgDef) : Bool :=
  ((a.values.isNone && a.extValues.isEmpty) ||
      (!decide (ArgType.stringlist ∈ a.types) && !decide (ArgType.test ∈ a.types) && !decide (ArgType.testlist ∈ a.types))) &&
  (match a.extra with
   | some e => e.validFor.isNone || a.required ||
       (!decide (ArgType.stringlist ∈ a.types) && !decide (ArgType.test ∈ a.types) && !decide (ArgType.testlist ∈ a.types))
   | none => true)

def defSafe (d : CmdDef) : Bool :=
  d.args.all slotSafe &&
  (d.args.all (fun a => a.types != [.testlist]) || (d.args.length == 1 && d.args.all (fun a => a.required)))

end ArgsSafe

namespace Safe
open Args ArgsSafe

def isHostSlot (a : ArgDef) : Bool := decide (ArgType.test ∈ a.types) || decide (ArgType.testlist ∈ a.types)

/-- a slot of a definition that takes tests: required, typed exactly `[test]` or `[testlist]`, plain -/
def hostSlotOK (a : ArgDef) : Bool :=
  a.required && (a.types == [.test] || a.types == [.testlist]) && a.extra.isNone && a.values.isNone && a.extValues.isEmpty

def isHost (d : CmdDef) : Bool := d.args.any isHostSlot

def extraNoTest (a : ArgDef) : Bool :=
  match a.extra with
  | some e => !decide (ArgType.test ∈ e.types) && !decide (ArgType.testlist ∈ e.types)
  | none => true

def cmdSafe (d : CmdDef) : Bool :=
  defSafe d &&
  -- variable_args_nb ⇔ a testlist slot; such commands are tests opened by a parenthesis
  (d.variableArgs == d.args.any (fun a => a.types == [.testlist])) &&
  (!d.variableArgs || (d.kind == .test && d.expectedFirst == some [.left_parenthesis])) &&
  -- commands taking tests: one plain required slot, control or test, no argument re-assignment
  (!isHost d || (d.args.length == 1 && d.args.all hostSlotOK && d.kind != .action && !d.nonDet && d.special == .none)) &&
  -- argument re-assignment only on tests
  (!(d.nonDet || d.special == .hasflag) || (d.kind == .test && requiredCount d.args == 1)) &&
  -- blocks: controls whose only arguments are tests (tests may carry the flag, it is never consulted for them)
  (!d.acceptChildren || d.kind == .test || (d.kind == .control && (d.args.isEmpty || isHost d))) &&
  d.args.all extraNoTest

end Safe
