import SieveModel.Model.Table
/-! Decoder for the textual table encoding produced by `harness/translate.py` (`enc_def`),
    used by the driver to receive custom command tables (C20) and the live registry. -/
namespace TableCodec

def bytesOf (s : String) : Bytes := if s == "e" then [] else B.ofHex s

def optList (s : String) : Option (List Bytes) :=
  if s == "-" then none else if s == "e" then some [] else some ((s.splitOn ",").map bytesOf)

def typeOf (c : Char) : Option ArgType :=
  match c with
  | 't' => some .tag | 's' => some .string | 'l' => some .stringlist
  | 'n' => some .number | 'T' => some .test | 'L' => some .testlist | _ => none

def typesOf (s : String) : List ArgType := if s == "e" then [] else s.toList.filterMap typeOf

def extraOf (s : String) : Option ExtraDef :=
  if s == "-" then none else
  match s.splitOn ":" with
  | [ts, isStr, vals, vf] =>
    some { types := typesOf ts, typeIsStr := isStr == "1", values := optList vals, validFor := optList vf }
  | _ => none

def extValuesOf (s : String) : List (Bytes × Bytes) :=
  if s == "-" then [] else
  (s.splitOn ",").filterMap fun kv =>
    match kv.splitOn "=" with
    | [k, v] => some (bytesOf k, bytesOf v)
    | _ => none

def strOfBytes (b : Bytes) : String := String.ofList (b.map (fun c => Char.ofNat c.toNat))

def argOf (s : String) : Option ArgDef :=
  match s.splitOn "/" with
  | [name, types, req, vals, ev, ext, extra] =>
    some { name := strOfBytes (bytesOf name), types := typesOf types, required := req == "1",
           values := optList vals, extValues := extValuesOf ev,
           extension := if ext == "-" then none else some (bytesOf ext), extra := extraOf extra }
  | _ => none

def tokOf (s : String) : Option TokKind := TokKind.all[s.toNat!]?

def field (fs : List String) (k : String) : String :=
  match fs.find? (fun f => f.startsWith (k ++ "=")) with
  | some f => (f.drop (k.length + 1)).toString
  | none => "-"

def defOf (fs : List String) : Option CmdDef :=
  let kind : Kind := match field fs "kind" with | "c" => .control | "a" => .action | _ => .test
  let argsS := field fs "args"
  let args := if argsS == "e" then [] else (argsS.splitOn ";").filterMap argOf
  let ef := field fs "ef"
  some { key := bytesOf (field fs "key"), name := bytesOf (field fs "name"), kind := kind,
         args := args, acceptChildren := field fs "ac" == "1", variableArgs := field fs "va" == "1",
         nonDet := field fs "nd" == "1", mustFollow := optList (field fs "mf"),
         extension := (if field fs "ext" == "-" then none else some (bytesOf (field fs "ext"))),
         expectedFirst := (if ef == "-" then none else if ef == "e" then some []
                           else some ((ef.splitOn ",").filterMap tokOf)),
         special := match field fs "sp" with | "r" => .require | "h" => .hasflag | _ => .none }

end TableCodec
