import SieveModel.Model.Bytes
/-!
# `sievelib.tools.to_list` — reading a rendered string list back

`stringlist[1:-1].split(",")`, each piece optionally stripped of double quotes.  This is what every
`args_as_tuple` read-back of list-valued arguments goes through (C19).
-/
namespace ToList

/-- `bytes.split(b",")` -/
def splitComma : Bytes → List Bytes
  | [] => [[]]
  | c :: rest =>
    if c == 44 then [] :: splitComma rest
    else
      match splitComma rest with
      | [] => [[c]]
      | p :: ps => (c :: p) :: ps

/-- `s[1:-1]` -/
def inner (s : Bytes) : Bytes := (s.drop 1).dropLast

/-- `to_list(stringlist, unquote)` -/
def toList (s : Bytes) (unquote : Bool := true) : List Bytes :=
  (splitComma (inner s)).map (fun p => if unquote then B.stripC 34 p else p)

/-- how the factory and the serializer write a list of plain items: `["a","b"]` -/
def joinComma : List Bytes → Bytes
  | [] => []
  | [a] => a
  | a :: rest => a ++ [44] ++ joinComma rest

def render (items : List Bytes) : Bytes := [91] ++ joinComma (items.map (fun v => [34] ++ v ++ [34])) ++ [93]

end ToList
