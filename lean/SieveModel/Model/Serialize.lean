import SieveModel.Model.Tree
/-!
# M5 — the serializer (`Command.tosieve`)

Prints a tree in *definition* order of the arguments.  Values are the raw source texts kept in
the tree.  `none` = a Python exception (definition missing, value of an unexpected shape).
-/
namespace Ser

def spaces (n : Nat) : Bytes := List.replicate n 32

/-- a string-list item: kept verbatim when it is a quoted token, else `'"%s"' % v.strip('"')` -/
def renderItem (v : Bytes) : Bytes :=
  if v.length ≥ 2 && v.head? == some 34 && v.getLast? == some 34 then v
  else [34] ++ B.stripC 34 v ++ [34]

def joinCommaSp : List Bytes → Bytes
  | [] => []
  | [a] => a
  | a :: rest => a ++ [44, 32] ++ joinCommaSp rest

def renderList (items : List Bytes) : Bytes := [91] ++ joinCommaSp (items.map renderItem) ++ [93]

/-- `"string" in atype` for a slot type list / an extra-arg type (list or single str) -/
def hasStringType (types : List ArgType) (isStr : Bool) : Bool :=
  decide (ArgType.string ∈ types) || (isStr && decide (ArgType.stringlist ∈ types))

/-- a plain (str) value: `write(value)`, plus a newline after multi-line text -/
def renderScalar (stringTyped : Bool) (v : Bytes) : Bytes :=
  if stringTyped then
    if v.head? == some 34 || v.head? == some 91 then v else v ++ [10]
  else v

def lookupR (l : List (String × Bytes)) (k : String) : Option Bytes := (l.find? (fun p => p.1 == k)).map (·.2)

/-- the loop over `args_definition`, given every argument / tag parameter already rendered -/
def assemble : List ArgDef → List (String × Bytes) → List (String × Bytes) → Bytes
  | [], _, _ => []
  | d :: rest, ra, re =>
    match lookupR ra d.name with
    | none => assemble rest ra re
    | some v =>
      let param : Bytes :=
        if decide (ArgType.tag ∈ d.types) then
          match lookupR re d.name with
          | some p => [32] ++ p
          | none => []
        else []
      [32] ++ v ++ param ++ assemble rest ra re

def slotOf (d : CmdDef) (k : String) : Option ArgDef := d.args.find? (fun a => a.name == k)

mutual
/-- `cmd.tosieve(indentlevel)` -/
def node (T : Table) (indent : Nat) : Node → Option Bytes
  | .mk name args extra children _ =>
    match T.byName name with
    | none => none
    | some d =>
      match renderArgs T indent d false args, renderArgs T indent d true extra with
      | some ra, some re =>
        let head := spaces indent ++ name ++ assemble d.args ra re
        if !d.acceptChildren then
          some (if d.kind != .test then head ++ [59, 10] else head)
        else if d.kind != .control then some head
        else
          match nodes T (indent + 4) children with
          | none => none
          | some body => some (head ++ [32, 123, 10] ++ body ++ spaces indent ++ [125, 10])
      | _, _ => none

def nodes (T : Table) (indent : Nat) : List Node → Option Bytes
  | [] => some []
  | n :: rest =>
    match node T indent n, nodes T indent rest with
    | some a, some b => some (a ++ b)
    | _, _ => none

/-- the test list inside parentheses: `t.tosieve()` joined by `", "` -/
def testsOut (T : Table) : List Node → Option Bytes
  | [] => some []
  | [n] => node T 0 n
  | n :: m :: rest =>
    match node T 0 n, testsOut T (m :: rest) with
    | some a, some b => some (a ++ [44, 32] ++ b)
    | _, _ => none

/-- one recorded value (`isExtra`: it is a tag parameter, typed by the slot's `extra_arg`) -/
def renderArg (T : Table) (indent : Nat) (d : CmdDef) (isExtra : Bool) : Arg → Option (String × Bytes)
  | .str k v =>
    match slotOf d k with
    | none => some (k, v)
    | some slot =>
      if isExtra then
        match slot.extra with
        | none => none
        | some e => some (k, renderScalar (hasStringType e.types e.typeIsStr) v)
      else if decide (ArgType.tag ∈ slot.types) then some (k, v)
      else some (k, renderScalar (hasStringType slot.types false) v)
  | .strs k items =>
    match slotOf d k with
    | none => some (k, [])
    | some slot =>
      if !isExtra && (decide (ArgType.tag ∈ slot.types) || slot.types == [.testlist]) then none
      else some (k, renderList items)
  | .test k n =>
    match node T indent n with
    | some b => some (k, b)
    | none => none
  | .tests k l =>
    match slotOf d k with
    | none => some (k, [])
    | some slot =>
      if slot.types == [.testlist] then
        match testsOut T l with
        | some b => some (k, [40] ++ b ++ [41])
        | none => none
      else none

def renderArgs (T : Table) (indent : Nat) (d : CmdDef) (isExtra : Bool) : List Arg → Option (List (String × Bytes))
  | [] => some []
  | a :: rest =>
    match renderArg T indent d isExtra a, renderArgs T indent d isExtra rest with
    | some x, some xs => some (x :: xs)
    | _, _ => none
end

/-- all top-level commands, as `parser --tosieve` prints them -/
def script (T : Table) (r : List Node) : Option Bytes := nodes T 0 r

end Ser
