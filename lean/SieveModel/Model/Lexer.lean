import SieveModel.Model.Bytes
/-!
# M2 — the lexer (`sievelib.parser.Lexer.scan` over `Parser.lrules`)

Hand model of CPython `re` on the fifteen ordered alternatives, on bytes, `re.MULTILINE`.
Every function works on the *suffix* `text[pos:]` (no rule looks behind `pos`).
Validated against the real lexer by the `lex` correspondence suite.
-/

inductive TokKind
  | left_bracket | right_bracket | left_parenthesis | right_parenthesis
  | left_cbracket | right_cbracket | semicolon | comma
  | hash_comment | bracket_comment | multiline | string | identifier | tag | number
  deriving DecidableEq, Repr, Inhabited

def TokKind.name : TokKind → String
  | .left_bracket => "left_bracket" | .right_bracket => "right_bracket"
  | .left_parenthesis => "left_parenthesis" | .right_parenthesis => "right_parenthesis"
  | .left_cbracket => "left_cbracket" | .right_cbracket => "right_cbracket"
  | .semicolon => "semicolon" | .comma => "comma"
  | .hash_comment => "hash_comment" | .bracket_comment => "bracket_comment"
  | .multiline => "multiline" | .string => "string" | .identifier => "identifier"
  | .tag => "tag" | .number => "number"

/-- rule names in the order of `Parser.lrules` (compared with the generated list) -/
def TokKind.all : List TokKind :=
  [.left_bracket, .right_bracket, .left_parenthesis, .right_parenthesis, .left_cbracket,
   .right_cbracket, .semicolon, .comma, .hash_comment, .bracket_comment, .multiline, .string,
   .identifier, .tag, .number]

/-- the regular expression each rule of the model implements (Python `re` syntax, `re.MULTILINE`), in rule
    order; compared with the patterns read from `Parser.lrules` on every run (`C01`/`C02`) -/
def TokKind.patterns : List String :=
  ["\\[", "\\]", "\\(", "\\)", "{", "}", ";", ",", "#.*$", "/\\*[\\s\\S]*?\\*/", "text:[\\s\\S]*?[\\r\\n]+\\.\\r?$", "\"([^\"\\\\]|\\\\.)*\"", "[a-zA-Z_][\\w]*", ":[a-zA-Z_][\\w]*", "[0-9]+[KMGkmg]?"]

/-- how `Lexer` compiles its rules and what it skips between tokens (`re.MULTILINE`; white space `\s+`), as modelled -/
def TokKind.auxPatterns : List (String × String) :=
  [("compile regexp", "<dynamic>  flags re.MULTILINE"), ("compile wsregexp", "\\s+  flags re.M")]

structure Tok where
  kind : TokKind
  pos  : Nat
  text : Bytes
  deriving DecidableEq, Repr, Inhabited

namespace Lex

def single (c : UInt8) : Option TokKind :=
  if c == 91 then some .left_bracket else if c == 93 then some .right_bracket
  else if c == 40 then some .left_parenthesis else if c == 41 then some .right_parenthesis
  else if c == 123 then some .left_cbracket else if c == 125 then some .right_cbracket
  else if c == 59 then some .semicolon else if c == 44 then some .comma else none

/-- length of the maximal prefix of bytes satisfying `p` -/
def spanLen (p : UInt8 → Bool) : Bytes → Nat
  | [] => 0
  | c :: cs => if p c then spanLen p cs + 1 else 0

/-- `/\*[\s\S]*?\*/` after the leading `/*`: number of bytes up to and including the first `*/` -/
def closeComment : Bytes → Option Nat
  | 42 :: 47 :: _ => some 2
  | _ :: rest => (closeComment rest).map (· + 1)
  | [] => none

/-- `text:[\s\S]*?[\r\n]+\.\r?$` after the 5 bytes `text:`.  The argument is `t[k-1:]`;
    `acc = k-1-p`.  First `k` with `t[k-1] ∈ {CR,LF}`, `t[k] = '.'`, then either
    `CR` followed by end/LF (the CR is part of the token) or directly end/LF. -/
def multilineEnd : Bytes → Nat → Option Nat
  | a :: 46 :: rest, acc =>
    if a == 10 || a == 13 then
      match rest with
      | [] => some (acc + 2)
      | 10 :: _ => some (acc + 2)
      | 13 :: [] => some (acc + 3)
      | 13 :: 10 :: _ => some (acc + 3)
      | _ => multilineEnd (46 :: rest) (acc + 1)
    else multilineEnd (46 :: rest) (acc + 1)
  | _ :: b :: rest, acc => multilineEnd (b :: rest) (acc + 1)
  | _, _ => none

/-- `"([^"\\]|\\.)*"` after the opening quote: bytes up to and including the closing quote -/
def stringEnd : Bytes → Option Nat
  | [] => none
  | 34 :: _ => some 1
  | 92 :: c :: rest => if c == 10 then none else (stringEnd rest).map (· + 2)
  | 92 :: [] => none
  | _ :: rest => (stringEnd rest).map (· + 1)

def isText : Bytes → Bool
  | 116 :: 101 :: 120 :: 116 :: 58 :: _ => true
  | _ => false

/-- one token at the head of a non-empty, non-whitespace suffix: kind and length -/
def one (t : Bytes) : Option (TokKind × Nat) :=
  match t with
  | [] => none
  | c :: rest =>
    match single c with
    | some k => some (k, 1)
    | none =>
      if c == 35 then some (.hash_comment, 1 + spanLen (· != 10) rest)
      else if c == 47 then
        match rest with
        | 42 :: r2 => (closeComment r2).map (fun n => (.bracket_comment, n + 2))
        | _ => none
      else if c == 34 then (stringEnd rest).map (fun n => (.string, n + 1))
      else if B.isAlpha_ c then
        let ident := (TokKind.identifier, 1 + spanLen B.isWord rest)
        if isText t then
          match multilineEnd (t.drop 5) 5 with
          | some n => some (.multiline, n)
          | none => some ident
        else some ident
      else if c == 58 then
        match rest with
        | d :: r2 => if B.isAlpha_ d then some (.tag, 2 + spanLen B.isWord r2) else none
        | [] => none
      else if B.isDigit c then
        let n := spanLen B.isDigit rest
        match rest.drop n with
        | s :: _ => if s == 75 || s == 77 || s == 71 || s == 107 || s == 109 || s == 103
                    then some (.number, n + 2) else some (.number, n + 1)
        | [] => some (.number, n + 1)
      else none

structure Result where
  toks : List Tok
  /-- `some (pos, tokenText)` when `scan` raised "unknown token" -/
  err  : Option (Nat × Bytes)
  /-- value of `lexer.pos` when the generator stopped -/
  endPos : Nat
  deriving Repr

/-- the scan loop; `fuel` bounds iterations (each consumes ≥ 1 byte). `none` = fuel exhausted. -/
def scan : Nat → Bytes → Nat → List Tok → Option Result
  | 0, _, _, _ => none
  | fuel + 1, t, pos, acc =>
    match t with
    | [] => some ⟨acc.reverse, none, pos⟩
    | c :: _ =>
      if B.isWs c then
        let n := spanLen B.isWs t
        scan fuel (t.drop n) (pos + n) acc
      else
        match one t with
        | none => some ⟨acc.reverse, some (pos, t.take (spanLen (fun x => !B.isWs x) t)), pos⟩
        | some (k, n) => scan fuel (t.drop n) (pos + n) (⟨k, pos, t.take n⟩ :: acc)

def lex (t : Bytes) : Option Result := scan (t.length + 1) t 0 []

/-- `Lexer.curlineno` -/
def lineno (text : Bytes) (pos : Nat) : Nat := B.count 10 (text.take pos) + 1

/-- index of the last `\n` in `b`, +1 (0 when absent): `rfind + 1` -/
def rfindNl1 (b : Bytes) : Nat :=
  match b.reverse.idxOf? 10 with
  | some i => b.length - i
  | none => 0

/-- `Lexer.curcolno`: `pos - text.rfind(b"\n", 0, pos)` -/
def colno (text : Bytes) (pos : Nat) : Nat := pos + 1 - rfindNl1 (text.take pos)

end Lex
