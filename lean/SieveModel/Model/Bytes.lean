/-!
# Bytes

Byte strings are `List UInt8`.  ASCII literals are written `sb "text"`, which the kernel can
evaluate (unlike `String.toUTF8`).  Only ASCII helpers live here; everything is total and
import-free so that it can be compiled into the native driver.
-/

abbrev Bytes := List UInt8

/-- ASCII string literal → bytes (kernel-reducible). Only used on ASCII literals. -/
def sb (s : String) : Bytes := s.toList.map (fun c => c.toNat.toUInt8)

namespace B

def isDigit (c : UInt8) : Bool := 48 ≤ c && c ≤ 57
def isUpper (c : UInt8) : Bool := 65 ≤ c && c ≤ 90
def isLower (c : UInt8) : Bool := 97 ≤ c && c ≤ 122
/-- `[a-zA-Z_]` -/
def isAlpha_ (c : UInt8) : Bool := isUpper c || isLower c || c == 95
/-- bytes-pattern `\w` = `[a-zA-Z0-9_]` -/
def isWord (c : UInt8) : Bool := isAlpha_ c || isDigit c
/-- bytes-pattern `\s` = `[ \t\n\r\f\v]` -/
def isWs (c : UInt8) : Bool := c == 32 || c == 9 || c == 10 || c == 13 || c == 11 || c == 12

def lowerC (c : UInt8) : UInt8 := if isUpper c then c + 32 else c
def upperC (c : UInt8) : UInt8 := if isLower c then c - 32 else c
/-- ASCII `.lower()` (non-ASCII bytes are left alone; see DESIGN trusted base). -/
def lower (b : Bytes) : Bytes := b.map lowerC
/-- `.capitalize()` on ASCII: first upper, rest lower -/
def capitalize : Bytes → Bytes
  | [] => []
  | c :: cs => upperC c :: lower cs

/-- `b.strip(c)` for a single byte `c` -/
def stripL (c : UInt8) : Bytes → Bytes
  | [] => []
  | x :: xs => if x == c then stripL c xs else x :: xs
def stripC (c : UInt8) (b : Bytes) : Bytes := (stripL c (stripL c b).reverse).reverse

def startsWith : Bytes → Bytes → Bool
  | _, [] => true
  | [], _ :: _ => false
  | x :: xs, p :: ps => x == p && startsWith xs ps

/-- decimal digits of `n`, most significant first, prepended to `acc` (`fuel` ≥ number of digits) -/
def decDigits : Nat → Nat → Bytes → Bytes
  | 0, _, acc => acc
  | fuel + 1, n, acc =>
    if n < 10 then (48 + n).toUInt8 :: acc
    else decDigits fuel (n / 10) ((48 + n % 10).toUInt8 :: acc)

/-- decimal rendering (`b"%d" % n`, `str(n)`) -/
def natToDec (n : Nat) : Bytes := decDigits (n + 1) n []

/-- decimal parse of a digit string -/
def decToNat (b : Bytes) : Nat := b.foldl (fun a c => a * 10 + (c.toNat - 48)) 0

def hexDigit (n : Nat) : Char :=
  if n < 10 then Char.ofNat (48 + n) else Char.ofNat (87 + n)
def toHex (b : Bytes) : String :=
  String.mk (b.foldr (fun c acc => hexDigit (c.toNat / 16) :: hexDigit (c.toNat % 16) :: acc) [])
def hexVal (c : Char) : Nat :=
  if '0' ≤ c ∧ c ≤ '9' then c.toNat - 48 else if 'a' ≤ c ∧ c ≤ 'f' then c.toNat - 87 else c.toNat - 55
def ofHexAux : List Char → Bytes
  | a :: b :: rest => (hexVal a * 16 + hexVal b).toUInt8 :: ofHexAux rest
  | _ => []
def ofHex (s : String) : Bytes := ofHexAux s.toList

/-- index of first occurrence of sub-list `pat` (non-empty) -/
def find (pat : Bytes) : Bytes → Option Nat
  | [] => if pat.isEmpty then some 0 else none
  | x :: xs => if startsWith (x :: xs) pat then some 0 else (find pat xs).map (· + 1)

def count (c : UInt8) (b : Bytes) : Nat := (b.filter (· == c)).length

end B
