import SieveModel.Model.Bytes
/-! Standard base64 (RFC 4648, with padding) — model of `base64.b64encode`, plus the decoder used
    by the SASL specifications. -/
namespace Base64

def alphabet : Bytes :=
  sb "ABCDEFGHIJKLMNOPQRSTUVWXYZabcdefghijklmnopqrstuvwxyz0123456789+/"

def enc6 (n : Nat) : UInt8 := alphabet.getD n 61

def dec6 (c : UInt8) : Option Nat :=
  if 65 ≤ c && c ≤ 90 then some (c.toNat - 65)
  else if 97 ≤ c && c ≤ 122 then some (c.toNat - 71)
  else if 48 ≤ c && c ≤ 57 then some (c.toNat + 4)
  else if c == 43 then some 62
  else if c == 47 then some 63
  else none

def encode : Bytes → Bytes
  | a :: b :: c :: rest =>
    let n := a.toNat * 65536 + b.toNat * 256 + c.toNat
    enc6 (n / 262144) :: enc6 (n / 4096 % 64) :: enc6 (n / 64 % 64) :: enc6 (n % 64) :: encode rest
  | [a, b] =>
    let n := a.toNat * 65536 + b.toNat * 256
    [enc6 (n / 262144), enc6 (n / 4096 % 64), enc6 (n / 64 % 64), 61]
  | [a] =>
    let n := a.toNat * 65536
    [enc6 (n / 262144), enc6 (n / 4096 % 64), 61, 61]
  | [] => []

def decode : Bytes → Option Bytes
  | [] => some []
  | [a, b, 61, 61] => do
    let x ← dec6 a; let y ← dec6 b
    pure [((x * 64 + y) / 16).toUInt8]
  | [a, b, c, 61] => do
    let x ← dec6 a; let y ← dec6 b; let z ← dec6 c
    let n := (x * 64 + y) * 64 + z
    pure [(n / 1024).toUInt8, (n / 4 % 256).toUInt8]
  | a :: b :: c :: d :: rest => do
    let x ← dec6 a; let y ← dec6 b; let z ← dec6 c; let w ← dec6 d
    let n := ((x * 64 + y) * 64 + z) * 64 + w
    let r ← decode rest
    pure ((n / 65536).toUInt8 :: (n / 256 % 256).toUInt8 :: (n % 256).toUInt8 :: r)
  | _ => none

end Base64
