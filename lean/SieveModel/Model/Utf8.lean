import SieveModel.Model.Bytes
/-!
# Strict UTF-8 validity (CPython `bytes.decode("utf-8")` raises iff `valid` is false)

Well-formed byte sequences per Unicode table 3-7: no overlongs, no surrogates, ≤ U+10FFFF.
-/
namespace Utf8

def cont (c : UInt8) : Bool := 0x80 ≤ c && c ≤ 0xBF

def valid : Bytes → Bool
  | [] => true
  | a :: rest =>
    if a < 0x80 then valid rest
    else if 0xC2 ≤ a && a ≤ 0xDF then
      match rest with
      | b :: r => cont b && valid r
      | _ => false
    else if a == 0xE0 then
      match rest with
      | b :: c :: r => (0xA0 ≤ b && b ≤ 0xBF) && cont c && valid r
      | _ => false
    else if (0xE1 ≤ a && a ≤ 0xEC) || a == 0xEE || a == 0xEF then
      match rest with
      | b :: c :: r => cont b && cont c && valid r
      | _ => false
    else if a == 0xED then
      match rest with
      | b :: c :: r => (0x80 ≤ b && b ≤ 0x9F) && cont c && valid r
      | _ => false
    else if a == 0xF0 then
      match rest with
      | b :: c :: d :: r => (0x90 ≤ b && b ≤ 0xBF) && cont c && cont d && valid r
      | _ => false
    else if 0xF1 ≤ a && a ≤ 0xF3 then
      match rest with
      | b :: c :: d :: r => cont b && cont c && cont d && valid r
      | _ => false
    else if a == 0xF4 then
      match rest with
      | b :: c :: d :: r => (0x80 ≤ b && b ≤ 0x8F) && cont c && cont d && valid r
      | _ => false
    else false

end Utf8
