import SieveModel.Model.Lexer
/-!
# M1 — command tables (`args_definition` and class attributes of `sievelib.commands`)

The instance `Generated.builtinTable` is regenerated from `/repo` by `harness/translate.py`.
-/

inductive ArgType
  | tag | string | stringlist | number | test | testlist
  deriving DecidableEq, Repr, Inhabited

def ArgType.name : ArgType → String
  | .tag => "tag" | .string => "string" | .stringlist => "stringlist"
  | .number => "number" | .test => "test" | .testlist => "testlist"

structure ExtraDef where
  types : List ArgType
  /-- Python gave `type` as one `str`: `atype in type` is then *substring* search -/
  typeIsStr : Bool
  values : Option (List Bytes)
  validFor : Option (List Bytes)
  deriving DecidableEq, Repr, Inhabited

structure ArgDef where
  name : String
  types : List ArgType
  required : Bool
  values : Option (List Bytes)
  extValues : List (Bytes × Bytes)
  extension : Option Bytes
  extra : Option ExtraDef
  deriving DecidableEq, Repr, Inhabited

inductive Kind | control | action | test
  deriving DecidableEq, Repr, Inhabited

def Kind.name : Kind → String
  | .control => "control" | .action => "action" | .test => "test"

/-- which `complete_cb` / `reassign_arguments` override the class carries -/
inductive Special | none | require | hasflag
  deriving DecidableEq, Repr, Inhabited

structure CmdDef where
  /-- class name without the `Command` suffix, e.g. `Fileinto` -/
  key : Bytes
  /-- `Command.name`: class name with `Command` removed, lower-cased -/
  name : Bytes
  kind : Kind
  args : List ArgDef
  acceptChildren : Bool
  variableArgs : Bool
  nonDet : Bool
  mustFollow : Option (List Bytes)
  extension : Option Bytes
  expectedFirst : Option (List TokKind)
  special : Special
  deriving DecidableEq, Repr, Inhabited

abbrev Table := List CmdDef

def Table.findKey (T : Table) (k : Bytes) : Option CmdDef := T.find? (fun d => d.key == k)

/-- `get_command_instance`: `"%sCommand" % name.lower().capitalize()` looked up in the registry -/
def Table.lookup (T : Table) (ident : Bytes) : Option CmdDef :=
  T.findKey (B.capitalize (B.lower ident))

def Table.byName (T : Table) (n : Bytes) : Option CmdDef := T.find? (fun d => d.name == n)

/-- `add_commands`: `globals()[name] = cls` — replaces an entry with the same key, else appends -/
def Table.register (T : Table) (d : CmdDef) : Table :=
  if T.any (fun e => e.key == d.key) then T.map (fun e => if e.key == d.key then d else e) else T ++ [d]
