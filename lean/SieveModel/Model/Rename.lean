import SieveModel.Model.Bytes
/-!
# M9 — the emulated RENAMESCRIPT against an abstract server store

The client's emulation (`Client.renamescript` on a server without the VERSION capability) as a walk
over the five commands it sends — LISTSCRIPTS, GETSCRIPT, PUTSCRIPT, SETACTIVE, DELETESCRIPT — against
an abstract RFC 5804 store, with a fault at any of them:

* `no`     the server answers NO and does not execute the command;
* `bye`    the server answers BYE (closes) and does not execute it;
* `silent` nothing comes back and the command is not executed;
* `lost`   the command IS executed but its reply never reaches the client.

`f` is what the client uploads for a content it downloaded (line ends are normalised on the way).
The byte-level client model (`Model/Client.lean`) is tied to the real client command by command; this
model is tied to the real client running against the executable reference server, state class by
state class and fault by fault (`harness/prop_C14.py`, driver op `ren`).
-/
namespace Rename

structure Store where
  /-- name ↦ content in listing order -/
  scripts : List (Bytes × Bytes)
  active : Option Bytes
  deriving Repr, DecidableEq

inductive Step | list | get | put | setactive | delete
  deriving DecidableEq, Repr

inductive Fault | none | no | bye | silent | lost
  deriving DecidableEq, Repr

inductive Outcome | true | false | error
  deriving DecidableEq, Repr

def Store.names (s : Store) : List Bytes := s.scripts.map (·.1)

def Store.lookup (s : Store) (n : Bytes) : Option Bytes := (s.scripts.find? (fun p => p.1 == n)).map (·.2)

/-- PUTSCRIPT: replace in place or append -/
def putList : List (Bytes × Bytes) → Bytes → Bytes → List (Bytes × Bytes)
  | [], n, c => [(n, c)]
  | p :: rest, n, c => if p.1 == n then (n, c) :: rest else p :: putList rest n c

def Store.put (s : Store) (n c : Bytes) : Store := { s with scripts := putList s.scripts n c }

/-- SETACTIVE of an existing script -/
def Store.activate (s : Store) (n : Bytes) : Option Store :=
  if s.names.contains n then some { s with active := some n } else none

/-- DELETESCRIPT: refused for a missing or the active script -/
def Store.delete (s : Store) (n : Bytes) : Option Store :=
  if !s.names.contains n then none
  else if s.active == some n then none
  else some { s with scripts := s.scripts.filter (fun p => !(p.1 == n)) }

/-- what `listscripts` hands to the caller: the active script and the other names -/
def Store.others (s : Store) : List Bytes := s.names.filter (fun n => !(s.active == some n))

/-- DELETESCRIPT, last step -/
def stepDelete (plan : Step → Fault) (s : Store) (old : Bytes) : Store × Outcome :=
  match plan .delete with
  | .bye | .silent => (s, .error)
  | .no => (s, .false)
  | .lost => ((s.delete old).getD s, .error)
  | .none =>
    match s.delete old with
    | some s' => (s', .true)
    | none => (s, .false)

/-- SETACTIVE (only when the old script was the active one), then DELETESCRIPT -/
def stepActivate (plan : Step → Fault) (s : Store) (wasActive : Bool) (old new : Bytes) : Store × Outcome :=
  if !wasActive then stepDelete plan s old else
  match plan .setactive with
  | .bye | .silent => (s, .error)
  | .no => (s, .false)
  | .lost => ((s.activate new).getD s, .error)
  | .none =>
    match s.activate new with
    | some s' => stepDelete plan s' old
    | none => (s, .false)

/-- PUTSCRIPT of the downloaded content under the new name -/
def stepPut (f : Bytes → Bytes) (plan : Step → Fault) (s : Store) (wasActive : Bool) (old new c : Bytes) : Store × Outcome :=
  match plan .put with
  | .bye | .silent => (s, .error)
  | .no => (s, .false)
  | .lost => (s.put new (f c), .error)
  | .none => stepActivate plan (s.put new (f c)) wasActive old new

/-- GETSCRIPT of the old script -/
def stepGet (f : Bytes → Bytes) (plan : Step → Fault) (s : Store) (wasActive : Bool) (old new : Bytes) : Store × Outcome :=
  match plan .get with
  | .bye | .silent | .lost => (s, .error)
  | .no => (s, .false)
  | .none =>
    match s.lookup old with
    | none => (s, .false)
    | some c => stepPut f plan s wasActive old new c

/-- the emulated rename: LISTSCRIPTS, the two existence checks on what the listing said, then the chain -/
def run (f : Bytes → Bytes) (plan : Step → Fault) (s : Store) (old new : Bytes) : Store × Outcome :=
  match plan .list with
  | .bye | .silent | .lost => (s, .error)
  | .no => (s, .false)
  | .none =>
    let wasActive := s.active == some old
    if !wasActive && !s.others.contains old then (s, .false)          -- "Old script does not exist"
    else if s.others.contains new || s.active == some new then (s, .false)   -- "New script already exists"
    else stepGet f plan s wasActive old new

end Rename
