import SieveModel.Lemmas.Loaded
import SieveModel.Lemmas.NoCrash
/-!
# Brackets of an accepted script are balanced and properly nested

The parser's bracket stack follows the token stream exactly: an opening `{`, `(` or `[` that is
accepted pushes its closer, an accepted closer pops the same closer from the top, no other token
touches the stack, and acceptance requires the stack to be empty (C01).
-/
namespace Brackets
open Machine Args

def closerOf : TokKind → Option TokKind
  | .left_cbracket => some .right_cbracket
  | .left_parenthesis => some .right_parenthesis
  | .left_bracket => some .right_bracket
  | _ => none

def isCloser (k : TokKind) : Bool := k == .right_cbracket || k == .right_parenthesis || k == .right_bracket

/-- the stack discipline of nested brackets: `none` = a closer that does not match the innermost opener -/
def dstep (b : List TokKind) (k : TokKind) : Option (List TokKind) :=
  match closerOf k with
  | some c => some (c :: b)
  | none =>
    if isCloser k then
      match b with
      | x :: r => if x == k then some r else none
      | [] => none
    else some b

def Keeps (b : List TokKind) (r : FnResult) : Prop :=
  match r with
  | .ret _ s' _ => s'.brackets = b
  | _ => True

theorem keeps_ofCmdErr (b : List TokKind) (rew : Bool) (e : CmdErr) : Keeps b (ofCmdErr rew e) := by
  cases e <;> trivial

theorem withTop_br (s : PState) (f : Frame) : (withTop s f).brackets = s.brackets := by
  unfold withTop; split <;> rfl

theorem curCheck_br (s : PState) (t : ArgType) (v : AVal) (b : Bool) (s' : PState) (pl : Placement)
    (h : curCheck s t v = .ok (b, s', pl)) : s'.brackets = s.brackets := by
  unfold curCheck at h
  split at h
  · simp at h
  · split at h
    · simp at h
    · simp at h; rw [← h.2.1]
    · simp at h; rw [← h.2.1]; exact withTop_br _ _

theorem completion_br (s : PState) (ts : Bool) (b : Bool) (s' : PState)
    (h : completion s ts = .ok (b, s')) : s'.brackets = s.brackets := by
  unfold completion at h
  split at h
  · simp at h
  · split at h
    · simp at h; rw [← h.2]
    · split at h
      · simp at h; rw [← h.2]; split <;> rfl
      · split at h
        · simp at h
        · simp at h; rw [← h.2]

theorem keeps_complThen (s : PState) (b : List TokKind) (hb : s.brackets = b) (ts rew : Bool) :
    Keeps b (complThen s ts rew) := by
  unfold complThen
  split
  · exact keeps_ofCmdErr _ _ _
  · rename_i bb s' h
    exact (completion_br s ts bb s' h).trans hb

theorem up_br (s s' : PState) (h : up s = .ok s') : s'.brackets = s.brackets := by
  unfold up at h
  split at h
  · simp at h
  · simp at h
    rw [← h]
    simp only
    unfold record
    split <;> rfl

theorem popBracket_br (s s1 : PState) (k : TokKind) (h : popBracket s k = some s1) : s.brackets = k :: s1.brackets := by
  unfold popBracket at h
  cases hb : s.brackets with
  | nil => rw [hb] at h; simp at h
  | cons x r =>
    rw [hb] at h
    simp only at h
    by_cases hx : (x == k) = true
    · simp only [hx, if_true, Option.some.injEq] at h
      have : x = k := by simpa using hx
      rw [← h, this]
    · simp [hx] at h

theorem keeps_offer (s : PState) (t : ArgType) (v : AVal) : Keeps s.brackets (offer s t v) := by
  unfold offer
  split
  · exact keeps_ofCmdErr _ _ _
  · rename_i b s' pl h
    exact curCheck_br s t v b s' pl h

theorem keeps_tryReassign (s : PState) : Keeps s.brackets (tryReassign s) := by
  unfold tryReassign
  split
  · trivial
  · split
    · split
      · rfl
      · exact withTop_br _ _
    · rfl

theorem keeps_thenCompl (b : List TokKind) (r : FnResult) (h : Keeps b r) : Keeps b (thenCompl r) := by
  unfold thenCompl
  split
  · rename_i s' rew
    exact keeps_complThen s' b h false rew
  · exact h

/-- `__argument` followed by the completion check: `[` pushes its closer, nothing else changes -/
theorem argThenCompl_br (s : PState) (k : TokKind) (text : Bytes) :
    Keeps (if k == .left_bracket then .right_bracket :: s.brackets else s.brackets) (argThenCompl s k text) := by
  unfold argThenCompl
  apply keeps_thenCompl
  have hoff : ∀ t v, Keeps s.brackets (if (!Utf8.valid text) = true then FnResult.err PErr.decodeError false else offer s t v) := by
    intro t v; split
    · trivial
    · exact keeps_offer s t v
  cases k with
  | string => exact hoff _ _
  | multiline => exact hoff _ _
  | number => exact keeps_offer _ _ _
  | tag => exact keeps_offer _ _ _
  | left_bracket => rfl
  | left_cbracket => exact keeps_tryReassign s
  | comma => exact keeps_tryReassign s
  | right_parenthesis => exact keeps_tryReassign s
  | semicolon => rfl
  | right_bracket => rfl
  | left_parenthesis => rfl
  | right_cbracket => rfl
  | hash_comment => rfl
  | bracket_comment => rfl
  | identifier => rfl

theorem keeps_pushTest (T : Table) (s : PState) (text : Bytes) : Keeps s.brackets (pushTest T s text) := by
  unfold pushTest
  split
  · trivial
  · rename_i d hd
    split
    · trivial
    · split
      · exact keeps_ofCmdErr _ _ _
      · rename_i s1 pl h
        exact curCheck_br _ _ _ _ _ _ h
      · rename_i s1 pl h
        have h1 := curCheck_br _ _ _ _ _ _ h
        exact keeps_complThen ⟨s1.result, s1.comments, { d := d, attach := .place pl } :: s1.stack, s1.cstate, s1.curlist, d.expectedFirst, s1.brackets, s1.loaded⟩ _ h1 false false

/-- the effect of an accepted token on the bracket stack -/
def Eff (s : PState) (k : TokKind) (r : FnResult) : Prop :=
  match r with
  | .ret true s' rew => dstep s.brackets k = some s'.brackets ∨ (rew = true ∧ s'.brackets = s.brackets)
  | .ret false s' _ => (k = .left_cbracket ∨ k = .semicolon) → s'.brackets = s.brackets
  | _ => True

theorem eff_of_keeps (s : PState) (k : TokKind) (r : FnResult) (h : Keeps s.brackets r)
    (hk : closerOf k = none) (hc : isCloser k = false) : Eff s k r := by
  cases r with
  | ret b s' rew =>
    cases b with
    | true => left; simp [dstep, hk, hc]; exact h.symm
    | false => intro _; exact h
  | err e r => trivial
  | crash w => trivial

theorem closeParen_eff (s : PState) : Eff s .right_parenthesis (closeParen s) := by
  unfold closeParen
  split
  · trivial
  · rename_i s1 h1
    split
    · trivial
    · rename_i s2 h2
      left
      have hb := popBracket_br s s1 _ h1
      rw [up_br s1 s2 h2]
      simp [dstep, closerOf, isCloser, hb]

/-- `tryReassign` followed by the completion check never answers a plain `True` (it declines or rewinds) -/
theorem thenCompl_tryReassign_not_plain (s s' : PState) : thenCompl (tryReassign s) ≠ .ret true s' false := by
  unfold tryReassign
  split
  · simp [thenCompl]
  · split
    · split
      · simp [thenCompl]
      · simp only [thenCompl, complThen]
        split
        · rename_i e _; cases e <;> simp [ofCmdErr]
        · simp
    · simp [thenCompl]

theorem argThenCompl_eff (s : PState) (k : TokKind) (text : Bytes) : Eff s k (argThenCompl s k text) := by
  have h := argThenCompl_br s k text
  cases hr : argThenCompl s k text with
  | err e r => trivial
  | crash w => trivial
  | ret b s' rew =>
    rw [hr] at h
    have hs' : s'.brackets = (if k == .left_bracket then .right_bracket :: s.brackets else s.brackets) := h
    cases b with
    | false =>
      intro hk
      rw [hs']
      rcases hk with rfl | rfl <;> simp
    | true =>
      by_cases hk : k = .left_bracket
      · subst hk
        left
        simp [dstep, closerOf, hs']
      · have hkb : (k == .left_bracket) = false := by simpa using hk
        rw [hkb] at hs'
        simp only [Bool.false_eq_true, if_false] at hs'
        -- accepted with an unchanged stack: either the token is not a bracket, or it was sent back (rewind)
        cases rew with
        | true => exact Or.inr ⟨rfl, hs'⟩
        | false =>
          left
          -- without a rewind, `argThenCompl` answers True only to value tokens
          have hnot : closerOf k = none ∧ isCloser k = false := by
            -- brackets other than `[` reach `tryReassign` (rewinds or declines) or are declined outright
            unfold argThenCompl at hr
            cases k with
            | left_cbracket => exact absurd hr (thenCompl_tryReassign_not_plain s s')
            | left_parenthesis => exfalso; simp [argumentFn, thenCompl] at hr
            | right_cbracket => exfalso; simp [argumentFn, thenCompl] at hr
            | right_bracket => exfalso; simp [argumentFn, thenCompl] at hr
            | right_parenthesis => exact absurd hr (thenCompl_tryReassign_not_plain s s')
            | left_bracket => exact absurd rfl hk
            | string => exact ⟨rfl, rfl⟩
            | multiline => exact ⟨rfl, rfl⟩
            | number => exact ⟨rfl, rfl⟩
            | tag => exact ⟨rfl, rfl⟩
            | comma => exact ⟨rfl, rfl⟩
            | semicolon => exact ⟨rfl, rfl⟩
            | hash_comment => exact ⟨rfl, rfl⟩
            | bracket_comment => exact ⟨rfl, rfl⟩
            | identifier => exact ⟨rfl, rfl⟩
          simp [dstep, hnot.1, hnot.2, hs']

end Brackets

namespace Brackets
open Machine Args

theorem argumentsFn_eff (T : Table) (s : PState) (k : TokKind) (text : Bytes) : Eff s k (argumentsFn T s k text) := by
  unfold argumentsFn
  split
  · trivial
  · split
    · exact eff_of_keeps s _ _ (keeps_pushTest T s text) rfl rfl
    · split
      · left; simp [dstep, closerOf]
      · exact argThenCompl_eff s _ text
    · split
      · left; simp [dstep, closerOf, isCloser]
      · exact argThenCompl_eff s _ text
    · split
      · exact argThenCompl_eff s _ text
      · exact closeParen_eff s
    · exact argThenCompl_eff s _ text

theorem stringlistFn_eff (s : PState) (k : TokKind) (text : Bytes) : Eff s k (stringlistFn s k text) := by
  unfold stringlistFn
  split
  · split
    · trivial
    · left; simp [dstep, closerOf, isCloser]
  · left; simp [dstep, closerOf, isCloser]
  · split
    · trivial
    · rename_i s1 h1
      have hb := popBracket_br s s1 _ h1
      split
      · rename_i e _; cases e <;> trivial
      · intro hk; rcases hk with hk | hk <;> cases hk
      · rename_i s2 pl hcc
        have h2 := curCheck_br _ _ _ _ _ _ hcc
        have hk := keeps_complThen ⟨s2.result, s2.comments, s2.stack, .arguments, s2.curlist, s2.expected, s2.brackets, s2.loaded⟩
          s1.brackets h2 true false
        cases hr : complThen ⟨s2.result, s2.comments, s2.stack, .arguments, s2.curlist, s2.expected, s2.brackets, s2.loaded⟩ true false with
        | err e r => trivial
        | crash w => trivial
        | ret b s3 rew =>
          rw [hr] at hk
          have hs3 : s3.brackets = s1.brackets := hk
          cases b with
          | false => intro hk'; rcases hk' with hk' | hk' <;> cases hk'
          | true => left; simp [dstep, closerOf, isCloser, hb, hs3]
  · intro _; rfl

theorem stateFn_eff (T : Table) (s : PState) (k : TokKind) (text : Bytes) : Eff s k (stateFn T s k text) := by
  unfold stateFn
  split
  · exact stringlistFn_eff s k text
  · exact argumentsFn_eff T s k text

theorem startCommand_eff (T : Table) (s : PState) (k : TokKind) (text : Bytes) : Eff s k (startCommand T s k text) := by
  unfold startCommand
  split
  · rename_i hk
    have hkk : k = .right_cbracket := by simpa using hk
    subst hkk
    split
    · trivial
    · rename_i s1 h1
      have hb := popBracket_br s s1 _ h1
      split
      · trivial
      · rename_i s2 h2
        left
        simp only
        rw [up_br s1 s2 h2]
        simp [dstep, closerOf, isCloser, hb]
  · split
    · intro _; rfl
    · rename_i hk1 hk2
      have hkk : k = .identifier := by simpa using hk2
      subst hkk
      split
      · trivial
      · rename_i d hd
        split
        · trivial
        · split
          · trivial
          · have ha : (announce s d).brackets = s.brackets := by unfold announce; split <;> rfl
            unfold pushCommand
            split
            · left; simp [dstep, closerOf, isCloser, ha]
            · split
              · trivial
              · left; simp [dstep, closerOf, isCloser, ha]

theorem closeCommand_eff (s' : PState) (k : TokKind) (rew : Bool) : Eff s' k (closeCommand s' k rew) := by
  unfold closeCommand
  by_cases hk1 : (k == .left_cbracket) = true
  · have hkk : k = .left_cbracket := by simpa using hk1
    simp only [hk1, if_true]
    subst hkk
    split
    · trivial
    · split
      · left; simp [dstep, closerOf]
      · intro _; rfl
  · simp only [hk1, Bool.false_eq_true, if_false]
    by_cases hk2 : (k == .semicolon) = true
    · have hkk : k = .semicolon := by simpa using hk2
      simp only [hk2, if_true]
      subst hkk
      split
      · trivial
      · split
        · intro _; rfl
        · split
          · rename_i e _; cases e <;> trivial
          · rename_i s2 hc
            intro _
            exact completion_br { s' with cstate := .none } _ _ _ hc
          · rename_i s2 hc
            have h2 := completion_br { s' with cstate := .none } _ _ _ hc
            split
            · trivial
            · rename_i g rest2 hst2
              split
              · trivial
              · rename_i s4 hup
                left
                have h4 := up_br { s2 with loaded := completeCb g s2.loaded } s4 hup
                simp only at h4 h2
                simp [dstep, closerOf, isCloser, h4, h2]
    · simp only [hk2, Bool.false_eq_true, if_false]
      intro hk
      rcases hk with rfl | rfl <;> simp at hk1 hk2

/-- the completion loop answers `False` only on a command that is still incomplete -/
theorem complLoop_false (ld : List Bytes) (f : Frame) (rest : List Frame) (o : ComplOut)
    (h : complLoop ld f rest = .ok o) (hf : o.ok = false) : ∃ g r, o.stack = g :: r ∧ Frame.complete g = false := by
  induction rest generalizing f with
  | nil => simp [complLoop] at h; subst h; simp at hf
  | cons p r ih =>
    unfold complLoop at h
    simp only at h
    split at h
    · split at h
      · split at h
        · simp at h; subst h; simp at hf
        · exact ih _ h
      · rename_i hnc
        split at h
        · simp at h
        · simp at h; subst h
          exact ⟨_, r, rfl, by simpa using hnc⟩
        · split at h
          · simp at h; subst h; simp at hf
          · exact ih _ h
    · exact ih _ h

theorem completion_false (s : PState) (ts : Bool) (s' : PState) (h : completion s ts = .ok (false, s')) :
    ∃ g r, s'.stack = g :: r ∧ Frame.complete g = false := by
  unfold completion at h
  split at h
  · simp at h
  · split at h
    · simp at h
    · split at h
      · simp at h
      · split at h
        · simp at h
        · rename_i o ho
          simp at h
          obtain ⟨hok, hs'⟩ := h
          subst hs'
          exact complLoop_false _ _ _ o ho hok

/-- a state function that declines *and* asks for a rewind leaves an incomplete command on top -/
theorem stateFn_false_rew (T : Table) (s : PState) (k : TokKind) (text : Bytes) (s' : PState)
    (h : stateFn T s k text = .ret false s' true) : ∃ g r, s'.stack = g :: r ∧ Frame.complete g = false := by
  have key : ∀ k', argThenCompl s k' text = .ret false s' true → ∃ g r, s'.stack = g :: r ∧ Frame.complete g = false := by
    intro k' hr
    unfold argThenCompl thenCompl at hr
    split at hr
    · rename_i s1 rew heq
      unfold complThen at hr
      split at hr
      · rename_i e _; cases e <;> simp [ofCmdErr] at hr
      · rename_i b s2 hc
        simp at hr
        obtain ⟨hb, hs2, _⟩ := hr
        subst hb; subst hs2
        exact completion_false s1 false _ hc
    · -- the answer of `__argument` itself: never a rewind together with `False`
      exfalso
      have hoffer : ∀ t v, offer s t v ≠ .ret false s' true := by
        intro t v hh
        unfold offer at hh
        split at hh
        · rename_i e _; cases e <;> simp [ofCmdErr] at hh
        · simp at hh
      have htry : tryReassign s ≠ .ret false s' true := by
        intro hh
        unfold tryReassign at hh
        split at hh
        · simp at hh
        · split at hh
          · split at hh <;> simp at hh
          · simp at hh
      cases k' with
      | string => simp only [argumentFn] at hr; split at hr
                  · simp at hr
                  · exact hoffer _ _ hr
      | multiline => simp only [argumentFn] at hr; split at hr
                     · simp at hr
                     · exact hoffer _ _ hr
      | number => exact hoffer _ _ hr
      | tag => exact hoffer _ _ hr
      | left_bracket => simp [argumentFn] at hr
      | left_cbracket => exact htry hr
      | comma => exact htry hr
      | right_parenthesis => exact htry hr
      | semicolon => simp [argumentFn] at hr
      | right_bracket => simp [argumentFn] at hr
      | left_parenthesis => simp [argumentFn] at hr
      | right_cbracket => simp [argumentFn] at hr
      | hash_comment => simp [argumentFn] at hr
      | bracket_comment => simp [argumentFn] at hr
      | identifier => simp [argumentFn] at hr
  unfold stateFn at h
  split at h
  · have := Safe.isRew_stringlistFn s k text
    rw [h] at this
    simp [Safe.isRew] at this
  · unfold argumentsFn at h
    split at h
    · simp at h
    · split at h
      · have := Safe.isRew_pushTest T s text
        rw [h] at this; simp [Safe.isRew] at this
      · split at h
        · simp at h
        · exact key _ h
      · split at h
        · simp at h
        · exact key _ h
      · split at h
        · exact key _ h
        · have := Safe.isRew_closeParen s
          rw [h] at this; simp [Safe.isRew] at this
      · exact key _ h

end Brackets

namespace Brackets
open Machine Args

theorem argThenCompl_rew_same (s : PState) (k : TokKind) (text : Bytes) (b : Bool) (s' : PState)
    (h : argThenCompl s k text = .ret b s' true) : s'.brackets = s.brackets := by
  have hk := argThenCompl_br s k text
  rw [h] at hk
  have hs' : s'.brackets = (if k == .left_bracket then .right_bracket :: s.brackets else s.brackets) := hk
  by_cases hkk : k = .left_bracket
  · exfalso
    subst hkk
    unfold argThenCompl argumentFn thenCompl at h
    simp only at h
    have := Safe.isRew_complThen (openList s) false false (by rw [h]; rfl)
    simp at this
  · have : (k == .left_bracket) = false := by simpa using hkk
    rw [this] at hs'
    simpa using hs'

theorem stateFn_rew_same (T : Table) (s : PState) (k : TokKind) (text : Bytes) (b : Bool) (s' : PState)
    (h : stateFn T s k text = .ret b s' true) : s'.brackets = s.brackets := by
  unfold stateFn at h
  split at h
  · have := Safe.isRew_stringlistFn s k text
    rw [h] at this; simp [Safe.isRew] at this
  · unfold argumentsFn at h
    split at h
    · simp at h
    · split at h
      · have := Safe.isRew_pushTest T s text
        rw [h] at this; simp [Safe.isRew] at this
      · split at h
        · simp at h
        · exact argThenCompl_rew_same s _ text b s' h
      · split at h
        · simp at h
        · exact argThenCompl_rew_same s _ text b s' h
      · split at h
        · exact argThenCompl_rew_same s _ text b s' h
        · have := Safe.isRew_closeParen s
          rw [h] at this; simp [Safe.isRew] at this
      · exact argThenCompl_rew_same s _ text b s' h

/-- one call of `__command` that answers True: without a rewind the bracket stack took the nesting
    step of the token; with a rewind it is untouched -/
theorem commandFn_br (T : Table) (s : PState) (k : TokKind) (text : Bytes) (s2 : PState) (rew : Bool)
    (h : commandFn T s k text = .ret true s2 rew) :
    (rew = false → dstep s.brackets k = some s2.brackets) ∧ (rew = true → s2.brackets = s.brackets) := by
  unfold commandFn at h
  split at h
  · have he := startCommand_eff T s k text
    rw [h] at he
    have hr : rew = false := by
      cases rew with
      | false => rfl
      | true => exact absurd h (Loaded.isRewFalse_start T s k text _ _)
    subst hr
    refine ⟨fun _ => ?_, fun hh => by simp at hh⟩
    rcases he with h1 | ⟨h1, _⟩
    · exact h1
    · simp at h1
  · have he := stateFn_eff T s k text
    cases hr : stateFn T s k text with
    | crash w => rw [hr] at h; simp at h
    | err e r => rw [hr] at h; simp at h
    | ret b s' rew' =>
      rw [hr] at h he
      cases b with
      | true =>
        simp only at h
        injection h with _ h2 h3
        subst h2; subst h3
        refine ⟨fun hf => ?_, fun ht => ?_⟩
        · rcases he with h1 | ⟨h1, _⟩
          · exact h1
          · rw [hf] at h1; simp at h1
        · subst ht; exact stateFn_rew_same T s k text true s' hr
      | false =>
        simp only at h
        have hrew := Loaded.closeCommand_rew s' k rew' _ _ _ h
        subst hrew
        -- the token is `{` or `;` (nothing else is accepted here)
        have hk : k = .left_cbracket ∨ k = .semicolon := by
          by_cases h1 : k = .left_cbracket
          · exact Or.inl h1
          · by_cases h2 : k = .semicolon
            · exact Or.inr h2
            · exfalso
              unfold closeCommand at h
              have e1 : (k == .left_cbracket) = false := by simpa using h1
              have e2 : (k == .semicolon) = false := by simpa using h2
              simp [e1, e2] at h
        have hsame : s'.brackets = s.brackets := he hk
        have hc := closeCommand_eff s' k rew
        rw [h] at hc
        cases rew with
        | false =>
          refine ⟨fun _ => ?_, fun hh => by simp at hh⟩
          rcases hc with h1 | ⟨h1, _⟩
          · rw [← hsame]; exact h1
          · simp at h1
        | true =>
          exfalso
          obtain ⟨g, r, hst, hinc⟩ := stateFn_false_rew T s k text s' hr
          rcases hk with rfl | rfl
          · unfold closeCommand at h
            simp only [beq_self_eq_true, if_true, hst, hinc, Bool.and_false, Bool.false_eq_true, if_false] at h
            simp at h
          · rcases Loaded.stateFn_semicolon T s text with h1 | ⟨w, h1⟩
            · rw [h1] at hr; simp at hr
            · rw [h1] at hr; simp at hr

/-- the effect of one delivered token on the bracket stack is the nesting step of that token -/
theorem step_br (T : Table) (s : PState) (tok : Tok) (s' : PState) :
    (step T s tok = .ok s' → dstep s.brackets tok.kind = some s'.brackets) ∧
    (step T s tok = .rewind s' → s'.brackets = s.brackets) := by
  unfold step
  split
  · rename_i hk
    refine ⟨fun h => ?_, fun h => by simp at h⟩
    simp at h; rw [← h, hk]; rfl
  · rename_i hk
    refine ⟨fun h => ?_, fun h => by simp at h⟩
    simp at h; rw [← h, hk]; rfl
  · unfold stepTok
    split
    · exact ⟨fun h => by simp at h, fun h => by simp at h⟩
    · rename_i s1 hadm
      have hs1 : s1.brackets = s.brackets := by
        unfold admitTok at hadm
        split at hadm
        · simp at hadm; subst hadm; rfl
        · split at hadm
          · simp at hadm; subst hadm; rfl
          · simp at hadm
      unfold ofFn
      split
      · rename_i s2 heq
        refine ⟨fun h => ?_, fun h => by simp at h⟩
        simp at h; subst h
        rw [← hs1]
        exact (commandFn_br T s1 _ _ s2 false heq).1 rfl
      · rename_i s2 heq
        refine ⟨fun h => by simp at h, fun h => ?_⟩
        simp at h; subst h
        rw [← hs1]
        exact (commandFn_br T s1 _ _ s2 true heq).2 rfl
      · exact ⟨fun h => by simp at h, fun h => by simp at h⟩
      · exact ⟨fun h => by simp at h, fun h => by simp at h⟩
      · exact ⟨fun h => by simp at h, fun h => by simp at h⟩

theorem deliver_br (T : Table) (s : PState) (tok : Tok) (s' : PState) (h : deliver T s tok = .ok s') :
    dstep s.brackets tok.kind = some s'.brackets := by
  unfold deliver at h
  cases hst : step T s tok with
  | ok s1 => rw [hst] at h; simp at h; subst h; exact (step_br T s tok s1).1 hst
  | reject e r => rw [hst] at h; simp at h
  | crash w => rw [hst] at h; simp at h
  | rewind s1 =>
    rw [hst] at h
    simp only at h
    have h1 := (step_br T s tok s1).2 hst
    cases hst2 : step T s1 tok with
    | ok s2 => rw [hst2] at h; simp at h; subst h; rw [← h1]; exact (step_br T s1 tok s2).1 hst2
    | reject e r => rw [hst2] at h; simp at h
    | crash w => rw [hst2] at h; simp at h
    | rewind s2 => rw [hst2] at h; simp at h

/-- run the nesting discipline over a token-kind sequence -/
def drun : List TokKind → List TokKind → Option (List TokKind)
  | b, [] => some b
  | b, k :: ks =>
    match dstep b k with
    | some b' => drun b' ks
    | none => none

/-- balanced and properly nested -/
def Balanced (ks : List TokKind) : Prop := drun [] ks = some []

theorem feed_br (T : Table) (toks : List Tok) (s : PState) (n : Nat) (s' : PState) (m : Nat)
    (h : feed T toks s n = .done s' m) : drun s.brackets (toks.map (·.kind)) = some s'.brackets := by
  induction toks generalizing s n with
  | nil => simp [feed] at h; rw [← h.1]; rfl
  | cons tok rest ih =>
    unfold feed at h
    cases hd : deliver T s tok with
    | error o => rw [hd] at h; simp at h
    | ok s1 =>
      rw [hd] at h
      simp only [List.map_cons, drun, deliver_br T s tok s1 hd]
      exact ih s1 _ h

/-- **the brackets of an accepted script are balanced and properly nested** -/
theorem accepted_is_balanced (T : Table) (text : Bytes) (prev : PState) (r : List Node)
    (h : parse T text prev = .accept r) :
    ∃ lr, Lex.lex text = some lr ∧ Balanced (lr.toks.map (·.kind)) := by
  unfold parse at h
  split at h
  · simp at h
  · rename_i lr hl
    refine ⟨lr, hl, ?_⟩
    unfold run at h
    split at h
    · rename_i o ho
      subst h
      rcases feed_stop_located T lr.toks {} 0 _ ho with h1 | ⟨w, h1⟩ | ⟨tok, _, e, h1 | h1⟩ <;> simp at h1
    · rename_i s' m hfeed
      split at h
      · simp at h
      · unfold finish endExpectation at h
        have hb := feed_br T lr.toks {} 0 s' m hfeed
        cases hbr : s'.brackets with
        | nil => unfold Balanced; rw [hbr] at hb; exact hb
        | cons x rest => rw [hbr] at h; simp at h

end Brackets
