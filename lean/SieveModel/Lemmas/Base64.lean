import SieveModel.Model.Base64
/-! `decode (encode b) = b` for every byte string. -/
namespace Base64

theorem dec6_enc6 : ∀ k : Fin 64, dec6 (enc6 k.val) = some k.val := by decide +kernel

theorem dec6_enc6' (k : Nat) (h : k < 64) : dec6 (enc6 k) = some k := dec6_enc6 ⟨k, h⟩

theorem enc6_ne_pad : ∀ k : Fin 64, enc6 k.val ≠ 61 := by decide +kernel

theorem toUInt8_toNat (a : UInt8) : (a.toNat).toUInt8 = a := by
  cases a; simp [Nat.toUInt8, UInt8.ofNat, UInt8.toNat]

end Base64

namespace Base64

theorem group_arith (a b c : Nat) (ha : a < 256) (hb : b < 256) (hc : c < 256) :
    let n := a * 65536 + b * 256 + c
    n / 262144 < 64 ∧ n / 4096 % 64 < 64 ∧ n / 64 % 64 < 64 ∧ n % 64 < 64 ∧
    (((n / 262144) * 64 + n / 4096 % 64) * 64 + n / 64 % 64) * 64 + n % 64 = n := by
  intro n
  refine ⟨by omega, by omega, by omega, by omega, by omega⟩

/-- a full 3-byte group decodes back, whatever follows -/
theorem decode_group (a b c : UInt8) (rest : Bytes) :
    decode (enc6 ((a.toNat * 65536 + b.toNat * 256 + c.toNat) / 262144) ::
            enc6 ((a.toNat * 65536 + b.toNat * 256 + c.toNat) / 4096 % 64) ::
            enc6 ((a.toNat * 65536 + b.toNat * 256 + c.toNat) / 64 % 64) ::
            enc6 ((a.toNat * 65536 + b.toNat * 256 + c.toNat) % 64) :: rest)
      = (decode rest).map (fun r => a :: b :: c :: r) := by
  have ha := a.toNat_lt
  have hb := b.toNat_lt
  have hc := c.toNat_lt
  obtain ⟨h1, h2, h3, h4, hsum⟩ := group_arith a.toNat b.toNat c.toNat (by omega) (by omega) (by omega)
  have p3 := enc6_ne_pad ⟨_, h3⟩
  have p4 := enc6_ne_pad ⟨_, h4⟩
  simp only at p3 p4
  rw [decode.eq_def]
  split
  · next heq => exact absurd heq (by simp)
  · next _ _ heq =>
    simp only [List.cons.injEq] at heq
    exact absurd heq.2.2.1 p3
  · next _ _ _ _ heq =>
    simp only [List.cons.injEq] at heq
    exact absurd heq.2.2.2.1 p4
  · next x y z w r _ _ heq =>
    simp only [List.cons.injEq] at heq
    obtain ⟨hx, hy, hz, hw, hr⟩ := heq
    subst hx hy hz hw hr
    simp only [dec6_enc6' _ h1, dec6_enc6' _ h2, dec6_enc6' _ h3, dec6_enc6' _ h4, bind, Option.bind, hsum]
    cases decode rest with
    | none => rfl
    | some r =>
      simp only [Option.map, pure]
      have e1 : (a.toNat * 65536 + b.toNat * 256 + c.toNat) / 65536 = a.toNat := by omega
      have e2 : (a.toNat * 65536 + b.toNat * 256 + c.toNat) / 256 % 256 = b.toNat := by omega
      have e3 : (a.toNat * 65536 + b.toNat * 256 + c.toNat) % 256 = c.toNat := by omega
      rw [e1, e2, e3, toUInt8_toNat, toUInt8_toNat, toUInt8_toNat]
  · next hno => exact absurd rfl (hno _ _ _ _ _)

theorem decode_tail2 (a b : UInt8) :
    decode [enc6 ((a.toNat * 65536 + b.toNat * 256) / 262144), enc6 ((a.toNat * 65536 + b.toNat * 256) / 4096 % 64),
            enc6 ((a.toNat * 65536 + b.toNat * 256) / 64 % 64), 61] = some [a, b] := by
  have ha := a.toNat_lt
  have hb := b.toNat_lt
  have h1 : (a.toNat * 65536 + b.toNat * 256) / 262144 < 64 := by omega
  have h2 : (a.toNat * 65536 + b.toNat * 256) / 4096 % 64 < 64 := by omega
  have h3 : (a.toNat * 65536 + b.toNat * 256) / 64 % 64 < 64 := by omega
  have p3 := enc6_ne_pad ⟨_, h3⟩
  simp only at p3
  rw [decode.eq_def]
  split
  · next heq => exact absurd heq (by simp)
  · next _ _ heq =>
    simp only [List.cons.injEq] at heq
    exact absurd heq.2.2.1 p3
  · next x y z _ heq =>
    simp only [List.cons.injEq] at heq
    obtain ⟨hx, hy, hz, _⟩ := heq
    subst hx hy hz
    simp only [dec6_enc6' _ h1, dec6_enc6' _ h2, dec6_enc6' _ h3, bind, Option.bind, pure]
    have e1 : ((((a.toNat * 65536 + b.toNat * 256) / 262144) * 64 + (a.toNat * 65536 + b.toNat * 256) / 4096 % 64) * 64 +
        (a.toNat * 65536 + b.toNat * 256) / 64 % 64) / 1024 = a.toNat := by omega
    have e2 : ((((a.toNat * 65536 + b.toNat * 256) / 262144) * 64 + (a.toNat * 65536 + b.toNat * 256) / 4096 % 64) * 64 +
        (a.toNat * 65536 + b.toNat * 256) / 64 % 64) / 4 % 256 = b.toNat := by omega
    rw [e1, e2, toUInt8_toNat, toUInt8_toNat]
  · next _ _ _ _ _ _ hno heq =>
    simp only [List.cons.injEq] at heq
    obtain ⟨_, _, _, hd, hr⟩ := heq
    exact (hno hd.symm hr.symm).elim
  · next _ hno _ => exact absurd rfl (hno _ _ _)

theorem decode_tail1 (a : UInt8) :
    decode [enc6 ((a.toNat * 65536) / 262144), enc6 ((a.toNat * 65536) / 4096 % 64), 61, 61] = some [a] := by
  have ha := a.toNat_lt
  have h1 : (a.toNat * 65536) / 262144 < 64 := by omega
  have h2 : (a.toNat * 65536) / 4096 % 64 < 64 := by omega
  rw [decode.eq_def]
  split
  · next heq => exact absurd heq (by simp)
  · next x y heq =>
    simp only [List.cons.injEq] at heq
    obtain ⟨hx, hy, _⟩ := heq
    subst hx hy
    simp only [dec6_enc6' _ h1, dec6_enc6' _ h2, bind, Option.bind, pure]
    have e1 : (((a.toNat * 65536) / 262144) * 64 + (a.toNat * 65536) / 4096 % 64) / 16 = a.toNat := by omega
    rw [e1, toUInt8_toNat]
  · next _ _ _ hno heq =>
    simp only [List.cons.injEq] at heq
    exact absurd heq.2.2.1.symm hno
  · next _ _ _ _ _ hno _ heq =>
    simp only [List.cons.injEq] at heq
    obtain ⟨_, _, hc, hd, hr⟩ := heq
    exact absurd hr.symm (hno hc.symm hd.symm)
  · next hno _ _ => exact absurd rfl (hno _ _)

/-- base64: decoding an encoding gives the bytes back — for every byte string -/
theorem decode_encode (b : Bytes) : decode (encode b) = some b := by
  fun_induction encode b with
  | case1 a b c rest n ih =>
    rw [decode_group, ih]; rfl
  | case2 a b => exact decode_tail2 a b
  | case3 a => exact decode_tail1 a
  | case4 => simp [decode]

end Base64
