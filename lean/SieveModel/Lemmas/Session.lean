import SieveModel.Lemmas.ClientRead
/-!
# Whole sessions (T-SESSION)

A session is any list of public operations run one after the other on one client.  `runOps_congr`: two
clients that differ only in how the pending bytes are split between buffer and socket and in the recv
schedule — at the start of the session — give the same result for every operation of the session and
end in states that again differ only in that way.  So no history of operations can be brought out of
step by the way the server's bytes are delivered.
-/
namespace Client
open Reader

/-- a public operation with its arguments -/
inductive Op where
  | havespace (name : Bytes) (size : Nat)
  | putscript (name content : Bytes)
  | deletescript (name : Bytes)
  | setactive (name : Bytes)
  | checkscript (content : Bytes)
  | listscripts
  | getscript (name : Bytes)
  | renamescript (old new : Bytes)
  | capability
  | logout
  deriving Repr

/-- what an operation hands back -/
inductive OpVal where
  | bool (b : Bool)
  | text (t : Option Bytes)
  | listing (l : Option (Option Bytes × List Bytes))
  | unit
  deriving DecidableEq, Repr

def mapRes {α : Type} (f : α → OpVal) (x : Res α) : Res OpVal :=
  (match x.1 with | .ok v => .ok (f v) | .error e => .error e, x.2)

def runOp (c : Client) : Op → Res OpVal
  | .havespace n k => mapRes .bool (havespace c n k)
  | .putscript n b => mapRes .bool (putscript c n b)
  | .deletescript n => mapRes .bool (deletescript c n)
  | .setactive n => mapRes .bool (setactive c n)
  | .checkscript b => mapRes .bool (checkscript c b)
  | .listscripts => mapRes .listing (listscripts c)
  | .getscript n => mapRes .text (getscript c n)
  | .renamescript o n => mapRes .bool (renamescript c o n)
  | .capability => mapRes .text (capability c)
  | .logout => mapRes (fun _ => .unit) (logout c)

/-- a session: the results in order and the final client -/
def runOps (c : Client) : List Op → List (Except RErr OpVal) × Client
  | [] => ([], c)
  | op :: rest =>
    let r := runOp c op
    let rs := runOps r.2 rest
    (r.1 :: rs.1, rs.2)

theorem mapRes_congr {α : Type} (f : α → OpVal) (x y : Res α) (h : RelC x y) : RelC (mapRes f x) (mapRes f y) := by
  obtain ⟨hv, hc⟩ := h
  exact ⟨by simp only [mapRes, hv], hc⟩

theorem runOp_congr (a b : Client) (h : SameC a b) (op : Op) : RelC (runOp a op) (runOp b op) := by
  cases op with
  | havespace n k => exact mapRes_congr _ _ _ (havespace_congr a b h n k)
  | putscript n c => exact mapRes_congr _ _ _ (putscript_congr a b h n c)
  | deletescript n => exact mapRes_congr _ _ _ (deletescript_congr a b h n)
  | setactive n => exact mapRes_congr _ _ _ (setactive_congr a b h n)
  | checkscript c => exact mapRes_congr _ _ _ (checkscript_congr a b h c)
  | listscripts => exact mapRes_congr _ _ _ (listscripts_congr a b h)
  | getscript n => exact mapRes_congr _ _ _ (getscript_congr a b h n)
  | renamescript o n => exact mapRes_congr _ _ _ (renamescript_congr a b h o n)
  | capability => exact mapRes_congr _ _ _ (capability_congr a b h)
  | logout => exact mapRes_congr _ _ _ (logout_congr a b h)

/-- **whole sessions are independent of segmentation** -/
theorem runOps_congr (ops : List Op) (a b : Client) (h : SameC a b) :
    (runOps a ops).1 = (runOps b ops).1 ∧ SameC (runOps a ops).2 (runOps b ops).2 := by
  induction ops generalizing a b with
  | nil => exact ⟨rfl, h⟩
  | cons op rest ih =>
    obtain ⟨hv, hc⟩ := runOp_congr a b h op
    obtain ⟨h1, h2⟩ := ih _ _ hc
    exact ⟨by simp only [runOps, hv, h1], h2⟩

/-- a session preceded by `connect` without STARTTLS on two deliveries of the same server bytes -/
theorem connect_then_session_congr (c : Client) (env : ConnEnv) (n1 n2 : Net) (hs : n1.stream = n2.stream)
    (hl : n1.later = n2.later) (login password authz : Bytes) (mech : Option Bytes) (ops : List Op) :
    (connect c env n1 login password authz false mech).1 = (connect c env n2 login password authz false mech).1 ∧
    (runOps (connect c env n1 login password authz false mech).2 ops).1 =
      (runOps (connect c env n2 login password authz false mech).2 ops).1 := by
  obtain ⟨hv, hc⟩ := connect_plain_congr c env n1 n2 hs hl login password authz mech
  exact ⟨hv, (runOps_congr ops _ _ hc).1⟩

end Client
