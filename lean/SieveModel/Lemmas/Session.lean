import SieveModel.Lemmas.ClientRead
import SieveModel.Lemmas.ClientState
/-!
# Whole sessions (T-SESSION)

A session is any list of public operations run one after the other on one client.  `runOps_congr`: two
clients that differ only in how the pending bytes are split between buffer and socket and in the recv
schedule — at the start of the session — give the same result for every operation of the session and
end in states that again differ only in that way.  So no history of operations can be brought out of
step by the way the server's bytes are delivered.
-/
namespace Client
open Reader

/-- a public operation with its arguments -/
inductive Op where
  | havespace (name : Bytes) (size : Nat)
  | putscript (name content : Bytes)
  | deletescript (name : Bytes)
  | setactive (name : Bytes)
  | checkscript (content : Bytes)
  | listscripts
  | getscript (name : Bytes)
  | renamescript (old new : Bytes)
  | capability
  | logout
  deriving Repr

/-- what an operation hands back -/
inductive OpVal where
  | bool (b : Bool)
  | text (t : Option Bytes)
  | listing (l : Option (Option Bytes × List Bytes))
  | unit
  deriving DecidableEq, Repr

def mapRes {α : Type} (f : α → OpVal) (x : Res α) : Res OpVal :=
  (match x.1 with | .ok v => .ok (f v) | .error e => .error e, x.2)

def runOp (c : Client) : Op → Res OpVal
  | .havespace n k => mapRes .bool (havespace c n k)
  | .putscript n b => mapRes .bool (putscript c n b)
  | .deletescript n => mapRes .bool (deletescript c n)
  | .setactive n => mapRes .bool (setactive c n)
  | .checkscript b => mapRes .bool (checkscript c b)
  | .listscripts => mapRes .listing (listscripts c)
  | .getscript n => mapRes .text (getscript c n)
  | .renamescript o n => mapRes .bool (renamescript c o n)
  | .capability => mapRes .text (capability c)
  | .logout => mapRes (fun _ => .unit) (logout c)

/-- a session: the results in order and the final client -/
def runOps (c : Client) : List Op → List (Except RErr OpVal) × Client
  | [] => ([], c)
  | op :: rest =>
    let r := runOp c op
    let rs := runOps r.2 rest
    (r.1 :: rs.1, rs.2)

theorem mapRes_congr {α : Type} (f : α → OpVal) (x y : Res α) (h : RelC x y) : RelC (mapRes f x) (mapRes f y) := by
  obtain ⟨hv, hc⟩ := h
  exact ⟨by simp only [mapRes, hv], hc⟩

theorem runOp_congr (a b : Client) (h : SameC a b) (op : Op) : RelC (runOp a op) (runOp b op) := by
  cases op with
  | havespace n k => exact mapRes_congr _ _ _ (havespace_congr a b h n k)
  | putscript n c => exact mapRes_congr _ _ _ (putscript_congr a b h n c)
  | deletescript n => exact mapRes_congr _ _ _ (deletescript_congr a b h n)
  | setactive n => exact mapRes_congr _ _ _ (setactive_congr a b h n)
  | checkscript c => exact mapRes_congr _ _ _ (checkscript_congr a b h c)
  | listscripts => exact mapRes_congr _ _ _ (listscripts_congr a b h)
  | getscript n => exact mapRes_congr _ _ _ (getscript_congr a b h n)
  | renamescript o n => exact mapRes_congr _ _ _ (renamescript_congr a b h o n)
  | capability => exact mapRes_congr _ _ _ (capability_congr a b h)
  | logout => exact mapRes_congr _ _ _ (logout_congr a b h)

/-- **whole sessions are independent of segmentation** -/
theorem runOps_congr (ops : List Op) (a b : Client) (h : SameC a b) :
    (runOps a ops).1 = (runOps b ops).1 ∧ SameC (runOps a ops).2 (runOps b ops).2 := by
  induction ops generalizing a b with
  | nil => exact ⟨rfl, h⟩
  | cons op rest ih =>
    obtain ⟨hv, hc⟩ := runOp_congr a b h op
    obtain ⟨h1, h2⟩ := ih _ _ hc
    exact ⟨by simp only [runOps, hv, h1], h2⟩

/-- a session preceded by `connect` without STARTTLS on two deliveries of the same server bytes -/
theorem connect_then_session_congr (c : Client) (env : ConnEnv) (n1 n2 : Net) (hs : n1.stream = n2.stream)
    (hl : n1.later = n2.later) (login password authz : Bytes) (mech : Option Bytes) (ops : List Op) :
    (connect c env n1 login password authz false mech).1 = (connect c env n2 login password authz false mech).1 ∧
    (runOps (connect c env n1 login password authz false mech).2 ops).1 =
      (runOps (connect c env n2 login password authz false mech).2 ops).1 := by
  obtain ⟨hv, hc⟩ := connect_plain_congr c env n1 n2 hs hl login password authz mech
  exact ⟨hv, (runOps_congr ops _ _ hc).1⟩

/-! ## what a session cannot change -/

theorem guarded_keeps {α : Type} (c : Client) (f : Client → Res α) (h : Keeps c (f c).2) : Keeps c (guarded c f).2 := by
  unfold guarded
  split
  · exact h
  · exact Keeps.refl c

theorem okOf_keeps (c : Client) (x : Res Reply) (h : Keeps c x.2) : Keeps c (okOf x).2 := by
  rw [okOf_snd]; exact h

theorem havespace_keeps (c : Client) (n : Bytes) (k : Nat) : Keeps c (havespace c n k).2 :=
  guarded_keeps c _ (okOf_keeps c _ (sendCommand_keeps c _ _ _ _))
theorem putscript_keeps (c : Client) (n b : Bytes) : Keeps c (putscript c n b).2 :=
  guarded_keeps c _ (okOf_keeps c _ (sendCommand_keeps c _ _ _ _))
theorem deletescript_keeps (c : Client) (n : Bytes) : Keeps c (deletescript c n).2 :=
  guarded_keeps c _ (okOf_keeps c _ (sendCommand_keeps c _ _ _ _))
theorem setactive_keeps (c : Client) (n : Bytes) : Keeps c (setactive c n).2 :=
  guarded_keeps c _ (okOf_keeps c _ (sendCommand_keeps c _ _ _ _))

theorem checkscript_keeps (c : Client) (b : Bytes) : Keeps c (checkscript c b).2 := by
  refine guarded_keeps c _ ?_
  show Keeps c (if !capHas c (sb "VERSION") then ((.error (.crash "NotImplementedError") : Except RErr Bool), c)
      else okOf (sendCommand c (sb "CHECKSCRIPT") [.lit b])).2
  split
  · exact Keeps.refl c
  · exact okOf_keeps c _ (sendCommand_keeps c _ _ _ _)

theorem listscripts_keeps (c : Client) : Keeps c (listscripts c).2 := by
  refine guarded_keeps c _ ?_
  have h := sendCommand_keeps c (sb "LISTSCRIPTS") [] [] none
  revert h
  generalize sendCommand c (sb "LISTSCRIPTS") [] [] none = x
  intro h
  obtain ⟨v, c1⟩ := x
  cases v with
  | error e => exact h
  | ok rep =>
    simp only
    split
    · exact h
    · split <;> exact h

theorem getscript_keeps (c : Client) (n : Bytes) : Keeps c (getscript c n).2 := by
  refine guarded_keeps c _ ?_
  have h := sendCommand_keeps c (sb "GETSCRIPT") [.str n] [] none
  revert h
  generalize sendCommand c (sb "GETSCRIPT") [.str n] [] none = x
  intro h
  obtain ⟨v, c1⟩ := x
  cases v with
  | error e => exact h
  | ok rep =>
    simp only
    split
    · split <;> exact h
    · exact h

theorem capability_keeps (c : Client) : Keeps c (capability c).2 := by
  have h := sendCommand_keeps c (sb "CAPABILITY") [] [] none
  unfold capability
  revert h
  generalize sendCommand c (sb "CAPABILITY") [] [] none = x
  intro h
  obtain ⟨v, c1⟩ := x
  cases v <;> exact h

theorem logout_keeps (c : Client) : Keeps c (logout c).2 := by
  have h := sendCommand_keeps c (sb "LOGOUT") [] [] none
  unfold logout
  revert h
  generalize sendCommand c (sb "LOGOUT") [] [] none = x
  intro h
  obtain ⟨v, c1⟩ := x
  cases v <;> exact h

theorem emulatedRename_keeps (c : Client) (old new : Bytes) : Keeps c (emulatedRename c old new).2 := by
  unfold emulatedRename
  have h1 := listscripts_keeps c
  revert h1
  generalize listscripts c = x1
  intro h1
  obtain ⟨v1, c1⟩ := x1
  cases v1 with
  | error e => exact h1
  | ok lst =>
    cases lst with
    | none => exact h1
    | some p =>
      obtain ⟨active, scripts⟩ := p
      simp only
      split
      · exact h1.trans (setErrmsg_keeps c1 _)
      · split
        · exact h1.trans (setErrmsg_keeps c1 _)
        · have h2 := getscript_keeps c1 old
          revert h2
          generalize getscript c1 old = x2
          intro h2
          obtain ⟨v2, c2⟩ := x2
          cases v2 with
          | error e => exact h1.trans h2
          | ok ob =>
            cases ob with
            | none => exact h1.trans h2
            | some body =>
              simp only
              have h3 := putscript_keeps c2 new body
              revert h3
              generalize putscript c2 new body = x3
              intro h3
              obtain ⟨v3, c3⟩ := x3
              cases v3 with
              | error e => exact (h1.trans h2).trans h3
              | ok okb =>
                cases okb with
                | false => exact (h1.trans h2).trans h3
                | true =>
                  simp only [activateIfNeeded]
                  by_cases hact : active == some old
                  · simp only [hact, if_true]
                    have h4 := setactive_keeps c3 new
                    revert h4
                    generalize setactive c3 new = x4
                    intro h4
                    obtain ⟨v4, c4⟩ := x4
                    cases v4 with
                    | error e => exact ((h1.trans h2).trans h3).trans h4
                    | ok ab =>
                      cases ab with
                      | false => exact ((h1.trans h2).trans h3).trans h4
                      | true => exact (((h1.trans h2).trans h3).trans h4).trans (deletescript_keeps c4 old)
                  · simp only [hact, Bool.false_eq_true, if_false]
                    exact ((h1.trans h2).trans h3).trans (deletescript_keeps c3 old)

theorem renamescript_keeps (c : Client) (old new : Bytes) : Keeps c (renamescript c old new).2 := by
  refine guarded_keeps c _ ?_
  show Keeps c (if capHas c (sb "VERSION") then okOf (sendCommand c (sb "RENAMESCRIPT") [.str old, .str new])
      else emulatedRename c old new).2
  split
  · exact okOf_keeps c _ (sendCommand_keeps c _ _ _ _)
  · exact emulatedRename_keeps c old new

theorem mapRes_snd {α : Type} (f : α → OpVal) (x : Res α) : (mapRes f x).2 = x.2 := rfl

theorem runOp_keeps (c : Client) (op : Op) : Keeps c (runOp c op).2 := by
  cases op with
  | havespace n k => exact havespace_keeps c n k
  | putscript n b => exact putscript_keeps c n b
  | deletescript n => exact deletescript_keeps c n
  | setactive n => exact setactive_keeps c n
  | checkscript b => exact checkscript_keeps c b
  | listscripts => exact listscripts_keeps c
  | getscript n => exact getscript_keeps c n
  | renamescript o n => exact renamescript_keeps c o n
  | capability => exact capability_keeps c
  | logout => exact logout_keeps c

/-- **no operation of a session changes who the client is**: authenticated, TLS and connected flags are what they
    were, and everything written went out on the channel the session started on -/
theorem runOps_keeps (ops : List Op) (c : Client) : Keeps c (runOps c ops).2 := by
  induction ops generalizing c with
  | nil => exact Keeps.refl c
  | cons op rest ih => exact (runOp_keeps c op).trans (ih _)

/-- the operations that act on scripts (everything but CAPABILITY and LOGOUT) -/
def Op.onScripts : Op → Bool
  | .capability => false
  | .logout => false
  | _ => true

theorem runOp_unauthenticated (c : Client) (op : Op) (h : c.authenticated = false) (hs : op.onScripts = true) :
    runOp c op = (.error .error, c) := by
  cases op <;> simp [Op.onScripts] at hs <;>
    simp [runOp, mapRes, havespace, putscript, deletescript, setactive, checkscript, listscripts, getscript, renamescript, guarded, h]

/-- **an unauthenticated client sends no script command, whatever is tried and however often**: every script
    operation of the session raises Error and the client — its write log included — is exactly what it was -/
theorem unauthenticated_session (ops : List Op) (c : Client) (h : c.authenticated = false)
    (hs : ∀ op ∈ ops, op.onScripts = true) :
    (runOps c ops).2 = c ∧ ∀ r ∈ (runOps c ops).1, r = .error .error := by
  induction ops with
  | nil => exact ⟨rfl, fun r hr => by simp [runOps] at hr⟩
  | cons op rest ih =>
    have h1 := runOp_unauthenticated c op h (hs op (by simp))
    obtain ⟨ih1, ih2⟩ := ih (fun o ho => hs o (by simp [ho]))
    simp only [runOps, h1]
    refine ⟨ih1, ?_⟩
    intro r hr
    simp only [List.mem_cons] at hr
    rcases hr with rfl | hr
    · rfl
    · exact ih2 r hr

end Client
